#!/venv/bin/python
"""Bookkeeping for seeded breaking changes (written by independent sub-agents in scratch worktrees).

  tools/seed.py collect <PID> [src_dir]     copy patch.diff, demo*, meta.json from /tmp/wt/<PID> to seeded/<PID>-<n>/
  tools/seed.py verify  <seed_dir>          confirm in a fresh scratch worktree of /repo HEAD: patch applies, baseline
                                            226/226, demo fails with the patch and passes without; worktree removed
  tools/seed.py detect  <seed_dir> [PIDs]   apply the patch to /repo, run ./check for the property (and extra PIDs),
                                            record which rules fire, then `git -C /repo checkout -- .`
  tools/seed.py table                       one line per seed: verified / detected by
"""
import glob
import json
import os
import re
import shutil
import subprocess
import sys
import tempfile

VERIF = os.path.dirname(os.path.dirname(os.path.abspath(__file__)))
SEEDED = os.path.join(VERIF, "seeded")


def sh(cmd, cwd=None, env=None, timeout=900):
    p = subprocess.run(cmd, cwd=cwd, env=env, shell=isinstance(cmd, str), stdout=subprocess.PIPE,
                       stderr=subprocess.STDOUT, text=True, timeout=timeout)
    return p.returncode, p.stdout


def collect(pid, src=None):
    src = src or f"/tmp/wt/{pid}"
    n = 1
    while os.path.exists(os.path.join(SEEDED, f"{pid}-{n}")):
        n += 1
    dst = os.path.join(SEEDED, f"{pid}-{n}")
    os.makedirs(dst)
    for f in ("patch.diff", "demo.py", "demo_test.py", "meta.json"):
        if os.path.exists(os.path.join(src, f)):
            shutil.copy(os.path.join(src, f), os.path.join(dst, f))
    # keep only basana/ hunks in the patch
    print(dst)
    return dst


def _demo_cmd(seed_dir, wt):
    env = dict(os.environ, PYTHONPATH=wt)
    if os.path.exists(os.path.join(seed_dir, "demo.py")):
        return ["/venv/bin/python", os.path.join(seed_dir, "demo.py")], env
    return ["/venv/bin/python", "-m", "pytest", "-q", "-p", "no:cacheprovider", os.path.join(seed_dir, "demo_test.py")], env


def verify(seed_dir):
    seed_dir = os.path.abspath(seed_dir)
    meta_p = os.path.join(seed_dir, "meta.json")
    meta = json.load(open(meta_p)) if os.path.exists(meta_p) else {}
    wt = tempfile.mkdtemp(prefix="seedverify-")
    os.rmdir(wt)
    res = {}
    try:
        rc, out = sh(["git", "-C", "/repo", "worktree", "add", "-q", "--detach", wt, "HEAD"])
        assert rc == 0, out
        rc, out = sh(["git", "apply", os.path.join(seed_dir, "patch.diff")], cwd=wt)
        res["patch_applies"] = rc == 0
        if rc != 0:
            res["apply_error"] = out[-400:]
        else:
            rc, out = sh(["/venv/bin/python", "-m", "compileall", "-q", "basana"], cwd=wt)
            res["compiles"] = rc == 0
            rc, out = sh(["/venv/bin/python", os.path.join(VERIF, "tools", "baseline.py"), wt, "-n", "8"])
            res["baseline_226"] = rc == 0
            res["baseline_tail"] = out.strip().splitlines()[-3:]
            cmd, env = _demo_cmd(seed_dir, wt)
            rc, out = sh(cmd, cwd=wt, env=env, timeout=300)
            res["demo_with_patch_rc"] = rc
            res["demo_with_patch_tail"] = out.strip().splitlines()[-4:]
            rc2, out2 = sh(["git", "apply", "-R", os.path.join(seed_dir, "patch.diff")], cwd=wt)
            rc, out = sh(cmd, cwd=wt, env=env, timeout=300)
            res["demo_without_patch_rc"] = rc
            res["demo_without_patch_tail"] = out.strip().splitlines()[-3:]
        res["confirmed"] = bool(res.get("patch_applies") and res.get("compiles") and res.get("baseline_226")
                                and res.get("demo_with_patch_rc", 0) != 0 and res.get("demo_without_patch_rc", 1) == 0)
    finally:
        sh(["git", "-C", "/repo", "worktree", "remove", "--force", wt])
        shutil.rmtree(wt, ignore_errors=True)
        sh(["git", "-C", "/repo", "worktree", "prune"])
    rc, head = sh(["git", "-C", "/repo", "log", "--format=%h", "-1"])
    res["repo_head"] = head.strip()
    meta["verified"] = res
    json.dump(meta, open(meta_p, "w"), indent=1)
    print(os.path.basename(seed_dir), "confirmed" if res["confirmed"] else "NOT CONFIRMED", json.dumps(
        {k: v for k, v in res.items() if not k.endswith("tail")}))
    return res["confirmed"]


def detect(seed_dir, extra=()):
    seed_dir = os.path.abspath(seed_dir)
    meta_p = os.path.join(seed_dir, "meta.json")
    meta = json.load(open(meta_p)) if os.path.exists(meta_p) else {}
    pid = os.path.basename(seed_dir).split("-")[0]
    rc, st = sh(["git", "-C", "/repo", "status", "--porcelain", "--untracked-files=no"])
    assert st.strip() == "", f"/repo has uncommitted changes:\n{st}"
    man = json.load(open(os.path.join(VERIF, "MANIFEST.json")))
    claimed = [c["property_id"] for c in man["checks"]]
    pids = [pid] + [p for p in extra if p != pid]
    if "all" in extra:
        pids = [pid] + [p for p in claimed if p != pid]
    det = {}
    try:
        rc, out = sh(["git", "-C", "/repo", "apply", os.path.join(seed_dir, "patch.diff")])
        assert rc == 0, out
        for p in pids:
            if not os.path.exists(os.path.join(VERIF, "sa", "rules", f"{p.lower()}.py")):
                det[p] = {"rc": None, "note": "no check yet"}
                continue
            rc, out = sh(["./check", p, "--no-evidence"], cwd=VERIF)
            fails = [l for l in out.splitlines() if l.startswith("FAIL")]
            det[p] = {"rc": rc, "rules": sorted({re.search(r" (C\d+\.\d+) ", l).group(1) for l in fails if re.search(r" (C\d+\.\d+) ", l)}),
                      "first": fails[0][:300] if fails else (out.strip().splitlines()[-1][:300] if out.strip() else "")}
    finally:
        sh(["git", "-C", "/repo", "checkout", "--", "."])
    meta["detected_by"] = det
    meta["detected"] = any(v.get("rc") == 1 for v in det.values())
    json.dump(meta, open(meta_p, "w"), indent=1)
    print(os.path.basename(seed_dir), "DETECTED" if meta["detected"] else "missed", json.dumps(det)[:600])
    return meta["detected"]


def table():
    for d in sorted(glob.glob(os.path.join(SEEDED, "*-*"))):
        mp = os.path.join(d, "meta.json")
        m = json.load(open(mp)) if os.path.exists(mp) else {}
        v = m.get("verified", {}).get("confirmed")
        det = m.get("detected_by", {})
        rules = sorted({r for x in det.values() for r in x.get("rules", [])})
        print(f"{os.path.basename(d):8s} confirmed={v!s:5s} detected={m.get('detected')!s:5s} rules={rules} :: {m.get('summary', '')[:90]}")


if __name__ == "__main__":
    cmd = sys.argv[1]
    if cmd == "collect":
        collect(*sys.argv[2:])
    elif cmd == "verify":
        sys.exit(0 if verify(sys.argv[2]) else 1)
    elif cmd == "detect":
        sys.exit(0 if detect(sys.argv[2], sys.argv[3:]) else 1)
    elif cmd == "table":
        table()
