#!/venv/bin/python
"""Generate the prompts handed to independent sub-agents (they see: the property text, a code area, and one-line summaries
of ideas already tried so that they produce something different; nothing from /verif).

  tools/mkprompts.py seed <suffix>      -> /tmp/tools/prompt_<PID><suffix>.txt for every property, worktrees /tmp/wt/<PID><suffix>
  tools/mkprompts.py refactor <prefix>  -> /tmp/tools/prompt_<prefix><n>.txt for the 8 code areas, worktrees /tmp/wt/<prefix><n>
"""
import glob
import json
import os
import shutil
import subprocess
import sys

VERIF = os.path.dirname(os.path.dirname(os.path.abspath(__file__)))
AREAS = json.load(open(os.path.join(VERIF, "tools", "prompts", "areas.json")))
OUT = "/tmp/tools"

SEED = """You are helping to evaluate a verification framework for the Python project gbeced/basana (an async event-driven
algorithmic trading framework: backtesting exchange simulator, event dispatcher, Binance/Bitstamp clients).

You have your own scratch git worktree of the project at {wt} (work ONLY inside that directory; never touch /repo or
/verif, and do not read anything under /verif). Python is /venv/bin/python (the package is importable from the worktree
when you run with cwd={wt}, e.g. `cd {wt} && /venv/bin/python demo.py`; make sure `import basana` resolves to the worktree:
run scripts with `PYTHONPATH={wt}`).

PROPERTY {pid}: {title}
{statement}
Quantifier: {quantifier}

TASK: produce ONE realistic code change (a plausible bug a maintainer could introduce: a refactor gone slightly wrong, an
optimisation, a "simplification", an off-by-one, a reordering, a dropped guard, two cooperating edits that each look fine
alone) to the basana sources in your worktree that BREAKS this property, such that
  1. the code still imports/compiles, and
  2. the project's existing pinned test baseline still passes: run `/venv/bin/python /tmp/tools/baseline.py {wt} -n 4`
     (it must print "baseline stable tests passing: 226/226"; the 69 other failures are pre-existing and expected), and
  3. the breakage needs something SPECIFIC to manifest - a particular interleaving or pool size, a fault at a particular
     point, a multi-step sequence of operations, an unusual input, or two cooperating sites - i.e. NOT something ordinary
     use or the existing tests would expose at once.
Do not edit tests. Do not make the change by deleting whole features. Keep the diff small (typically 1-15 lines).
Relevant code: {area}. These ideas were already tried, so do something DIFFERENT in kind and preferably in a different function:
{tried}
Prefer a change whose wrongness is not visible in the edited lines alone: two cooperating edits, a changed default or helper that a distant caller relies on, a new small helper/cache/early-exit that is subtly wrong, a condition that is right for the tested inputs and wrong for a boundary (ties, zero, equal timestamps, empty maps, negative signs, a second symbol/pair/source), or a reordering across a suspension point. For HTTP/websocket code a loopback aiohttp server on 127.0.0.1 works; no external network. For backtesting loans call exchange.set_symbol_precision for every symbol involved. Do not put assertions about the worktree path in the demo.
DELIVERABLES (all inside {wt}):
  - the modified sources (leave them modified in the worktree, uncommitted),
  - `{wt}/patch.diff` = output of `git diff` (relative to HEAD) restricted to the basana/ sources,
  - `{wt}/demo.py` = a small standalone program (or pytest file `{wt}/demo_test.py`) that exits non-zero / fails WITH your
    change and exits 0 / passes WITHOUT it (verify both: use `git stash` / `git stash pop` or `git apply -R patch.diff` to
    check the unmodified behaviour, then restore your change),
  - `{wt}/meta.json` = {{"property": "{pid}", "summary": "...what you changed and why it breaks the property...",
    "needs": "...what specific condition is needed for it to manifest...", "ran": ["commands you ran and their outcome"]}}.
Finish with a short report: the diff, what it needs to manifest, and the outputs of the baseline run and of the demo with
and without the change.
"""

REFACTOR = """You are helping to evaluate a verification framework for the Python project gbeced/basana (an async event-driven
algorithmic trading framework: backtesting exchange simulator, event dispatcher, Binance/Bitstamp clients).

You have your own scratch git worktree of the project at {wt} (work ONLY inside that directory; never touch /repo or /verif,
and do not read anything under /verif). Python is /venv/bin/python; run things with cwd={wt} and PYTHONPATH={wt}.

TASK: produce THREE independent, realistic, BEHAVIOUR-PRESERVING refactorings of the code area given below - the kind of
clean-up a maintainer would really merge. Make them STRUCTURAL rather than cosmetic, and make the three different in kind,
for example: extract a helper function/method (or inline an existing small private helper into its only caller), replace a
flag variable by early returns or the reverse, restructure nested if/else into guard clauses, replace a loop by a
comprehension/generator/`any()`/`all()`/`sum()`/`min()` or the reverse, introduce a local dataclass/namedtuple or tuple
unpacking for values that travel together, hoist a repeated sub-expression into a local, merge two adjacent loops over the
same data when that is safe, use `dict.get`/`setdefault`/`pop(..., None)` instead of membership tests, move a module-level
constant/table, change string building (`+=`, `"".join`, f-string, `.format`), rename parameters-free locals. Each
refactoring should touch 8-40 lines and MUST NOT change observable behaviour for any input, interleaving or fault (think hard
about asyncio suspension points, exception paths and evaluation order: do not move code across an `await`, do not change
which exceptions are caught or where they propagate from, do not change rounding, ordering of dict/list iteration, or what is
done before/after a state change; do not change public names or signatures).

AREA: {area}

For each refactoring k in 1..3:
  - start from a clean tree (`git checkout -- basana`), make the edit,
  - check it: `/venv/bin/python -m flake8 --max-line-length 120 <edited files>`, `/venv/bin/python -m mypy <edited files>` (no new
    errors), and the pinned baseline `/venv/bin/python /tmp/tools/baseline.py {wt} -n 4` must print
    "baseline stable tests passing: 226/226" (69 other failures are pre-existing),
  - save `git diff -- basana > {wt}/refactor_k.diff`,
  - write {wt}/refactor_k.txt: 3-6 lines explaining what was changed and why behaviour is identical.
Finish with `git checkout -- basana` and a short report listing the three refactorings.
"""


def worktree(wt):
    subprocess.run(["git", "-C", "/repo", "worktree", "remove", "--force", wt], capture_output=True)
    shutil.rmtree(wt, ignore_errors=True)
    subprocess.run(["git", "-C", "/repo", "worktree", "prune"])
    subprocess.run(["git", "-C", "/repo", "worktree", "add", "-q", "--detach", wt, "HEAD"], check=True)


def main():
    os.makedirs(OUT, exist_ok=True)
    shutil.copy(os.path.join(VERIF, "tools", "baseline.py"), os.path.join(OUT, "baseline.py"))
    kind, tag = sys.argv[1], sys.argv[2]
    if kind == "seed":
        props = [json.loads(l) for l in open(os.path.join(VERIF, "properties.jsonl"))]
        for p in props:
            pid = p["id"]
            wt = f"/tmp/wt/{pid}{tag}"
            tried = []
            for m in sorted(glob.glob(os.path.join(VERIF, "seeded", f"{pid}-*", "meta.json"))):
                tried.append('  - "' + json.load(open(m)).get("summary", "")[:420].replace("\n", " ") + '"')
            txt = SEED.format(wt=wt, pid=pid, title=p["title"], statement=p["statement"], quantifier=p["quantifier"],
                              area=AREAS["seed_areas"][pid], tried="\n".join(tried) or "  (none)")
            open(os.path.join(OUT, f"prompt_{pid}{tag}.txt"), "w").write(txt)
            worktree(wt)
    else:
        for rid, area in AREAS["refactor_areas"].items():
            name = f"{tag}{rid[1:]}"
            wt = f"/tmp/wt/{name}"
            open(os.path.join(OUT, f"prompt_{name}.txt"), "w").write(REFACTOR.format(wt=wt, area=area))
            worktree(wt)
    print("ok")


if __name__ == "__main__":
    main()
