#!/venv/bin/python
"""Regenerates MANIFEST.json from tools/manifest_src.py (CLAIMS / NOT_APPLICABLE tables) so that the manifest is always
schema-valid and every property is either claimed or listed under not_applicable."""
import json, os, sys
HERE = os.path.dirname(os.path.abspath(__file__))
sys.path.insert(0, HERE)
import manifest_src as M

props = [json.loads(l)["id"] for l in open(os.path.join(HERE, "..", "properties.jsonl"))]
checks = []
for pid in props:
    c = M.CLAIMS.get(pid)
    if not c:
        continue
    checks.append({
        "property_id": pid,
        "quick_cmd": f"./check {pid} --tier quick",
        "thorough_cmd": f"./check {pid} --tier thorough",
        "evidence_file": f"/verif/evidence/{pid}.json",
        "replay_cmd_template": f"./check {pid} --replay {{path}}",
        "engine": "sa",
        "level_claimed": {"category": "other", "text": c["text"], "design_ref": c["design_ref"]},
        "level_note": c["note"],
        "technique": c["technique"],
    })
na = [{"property_id": pid, "reason": M.NOT_APPLICABLE.get(pid, "check not built yet (work in progress); nothing is claimed")}
      for pid in props if pid not in M.CLAIMS]
man = {
    "version": 1,
    "setup_cmd": "/venv/bin/python -m compileall -q sa >/dev/null 2>&1; /venv/bin/python -c 'import mypy, ast' ",
    "hooks": {
        "guard": "BASANA_VERIF",
        "enable": "no hooks: the checks read /repo's source and never build or run it; BASANA_VERIF is unused",
        "baseline_off_cmd": "cd /repo && /venv/bin/python -m pytest -ra -q -p no:cacheprovider --timeout=900 --continue-on-collection-errors",
        "source_commits": [],
        "add_only": True,
    },
    "engines": [{
        "name": "sa", "path": "/verif/sa",
        "serves_properties": sorted(M.CLAIMS),
        "kind_free_text": "repository-specific static analysis: stdlib ast + statement CFG with path queries + "
                          "mypy (the repo's own dev dependency, used as a library) for resolved callees and types + "
                          "finite abstract domains (weak orderings, threshold cells) enumerated exhaustively; "
                          "nothing imports or runs basana",
    }],
    "checks": checks,
    "notes": M.NOTES,
    "not_applicable": na,
}
json.dump(man, open(os.path.join(HERE, "..", "MANIFEST.json"), "w"), indent=1)
print(f"MANIFEST.json: {len(checks)} checks, {len(na)} not_applicable")
