#!/venv/bin/python
"""Behaviour-preserving refactorings written by independent sub-agents (round 3): every alarm or exit 2 on them is a
checker defect.   tools/twins.py collect <Rk>  |  tools/twins.py run [dir ...]  |  tools/twins.py table"""
import glob, json, os, shutil, subprocess, sys
VERIF = os.path.dirname(os.path.dirname(os.path.abspath(__file__)))
TW = os.path.join(VERIF, "twins")

def sh(cmd, cwd=None):
    p = subprocess.run(cmd, cwd=cwd, stdout=subprocess.PIPE, stderr=subprocess.STDOUT, text=True)
    return p.returncode, p.stdout

def collect(rk):
    src = f"/tmp/wt/{rk}"
    for d in sorted(glob.glob(os.path.join(src, "refactor_*.diff"))):
        k = os.path.basename(d)[len("refactor_"):-len(".diff")]
        if os.path.getsize(d) == 0:
            continue
        dst = os.path.join(TW, f"{rk}-{k}")
        os.makedirs(dst, exist_ok=True)
        shutil.copy(d, os.path.join(dst, "patch.diff"))
        t = os.path.join(src, f"refactor_{k}.txt")
        if os.path.exists(t):
            shutil.copy(t, os.path.join(dst, "why.txt"))
        print(dst)

def run(dirs):
    man = json.load(open(os.path.join(VERIF, "MANIFEST.json")))
    pids = [c["property_id"] for c in man["checks"]]
    for d in dirs:
        d = os.path.abspath(d)
        rc, st = sh(["git", "-C", "/repo", "status", "--porcelain", "--untracked-files=no"])
        assert st.strip() == "", st
        res = {}
        try:
            rc, out = sh(["git", "-C", "/repo", "apply", os.path.join(d, "patch.diff")])
            if rc != 0:
                res = {"apply": out[-300:]}
            else:
                rcb, outb = sh(["/venv/bin/python", os.path.join(VERIF, "tools", "baseline.py"), "/repo", "-n", "12"])
                res["baseline_226"] = rcb == 0
                for p in pids:
                    rc, out = sh(["./check", p, "--no-evidence"], cwd=VERIF)
                    if rc != 0:
                        lines = [l for l in out.splitlines() if l.startswith(("FAIL", "ANALYSIS-ERROR"))]
                        res[p] = {"rc": rc, "first": (lines[0] if lines else out.strip().splitlines()[-1])[:400]}
        finally:
            sh(["git", "-C", "/repo", "checkout", "--", "."])
        json.dump(res, open(os.path.join(d, "result.json"), "w"), indent=1)
        alarms = {k: v for k, v in res.items() if isinstance(v, dict)}
        print(os.path.basename(d), "baseline_ok=" + str(res.get("baseline_226")), "SILENT" if not alarms else "ALARMS " + json.dumps(alarms)[:700])

def table():
    for d in sorted(glob.glob(os.path.join(TW, "*"))):
        r = os.path.join(d, "result.json")
        res = json.load(open(r)) if os.path.exists(r) else None
        alarms = {k: v["rc"] for k, v in (res or {}).items() if isinstance(v, dict)}
        print(f"{os.path.basename(d):8s} {'not run' if res is None else ('silent' if not alarms else alarms)}")

if __name__ == "__main__":
    if sys.argv[1] == "collect": collect(sys.argv[2])
    elif sys.argv[1] == "run": run(sys.argv[2:] or sorted(glob.glob(os.path.join(TW, "*"))))
    else: table()
