#!/venv/bin/python
"""tools/mechanical.py <root> <mode> [seed [prob]] - rewrite <root>/basana in place (scratch copies only); see sa/mechanical.py."""
import os
import sys
sys.path.insert(0, os.path.dirname(os.path.dirname(os.path.abspath(__file__))))
from sa import mechanical
print(mechanical.rewrite(sys.argv[1], sys.argv[2], int(sys.argv[3]) if len(sys.argv) > 3 else 1, float(sys.argv[4]) if len(sys.argv) > 4 else 0.6))
