#!/venv/bin/python
"""Mechanical behaviour-preserving rewrites of the whole package, used to test that no check depends on spelling.

    cd <tree> && tools/mechanical.py <suffix> [<seed> [<probability>]]

Every file under basana/ is re-emitted through ast.unparse (comments, docstring layout, line breaks and line numbers all change) and
every plain local variable (not a parameter, global, handler name, import or nested-function parameter) is renamed with the given
probability to a randomly built new name.  Run in a scratch copy or in /repo followed by `git -C /repo checkout -- .`; the pinned 226
tests pass on the result, and all 20 checks must stay silent (DESIGN.md 11.5)."""
import ast,glob,sys
SUF=sys.argv[1] if len(sys.argv)>1 else "_v"
import random
random.seed(int(sys.argv[2]) if len(sys.argv)>2 else 0)
PROB=float(sys.argv[3]) if len(sys.argv)>3 else 1.0
def process(fn):
    stores=set(); bad=set()
    params={a.arg for a in fn.args.posonlyargs+fn.args.args+fn.args.kwonlyargs}
    if fn.args.vararg: params.add(fn.args.vararg.arg)
    if fn.args.kwarg: params.add(fn.args.kwarg.arg)
    for n in ast.walk(fn):
        if isinstance(n,ast.Name) and isinstance(n.ctx,(ast.Store,ast.Del)): stores.add(n.id)
        elif isinstance(n,(ast.Global,ast.Nonlocal)): bad|=set(n.names)
        elif isinstance(n,ast.ExceptHandler) and n.name: bad.add(n.name)
        elif isinstance(n,ast.alias): bad.add((n.asname or n.name).split('.')[0])
        elif isinstance(n,(ast.FunctionDef,ast.AsyncFunctionDef,ast.Lambda)) and n is not fn:
            a=n.args
            for x in a.posonlyargs+a.args+a.kwonlyargs: bad.add(x.arg)
            if a.vararg: bad.add(a.vararg.arg)
            if a.kwarg: bad.add(a.kwarg.arg)
            if not isinstance(n,ast.Lambda): bad.add(n.name)
        elif isinstance(n,ast.ClassDef): bad.add(n.name); 
        elif isinstance(n,(ast.MatchAs,ast.MatchStar)) and n.name: bad.add(n.name)
    ren={x for x in sorted(stores-bad-params) if random.random()<PROB}
    mp={x:random.choice(['tmp_','new_','the_','x'])+x[::random.choice([1,-1])].strip('_')+random.choice(['','2','_val']) for x in ren}
    if len(set(mp.values()))<len(mp) or set(mp.values())&(stores|bad|params): mp={x:x+SUF for x in ren}
    for st in fn.body:
      for n in ast.walk(st):
        if isinstance(n,ast.Name) and n.id in ren: n.id=mp[n.id]
    return len(ren)
tot=0
for f in glob.glob('basana/**/*.py',recursive=True):
    t=ast.parse(open(f).read())
    # only outermost functions (methods or module-level)
    def outer(node):
        global tot
        for c in ast.iter_child_nodes(node):
            if isinstance(c,(ast.FunctionDef,ast.AsyncFunctionDef)):
                # skip if class-body nested in function etc.
                tot+=process(c)
            elif isinstance(c,ast.ClassDef): outer(c)
            elif isinstance(c,(ast.If,ast.Try)): outer(c)
    outer(t)
    open(f,'w').write(ast.unparse(t)+"\n")
print("renamed",tot)
