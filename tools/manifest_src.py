NOTES = ("Static analysis only (see DESIGN.md). Each claimed check decides structural necessary conditions of its property "
         "on every path / call site / abstract state of /repo's current source and reports a specific construct; the "
         "behavioural residue named in DESIGN.md section 5 under each property is not claimed. Genuine defects found "
         "and repaired are recorded in known_findings.json (state fixed).")

_TB = ("Trusted base: CPython's ast parser, the statement CFG builder in sa/cfg.py (feasibility-insensitive), mypy's "
       "type inference where the rule joins on resolved callees/types, and the rule tables in sa/rules. ")

CLAIMS = {
 "C13": dict(
  text="Structural clauses of C13 decided on every path of the scheduler code: heap discipline of every heapq-managed "
       "list (role-anchored), final-drain bound is a maximum over the queue and precedes stop(), due-test dominates every "
       "pop, pool.wait() between consecutive jobs, monotone clock store before a job starts, job isolation "
       "(except Exception, no re-raise), jobs-before-events with the same bound, ScheduledJob ordered by 'when' only. "
       "The behavioural statement (every job runs exactly once, in order) follows from these plus heapq's contract; "
       "the run-time behaviour itself is not executed.",
  design_ref="DESIGN.md section 5, C13",
  note=_TB + "Asserts are stated beliefs; feasibility of paths is not considered.",
  technique="static analysis: role-anchored AST lint + CFG dominance / must-pass-through queries"),
 "C03": dict(
  text="Structural necessary conditions of no-look-ahead and schedule independence decided on the source: the events of "
       "a backtesting pass are fixed before any suspension point (lazy generator vs await), Exchange._on_bar_event does "
       "prices -> matching -> forward with no await before the forward, _process_order/add_fill reachable only from the "
       "bar handler and stamped with the bar's time, strategies subscribed to the derived source only, un-timed "
       "pool.wait() post-dominates every push of a pass, handler-order containers are order-preserving and no set is "
       "iterated on the dispatch path. Equality of complete fill histories across max_concurrent values / hash seeds is "
       "a statement about runs and is not claimed; the rules remove the schedule-dependent choices found.",
  design_ref="DESIGN.md section 5, C03",
  note=_TB + "asyncio: only await/async for/async with suspend. Strategy handlers are outside the analysed code.",
  technique="static analysis: no-await-between / lazy-generator rule, CFG dominance, who-may-call over mypy-resolved callees, typed container lint"),
 "C14": dict(
  text="Lifecycle phases (initialize group exits before main group starts; single finalize site in the enclosing finally, "
       "through the no-raise gather, after pool.cancel() then pool.wait()), fault isolation of every handler/job "
       "invocation, who-may-spawn tasks, capacity test evaluated on all orderings of {len, max} and dominating the "
       "insertion with no suspension in between, re-entrancy rule for async methods reachable from two coroutines of one "
       "gather (values obtained across an await may drive only idempotent or membership-guarded mutations), and the "
       "role-anchored rule that every @contextmanager generator runs its post-yield statements on the exception path. "
       "'Ends promptly' and which exception run() surfaces for every fault placement are not claimed.",
  design_ref="DESIGN.md section 5, C14",
  note=_TB + "Concurrency is discovered from gather() sites only (the two dispatchers' own code).",
  technique="static analysis: CFG path rules, call-graph reachability for re-entrancy, taint across await, context-manager restore rule"),
 "C18": dict(
  text="Lost-wake-up rule over every writer of the pending-subscription set in the base client and all subclasses (class "
       "hierarchy from mypy), atomic clear/read/swap on the consumer side, reconnect-loop shape, per-connection "
       "re-marking of all channels before the tasks start, back-off stamp and sleep dominating every connect, routing by "
       "the message's own stream/channel with the stream table filled from the subscribed channels, keep-alive scheduled "
       "per channel and re-armed in finally, sibling cross-check of listen-key channels (create and refresh on the same "
       "account client). Convergence after arbitrary fault sequences and 'at least once per period' are liveness/timing "
       "and are not claimed.",
  design_ref="DESIGN.md section 5, C18",
  note=_TB + "asyncio.Event semantics; aiohttp's async-for over a websocket ends when the connection closes.",
  technique="static analysis: pairing (add -> set) on the CFG, loop-shape lint, dominance queries, sibling cross-check"),
 "C19": dict(
  text="Bar.__init__ abstractly interpreted over all 75 weak orderings of {open,high,low,close} (exhaustive: accepted "
       "exactly when low <= open, close <= high; stores the same-named parameter), writers of the OHLC attributes, "
       "window tiling of the trade aggregator decided with affine time forms (no gap, no overlap on a microsecond clock), "
       "row-key -> Bar-parameter mapping of every RowParser implementation, event time = bar start + period, period "
       "tables derived from step tables, sort selection and key, BOM table evaluated as constants (no shadowed entry, "
       "BOM/codec pairs). The OHLCV aggregation arithmetic and non-UTF-8 files without BOM are not claimed.",
  design_ref="DESIGN.md section 5, C19",
  note=_TB + "Weak-ordering interpreter sa/absint.py; stdlib codecs constants; datetime has microsecond resolution.",
  technique="static analysis: abstract interpretation over weak orderings (exhaustive), affine time forms, data-flow mapping lint, constant-table evaluation"),
 "C10": dict(
  text="NoLoans raises on every path; the lending strategy is consulted before balances are touched; the margin rule is "
       "installed unconditionally and AccountBalances.update runs every rule on the post-update maps before the commit; "
       "positive borrowed updates exist only in LoanManager.create_loan and both borrowing paths reach it; the raise guard "
       "of the margin rule is evaluated on every threshold cell of the computed range [0, inf) (sign analysis of the equity "
       "sum) and on the 'nothing borrowed' sentinel; early exits of the rule are tabulated over the orderings of "
       "(updated, committed) borrowed amounts: none may be taken when a borrowed amount grows. The valuation arithmetic "
       "(equity, used margin at last prices) is not claimed.",
  design_ref="DESIGN.md section 5, C10",
  note=_TB + "Positive prices; the denominator of the level is positive when something is borrowed.",
  technique="static analysis: threshold-cell evaluation of guards, sign analysis, CFG dominance, who-may-write"),
 "C16": dict(
  text="Byte equality of signed and sent content is reduced to encoder identity: for query and body of each signed channel the "
       "encoder applied for the signature and the one applied by the transport must be the same function on the same "
       "variable (transport table: FormData/data= -> urlencode, params= -> yarl quoter, yarl.URL(encoded=True) -> identity; "
       "the FormData fact is re-read from the installed aiohttp source); Bitstamp never combines a query with authentication. "
       "Ordering on the CFG (private copy, clock timestamp before signing, signature last, key header on every signing "
       "path over the 4 flag combinations, fresh uuid4 nonce), Bitstamp v2 message order and HMAC-SHA256 hex, security type "
       "of 40+ endpoints against a table transcribed from the API documentation. Clock skew and non-default Host ports are "
       "not claimed.",
  design_ref="DESIGN.md section 5, C16",
  note=_TB + "aiohttp/yarl transport facts; documentation tables in sa/rules/c16.py and c17.py.",
  technique="static analysis: sign-what-you-send encoder-identity rule, CFG ordering rules, spec tables"),
 "C17": dict(
  text="Every value entering a request map of either client is typed by mypy; Decimal-typed values must be rendered "
       "fixed-point (format(x,'f')) -- str(), float(), spec-less or rounding f-string fields, '%'/'{}'.format and raw "
       "Decimals are violations; still-Optional values may only enter through the None-dropping helper; (verb, path, "
       "security) of every client method, side/action/type strings and symbol helpers are compared with tables transcribed "
       "from the exchanges' documentation; inbound Decimal wrappers never go through float, order-status tables match the "
       "documented statuses, ms timestamps decode to tz-aware UTC. JSON numbers decoded as float before any wrapper sees "
       "them (candidate F-C17-2) and float-division exactness of timestamps are not claimed.",
  design_ref="DESIGN.md section 5, C17",
  note=_TB + "mypy's inferred types of request-map values; documentation tables in sa/rules/c17.py.",
  technique="static analysis: type-resolved formatting lint (mypy), spec tables, data-flow mapping lint"),
}

NOT_APPLICABLE = {}
