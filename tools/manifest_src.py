NOTES = ("Static analysis only (see DESIGN.md). Each claimed check decides structural necessary conditions of its property "
         "on every path / call site / abstract state of /repo's current source and reports a specific construct; the "
         "behavioural residue named in DESIGN.md section 5 under each property is not claimed. Genuine defects found "
         "and repaired are recorded in known_findings.json (state fixed).")

_TB = ("Trusted base: CPython's ast parser, the statement CFG builder in sa/cfg.py (feasibility-insensitive), mypy's "
       "type inference where the rule joins on resolved callees/types, and the rule tables in sa/rules. ")

CLAIMS = {
 "C13": dict(
  text="Structural clauses of C13 decided on every path of the scheduler code: heap discipline of every heapq-managed "
       "list (role-anchored), final-drain bound is a maximum over the queue and precedes stop(), due-test dominates every "
       "pop, pool.wait() between consecutive jobs, monotone clock store before a job starts, job isolation "
       "(except Exception, no re-raise), jobs-before-events with the same bound, ScheduledJob ordered by 'when' only. "
       "The behavioural statement (every job runs exactly once, in order) follows from these plus heapq's contract; "
       "the run-time behaviour itself is not executed.",
  design_ref="DESIGN.md section 5, C13",
  note=_TB + "Asserts are stated beliefs; feasibility of paths is not considered.",
  technique="static analysis: role-anchored AST lint + CFG dominance / must-pass-through queries"),
}

NOT_APPLICABLE = {}
