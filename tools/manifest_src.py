NOTES = ("Static analysis only (see DESIGN.md). Each claimed check decides structural necessary conditions of its property "
         "on every path / call site / abstract state of /repo's current source and reports a specific construct; the "
         "behavioural residue named in DESIGN.md section 5 under each property is not claimed. Genuine defects found "
         "and repaired are recorded in known_findings.json (state fixed). The thorough tier re-runs the same rules and "
         "then validates the checker itself on scratch copies: hand-written and 120 sub-agent breaking changes must fire "
         "their rule, 120 sub-agent refactorings and 10 whole-package mechanical rewrites (reformat, rename locals, rename private parameters and attributes, reorder "
         "methods, mirror comparisons / if-else, expand augmented assignments) must be silent; any miss is exit 2.")

_TB = ("Trusted base: CPython's ast parser, the statement CFG builder in sa/cfg.py (feasibility-insensitive), mypy's "
       "type inference where the rule joins on resolved callees/types, the normalisation done before rules run (inlining of "
       "new helpers in sa/inline.py, spelling recovery in sa/localnames.py), and the rule tables in sa/rules. ")

CLAIMS = {
 "C13": dict(
  text="Structural clauses of C13 decided on every path of the scheduler code: heap discipline of every heapq-managed "
       "list (role-anchored), final-drain bound is a maximum over the queue and precedes stop(), due-test dominates every "
       "pop, pool.wait() between consecutive jobs, monotone clock store before a job starts, job isolation "
       "(except Exception, no re-raise), jobs-before-events with the same bound, ScheduledJob ordered by 'when' only. "
       "The behavioural statement (every job runs exactly once, in order) follows from these plus heapq's contract; "
       "the run-time behaviour itself is not executed.",
  design_ref="DESIGN.md section 5, C13",
  note=_TB + "Asserts are stated beliefs; feasibility of paths is not considered.",
  technique="static analysis: role-anchored AST lint + CFG dominance / must-pass-through queries"),
 "C03": dict(
  text="Structural necessary conditions of no-look-ahead and schedule independence decided on the source: the events of "
       "a backtesting pass are fixed before any suspension point (lazy generator vs await), Exchange._on_bar_event does "
       "prices -> matching -> forward with no await before the forward, _process_order/add_fill reachable only from the "
       "bar handler and stamped with the bar's time, strategies subscribed to the derived source only, un-timed "
       "pool.wait() post-dominates every push of a pass, handler-order containers are order-preserving and no set is "
       "iterated on the dispatch path. Equality of complete fill histories across max_concurrent values / hash seeds is "
       "a statement about runs and is not claimed; the rules remove the schedule-dependent choices found.",
  design_ref="DESIGN.md section 5, C03",
  note=_TB + "asyncio: only await/async for/async with suspend. Strategy handlers are outside the analysed code.",
  technique="static analysis: no-await-between / lazy-generator rule, CFG dominance, who-may-call over mypy-resolved callees, typed container lint"),
 "C14": dict(
  text="Lifecycle phases (initialize group exits before main group starts; single finalize site in the enclosing finally, "
       "through the no-raise gather, after pool.cancel() then pool.wait()), fault isolation of every handler/job "
       "invocation, who-may-spawn tasks, capacity test evaluated on all orderings of {len, max} and dominating the "
       "insertion with no suspension in between, re-entrancy rule for async methods reachable from two coroutines of one "
       "gather (values obtained across an await may drive only idempotent or membership-guarded mutations), and the "
       "role-anchored rule that every @contextmanager generator runs its post-yield statements on the exception path. "
       "'Ends promptly' and which exception run() surfaces for every fault placement are not claimed.",
  design_ref="DESIGN.md section 5, C14",
  note=_TB + "Concurrency is discovered from gather() sites only (the two dispatchers' own code).",
  technique="static analysis: CFG path rules, call-graph reachability for re-entrancy, taint across await, context-manager restore rule"),
 "C18": dict(
  text="Lost-wake-up rule over every writer of the pending-subscription set in the base client and all subclasses (class "
       "hierarchy from mypy), atomic clear/read/swap on the consumer side, reconnect-loop shape, per-connection "
       "re-marking of all channels before the tasks start, back-off stamp and sleep dominating every connect, routing by "
       "the message's own stream/channel with the stream table filled from the subscribed channels, keep-alive scheduled "
       "per channel and re-armed in finally, sibling cross-check of listen-key channels (create and refresh on the same "
       "account client). Convergence after arbitrary fault sequences and 'at least once per period' are liveness/timing "
       "and are not claimed.",
  design_ref="DESIGN.md section 5, C18",
  note=_TB + "asyncio.Event semantics; aiohttp's async-for over a websocket ends when the connection closes.",
  technique="static analysis: pairing (add -> set) on the CFG, loop-shape lint, dominance queries, sibling cross-check"),
 "C19": dict(
  text="Bar.__init__ abstractly interpreted over all 75 weak orderings of {open,high,low,close} (exhaustive: accepted "
       "exactly when low <= open, close <= high; stores the same-named parameter), writers of the OHLC attributes, "
       "window tiling of the trade aggregator decided with affine time forms (no gap, no overlap on a microsecond clock), "
       "row-key -> Bar-parameter mapping of every RowParser implementation, event time = bar start + period, period "
       "tables derived from step tables, sort selection and key, BOM table evaluated as constants (no shadowed entry, "
       "BOM/codec pairs). The OHLCV aggregation arithmetic and non-UTF-8 files without BOM are not claimed.",
  design_ref="DESIGN.md section 5, C19",
  note=_TB + "Weak-ordering interpreter sa/absint.py; stdlib codecs constants; datetime has microsecond resolution.",
  technique="static analysis: abstract interpretation over weak orderings (exhaustive), affine time forms, data-flow mapping lint, constant-table evaluation"),
 "C10": dict(
  text="NoLoans raises on every path; the lending strategy is consulted before balances are touched; the margin rule is "
       "installed unconditionally and AccountBalances.update runs every rule on the post-update maps before the commit; "
       "positive borrowed updates exist only in LoanManager.create_loan and both borrowing paths reach it; the raise guard "
       "of the margin rule is evaluated on every threshold cell of the computed range [0, inf) (sign analysis of the equity "
       "sum) and on the 'nothing borrowed' sentinel; early exits of the rule are tabulated over the orderings of "
       "(updated, committed) borrowed amounts: none may be taken when a borrowed amount grows; the prices the rule reads "
       "are the last bar's (every bar event replaces it unconditionally; a memo written by a price reader must be invalidated "
       "by every bar event in both orientations of the pair). The valuation arithmetic (sums of equity and used margin) is "
       "not claimed.",
  design_ref="DESIGN.md section 5, C10",
  note=_TB + "Positive prices; the denominator of the level is positive when something is borrowed.",
  technique="static analysis: threshold-cell evaluation of guards, sign analysis, CFG dominance, who-may-write"),
 "C16": dict(
  text="Byte equality of signed and sent content is reduced to encoder identity: for query and body of each signed channel the "
       "encoder applied for the signature and the one applied by the transport must be the same function on the same "
       "variable (transport table: FormData/data= -> urlencode, params= -> yarl quoter, yarl.URL(encoded=True) -> identity; "
       "the FormData fact is re-read from the installed aiohttp source); Bitstamp never combines a query with authentication. "
       "Ordering on the CFG (private copy, clock timestamp before signing, signature last, key header on every signing "
       "path over the 4 flag combinations, fresh uuid4 nonce), Bitstamp v2 message order and HMAC-SHA256 hex, security type "
       "of 40+ endpoints against a table transcribed from the API documentation. Clock skew and non-default Host ports are "
       "not claimed.",
  design_ref="DESIGN.md section 5, C16",
  note=_TB + "aiohttp/yarl transport facts; documentation tables in sa/rules/c16.py and c17.py.",
  technique="static analysis: sign-what-you-send encoder-identity rule, CFG ordering rules, spec tables"),
 "C17": dict(
  text="Every value entering a request map of either client is typed by mypy; Decimal-typed values must be rendered "
       "fixed-point (format(x,'f')) -- str(), float(), spec-less or rounding f-string fields, '%'/'{}'.format and raw "
       "Decimals are violations; still-Optional values may only enter through the None-dropping helper; (verb, path, "
       "security) of every client method, side/action/type strings and symbol helpers are compared with tables transcribed "
       "from the exchanges' documentation; inbound Decimal wrappers never go through float, order-status tables match the "
       "documented statuses, ms timestamps decode to tz-aware UTC. JSON numbers decoded as float before any wrapper sees "
       "them (candidate F-C17-2) and float-division exactness of timestamps are not claimed.",
  design_ref="DESIGN.md section 5, C17",
  note=_TB + "mypy's inferred types of request-map values; documentation tables in sa/rules/c17.py.",
  technique="static analysis: type-resolved formatting lint (mypy), spec tables, data-flow mapping lint"),
}

_LED = _TB + "may-raise/mutates summaries over mypy-resolved callees; environment lookups (precision/price/conditions configured) excluded with reasons; asserts are stated beliefs. "
CLAIMS.update({
 "C01": dict(
  text="Effect typing of every ledger write: single writer of the three ledger maps, census of every AccountBalances.update site "
       "classified into hold-only | fill | loan-open | loan-repay | loan-cancel (anything else is a violation), same-value rules "
       "(delta applied == fill + fees recorded, both rounded before and untouched in between; interest debited == interest recorded, "
       "recorded only after the commit), all-or-nothing update (commit-last walk), reported-total formula, ValueMap operator "
       "siblings. Conservation then follows by induction over write sites; Decimal arithmetic is not claimed.",
  design_ref="DESIGN.md section 5, C01", note=_LED,
  technique="static analysis: who-may-write, call-site census by argument shape, same-value / dominance rules on the CFG"),
 "C02": dict(
  text="One writer that commits only after every installed rule passed; NonZero and ValidHold installed and never removed; their "
       "guards evaluated exhaustively on threshold cells / orderings (raise exactly on <0 and on hold>balance); every borrowed "
       "delta lives in LoanManager and is paired, with nothing that may raise in between, with registering/closing the loan "
       "whose fixed principal is the delta; overdrawing fills are turned into 'not filled'. Numeric values are not claimed.",
  design_ref="DESIGN.md section 5, C02", note=_LED,
  technique="static analysis: threshold cells, pairing (commit -> register/close) with may-raise summaries, who-may-write"),
 "C04": dict(
  text="Exhaustive abstract interpretation of the four order classes over all weak orderings of {open,high,low,close,limit,stop} "
       "consistent with the bar invariant x 4 orderings of {0,pending,liquidity} x BUY/SELL x latch (about 11,000 abstract runs): "
       "price/trigger/completeness/amount obligations on every outcome; quote re-derived from the truncated base before rounding; "
       "request validation on threshold cells and precision grid before the order exists. Slippage size and rounding are not claimed.",
  design_ref="DESIGN.md section 5, C04", note=_TB + "sa/absint.py; prices > 0 and impact >= 0 are asserted/validated in the code.",
  technique="static analysis: abstract interpretation over weak orderings (exhaustive), data-dependence rule, threshold cells"),
 "C05": dict(
  text="Typestate of Order._state with who-may-call closure of every transition, completion test on the 3 orderings of {filled, "
       "amount}, fill-or-kill siblings, fill amounts from the shared exhaustive interpretation, event pairing on the CFG (one event "
       "per acceptance/fill/closure, after the last mutation, with the bar's time), lazy re-index discipline of the open list. "
       "Event time order across bars is C12.",
  design_ref="DESIGN.md section 5, C05", note=_LED,
  technique="static analysis: typestate + who-may-call, CFG pairing rules, abstract interpretation (shared with C04)"),
 "C06": dict(
  text="Hold == record == estimate in add_order; every closing statement is followed by the release unless the order is tested "
       "open; release shapes of _update_balances; who-may-hold; frame rule for update rules by parameter dependence (a rule that "
       "does not read holds must exit early when what it reads is unchanged); sibling agreement of the reservation estimate with "
       "the fill pipeline. The one-precision-unit acceptance boundary is arithmetic and not claimed.",
  design_ref="DESIGN.md section 5, C06", note=_LED,
  technique="static analysis: same-value/pairing on the CFG, parameter-dependence frame rule (CHA), sibling cross-check"),
 "C07": dict(
  text="Commit-last walk of every request entry point and helper: no call that may raise after a persistent mutation unless a "
       "handler applies the registered inverse to everything done so far, covers everything the call can raise and re-raises; "
       "functions that pass are transactional for their callers; four call-site lemmas are stated with reasons and their "
       "structural premises checked; guards dominate mutations. Feasibility is not decided (may-raise).",
  design_ref="DESIGN.md section 5, C07", note=_LED,
  technique="static analysis: commit-last dataflow on the CFG with interprocedural may-raise / mutates summaries"),
 "C08": dict(
  text="One liquidity strategy instance per bar (definitions before the loop, on_bar outside it); take_liquidity exactly once after "
       "the commit with |rounded base|; fill <= liquidity and fill-or-kill from the shared exhaustive interpretation; base "
       "truncated, quote rounded last, fees rounded away from zero per symbol, interest truncated before debit; rounding helpers.",
  design_ref="DESIGN.md section 5, C08", note=_LED,
  technique="static analysis: reaching-definitions/dominance rules, quantisation (last-write) rule, abstract interpretation (shared)"),
 "C09": dict(
  text="Thin claim: the storing guard of Percentage.calculate_fees evaluated on threshold cells (entry exactly when pending < 0), "
       "quote-symbol key, NoFee empty on every path, dependence set of the charged amount (cumulative quote, this fill, already "
       "charged, percentage, minimum; total-due minus charged), charged == recorded, rounded up once, who-may-call. The arithmetic "
       "identity for every partition is not claimed.",
  design_ref="DESIGN.md section 5, C09", note=_TB,
  technique="static analysis: threshold cells, backward slice (dependence set), who-may-call"),
 "C11": dict(
  text="Closed list of ways a loan can close decided on the call graph; repay_loan same-value and ordering rules (truncate before "
       "debit, one atomic update of shape loan-repay, record/close/pop after and whenever committed); auto-repay candidate "
       "selection, descending principal order and skip-on-NotEnoughBalance; interest lower bound and symbol. Interest arithmetic "
       "is not claimed.",
  design_ref="DESIGN.md section 5, C11", note=_LED,
  technique="static analysis: typestate + who-may-call, CFG ordering rules, idiom lint"),
 "C12": dict(
  text="Three guarded writers of the clock and the clock store dominating every push of a pass; un-timed barrier; multiplexer "
       "slot discipline and selection test; same bound for jobs and events; one push per popped event with its own source's "
       "handlers; three awaited stages in order; duplicate-free subscription. Global order is argued from these, not explored.",
  design_ref="DESIGN.md section 5, C12", note=_TB,
  technique="static analysis: who-may-write, CFG dominance / post-dominance, shape lint"),
 "C15": dict(
  text="Thin claim: due test dominates every pop, events bounded by one clock reading per iteration, timed wait; out-of-order branch "
       "reports and skips before any push, predecessor updated only for delivered events; _on_idle control-dependent on idle, and "
       "the tracked-task set only changed by add / removal of finished tasks. Liveness and timing are not claimed.",
  design_ref="DESIGN.md section 5, C15", note=_TB,
  technique="static analysis: CFG dominance rules, who-may-write"),
 "C20": dict(
  text="Thin claim: session verbs reachable only from the two throttled request functions where consume()+sleep dominate the send; "
       "every return of consume() dominated by clock read, re-stamp, refill, cap and one decrement in order; returned wait "
       "evaluated on the cells of the token count (never negative); no suspension point. The rate bound is arithmetic, not claimed.",
  design_ref="DESIGN.md section 5, C20", note=_TB,
  technique="static analysis: who-may-call, must-pass-through on the CFG, threshold cells"),
})

NOT_APPLICABLE = {}


# Clauses added after the sub-agent rounds (seeded changes that the first rule sets missed); appended to the claim texts.
ADDENDA = {
 "C01": "Also: a fill (amounts and fees) reaches the account as one all-or-nothing update, and the delta applied is exactly fill + fees, only pruned (C01.3).",
 "C02": "Also (C02.4): ExchangeObjectContainer.add records the item on every normal path and every loan gets its own uuid4. Also (C02.2): the rule loop dominates every commit of the ledger maps (no kind of update is exempt). Also: the update-rule frame table (C06.4) is reported as C02.3 (ValidHold reads balances and holds only); nothing can fail between crediting the borrowed amount and registering the loan, registration post-dominates the "
        "commit, and every lending strategy lends exactly the amount requested (C02.4).",
 "C03": "Also (C03.4, shared with C12.1): the simulated clock shows the pass time before any handler of the pass can start. Also (C03.5): no ordering on the dispatch / matching path is keyed by a per-run identifier (uuid ids, id(), hash()). Also (C03.7, shared with C12.3): the multiplexer hands out every due event - a source is polled whenever its slot is empty.",
 "C04": "Also (C04.1): get_balance_updates is handed the event's own bar (not a rebuilt or rounded copy). Also (C04.1): an order computes its fills from its own state (no delegation to another order object). Also (C04.5, shared with C05.2): every bar of a pair reaches the matching loop. Also (C04.5, shared with C05.5): the open-order index never loses an order that is still open, so every open order of the "
        "bar's pair is matched on every bar.",
 "C07": "Also: raise sets include NoPrice from Prices.convert (it was wrongly treated as an environment lookup; that hid defects D12 and "
        "D13, now fixed); the loan a strategy creates carries exactly the requested amount (premise of lemma L2, C07.2).",
 "C08": "Also (C08.5): no precision (an int) is used as a truth value in the modules that resolve and apply precisions, and every rounding "
        "call of OrderManager takes its precision from get_pair_info(pair).",
 "C09": "Also (C09.3, shared with C08.5): the precision fees are rounded to is the pair's.",
 "C10": "Also (C10.4): conditions configured for a symbol take precedence over the default conditions. Also (C10.7): no handler on the valuation path swallows NoPrice.",
 "C12": "Also (C12.3): no Event subclass defines __bool__/__len__ (the multiplexer tells an event from nothing by truth value). Also (C12.3): every event pop_while takes out of the multiplexer is yielded (pop() is the last operand of the loop test).",
 "C13": "Also (C13.3): the job started is the job popped from the queue, popped before it is pushed. Also (C13.4): schedule() and SchedulerQueue.push queue the job under exactly the time given. Also (C13.3): the scheduler pass returns only across the 'next job is not due' edge (no other early exit).",
 "C14": "Also (C14.1): in run()'s finally the pool is told to cancel on every path into the wait. Also (C14.2): the isolating handler does not read attributes of the user-supplied callable (so it cannot fail itself). Also (C14.1): an exception or cancellation that ends the initialize phase cannot be followed by main(); the context manager "
        "both phases run in lets exceptions propagate.",
 "C16": "Also (C16.2): a signed parameter map flows only to the transport, never to the signer again. Also (C16.1): encoder identity includes what is done to the mapping before it is encoded (signer and transport must apply the "
        "same transformation), and follows helper functions across modules.",
 "C19": "Also (C19.2): every flush consumes the skip-first-bar flag; every feeder of push_trade passes the trade's own timestamp.",
 "C05": "Also (C05.4, shared with C07.1): nothing can fail between an order's state change and its event. Also (C05.2): the matching loop is on every normal path of on_bar_event; C05.5 is decided on CFG path conditions (shape-independent).",
 "C06": "Also (C06.5): order classes that carry a limit price reserve at that price (with C04.1: the reservation bounds what a fill can cost).",
 "C11": "Also (C11.4, shared with C06.2): every way an order closes goes through _order_closed, where auto-repay lives.",
 "C15": "Also (C15.2, shared with C12.3): the multiplexer keeps or hands out every event it takes from a source. Also (C15.1, shared with C13.4): the time a job is queued under is the time the caller gave (no conversion or rounding).",
 "C17": "Also (C17.2): stopLimitTimeInForce is dropped (by the request object or the client) when no stop limit price is given. Also (C17.1): the value is not rewritten before the Decimal branch of set_optional_params.",
 "C18": "Also (C18.4): resolve_stream_name obtains a new listen key on every path (no cached key after expiry). Also (C18.4): the stream routing table accumulates and is never replaced by the channels of one call.",
 "C20": "Also (C20.1): the limiter object's truth value is its identity (no __bool__/__len__), since callers test `if self._tb and ...`.",
}
for _pid, _txt in ADDENDA.items():
    CLAIMS[_pid]["text"] = CLAIMS[_pid]["text"] + " " + _txt
