NOTES = ("Static analysis only (see DESIGN.md). Each claimed check decides structural necessary conditions of its property "
         "on every path / call site / abstract state of /repo's current source and reports a specific construct; the "
         "behavioural residue named in DESIGN.md section 5 under each property is not claimed. Genuine defects found "
         "and repaired are recorded in known_findings.json (state fixed).")

_TB = ("Trusted base: CPython's ast parser, the statement CFG builder in sa/cfg.py (feasibility-insensitive), mypy's "
       "type inference where the rule joins on resolved callees/types, and the rule tables in sa/rules. ")

CLAIMS = {
 "C13": dict(
  text="Structural clauses of C13 decided on every path of the scheduler code: heap discipline of every heapq-managed "
       "list (role-anchored), final-drain bound is a maximum over the queue and precedes stop(), due-test dominates every "
       "pop, pool.wait() between consecutive jobs, monotone clock store before a job starts, job isolation "
       "(except Exception, no re-raise), jobs-before-events with the same bound, ScheduledJob ordered by 'when' only. "
       "The behavioural statement (every job runs exactly once, in order) follows from these plus heapq's contract; "
       "the run-time behaviour itself is not executed.",
  design_ref="DESIGN.md section 5, C13",
  note=_TB + "Asserts are stated beliefs; feasibility of paths is not considered.",
  technique="static analysis: role-anchored AST lint + CFG dominance / must-pass-through queries"),
 "C03": dict(
  text="Structural necessary conditions of no-look-ahead and schedule independence decided on the source: the events of "
       "a backtesting pass are fixed before any suspension point (lazy generator vs await), Exchange._on_bar_event does "
       "prices -> matching -> forward with no await before the forward, _process_order/add_fill reachable only from the "
       "bar handler and stamped with the bar's time, strategies subscribed to the derived source only, un-timed "
       "pool.wait() post-dominates every push of a pass, handler-order containers are order-preserving and no set is "
       "iterated on the dispatch path. Equality of complete fill histories across max_concurrent values / hash seeds is "
       "a statement about runs and is not claimed; the rules remove the schedule-dependent choices found.",
  design_ref="DESIGN.md section 5, C03",
  note=_TB + "asyncio: only await/async for/async with suspend. Strategy handlers are outside the analysed code.",
  technique="static analysis: no-await-between / lazy-generator rule, CFG dominance, who-may-call over mypy-resolved callees, typed container lint"),
 "C14": dict(
  text="Lifecycle phases (initialize group exits before main group starts; single finalize site in the enclosing finally, "
       "through the no-raise gather, after pool.cancel() then pool.wait()), fault isolation of every handler/job "
       "invocation, who-may-spawn tasks, capacity test evaluated on all orderings of {len, max} and dominating the "
       "insertion with no suspension in between, re-entrancy rule for async methods reachable from two coroutines of one "
       "gather (values obtained across an await may drive only idempotent or membership-guarded mutations), and the "
       "role-anchored rule that every @contextmanager generator runs its post-yield statements on the exception path. "
       "'Ends promptly' and which exception run() surfaces for every fault placement are not claimed.",
  design_ref="DESIGN.md section 5, C14",
  note=_TB + "Concurrency is discovered from gather() sites only (the two dispatchers' own code).",
  technique="static analysis: CFG path rules, call-graph reachability for re-entrancy, taint across await, context-manager restore rule"),
 "C18": dict(
  text="Lost-wake-up rule over every writer of the pending-subscription set in the base client and all subclasses (class "
       "hierarchy from mypy), atomic clear/read/swap on the consumer side, reconnect-loop shape, per-connection "
       "re-marking of all channels before the tasks start, back-off stamp and sleep dominating every connect, routing by "
       "the message's own stream/channel with the stream table filled from the subscribed channels, keep-alive scheduled "
       "per channel and re-armed in finally, sibling cross-check of listen-key channels (create and refresh on the same "
       "account client). Convergence after arbitrary fault sequences and 'at least once per period' are liveness/timing "
       "and are not claimed.",
  design_ref="DESIGN.md section 5, C18",
  note=_TB + "asyncio.Event semantics; aiohttp's async-for over a websocket ends when the connection closes.",
  technique="static analysis: pairing (add -> set) on the CFG, loop-shape lint, dominance queries, sibling cross-check"),
 "C19": dict(
  text="Bar.__init__ abstractly interpreted over all 75 weak orderings of {open,high,low,close} (exhaustive: accepted "
       "exactly when low <= open, close <= high; stores the same-named parameter), writers of the OHLC attributes, "
       "window tiling of the trade aggregator decided with affine time forms (no gap, no overlap on a microsecond clock), "
       "row-key -> Bar-parameter mapping of every RowParser implementation, event time = bar start + period, period "
       "tables derived from step tables, sort selection and key, BOM table evaluated as constants (no shadowed entry, "
       "BOM/codec pairs). The OHLCV aggregation arithmetic and non-UTF-8 files without BOM are not claimed.",
  design_ref="DESIGN.md section 5, C19",
  note=_TB + "Weak-ordering interpreter sa/absint.py; stdlib codecs constants; datetime has microsecond resolution.",
  technique="static analysis: abstract interpretation over weak orderings (exhaustive), affine time forms, data-flow mapping lint, constant-table evaluation"),
}

NOT_APPLICABLE = {}
