#!/venv/bin/python
"""Run the repository's pinned baseline (BASELINE.json stable_pass) and report tests that no longer pass.
usage: tools/baseline.py [repo_dir] [-n JOBS]     exit 0 = all 226 stable tests pass"""
import json, os, subprocess, sys, tempfile
import xml.etree.ElementTree as ET

repo = sys.argv[1] if len(sys.argv) > 1 and not sys.argv[1].startswith("-") else "/repo"
jobs = sys.argv[sys.argv.index("-n") + 1] if "-n" in sys.argv else "8"
base = json.load(open("/root/.vp/BASELINE.json"))
want = set(base["stable_pass"])
fd, xml = tempfile.mkstemp(suffix=".xml"); os.close(fd)
cmd = ["/venv/bin/python", "-m", "pytest", "-q", "-p", "no:cacheprovider", "--timeout=900",
       "--continue-on-collection-errors", f"--junitxml={xml}", "-n", jobs]
env = dict(os.environ); env.pop("BASANA_VERIF", None)
p = subprocess.run(cmd, cwd=repo, env=env, stdout=subprocess.PIPE, stderr=subprocess.STDOUT, text=True)
passed = set()
for tc in ET.parse(xml).getroot().iter("testcase"):
    if not any(ch.tag in ("failure", "error", "skipped") for ch in tc):
        passed.add(f"{tc.get('classname')}::{tc.get('name')}")
os.unlink(xml)
missing = sorted(want - passed)
print(p.stdout.strip().splitlines()[-1])
print(f"baseline stable tests passing: {len(want & passed)}/{len(want)}")
for m in missing: print("  NOT PASSING:", m)
sys.exit(1 if missing else 0)
