"""D9 (C17): decimals are rendered with str(): Decimal('0.00000085') is transmitted as '8.5E-7' and Decimal('1E+3') as
'1E+3'. Loopback aiohttp server records the form bodies sent by the Binance and Bitstamp clients.
exit 0 = every amount/price arrives in plain fixed-point notation with the same numeric value, 1 = defect shown"""
import asyncio, sys, urllib.parse
from decimal import Decimal
from aiohttp import web
from basana.external.binance import client as bclient
from basana.external.bitstamp import client as sclient

seen = []

async def handler(request):
    body = await request.text()
    seen.append((request.path, dict(urllib.parse.parse_qsl(body))))
    return web.json_response({})

async def main():
    app = web.Application(); app.router.add_route("*", "/{tail:.*}", handler)
    runner = web.AppRunner(app); await runner.setup()
    site = web.TCPSite(runner, "127.0.0.1", 0); await site.start()
    port = site._server.sockets[0].getsockname()[1]
    ov = {"api": {"http": {"base_url": f"http://127.0.0.1:{port}/"}}}
    small, big = Decimal("0.00000085"), Decimal("1E+3")
    b = bclient.APIClient("key", "secret", config_overrides=ov)
    await b.spot_account.create_order("BTCUSDT", "BUY", "LIMIT", quantity=small, price=big, time_in_force="GTC")
    await b.spot_account.create_oco("BTCUSDT", "SELL", small, big, big)
    await b.cross_margin_account.transfer_from_spot_account("BTC", small)
    await b.isolated_margin_account.transfer_to_spot_account("BTC", "BTCUSDT", small)
    s = sclient.APIClient("key", "secret", config_overrides=ov)
    await s.create_limit_order("buy", "btcusd", small, big)
    await runner.cleanup()
    bad = 0
    for path, form in seen:
        for k in ("quantity", "price", "stopPrice", "amount"):
            if k in form:
                txt = form[k]
                ok = "E" not in txt.upper() and Decimal(txt) in (small, big)
                print(f"{path:45s} {k:10s} {txt:>14s} {'ok' if ok else 'NOT FIXED-POINT'}")
                bad += not ok
    return 1 if bad else 0

sys.exit(asyncio.run(main()))
