"""D7 (C10): margin lending with a 50% margin requirement; the account is EMPTY (equity 0). Borrowing 1,000,000 USD must be
refused (equity 0 < 0.5 x 1,000,000). On the unfixed tree the margin level comes out as exactly 0, which
_check_margin_level exempts (0 doubles as the 'nothing borrowed' sentinel), so the loan is granted.
exit 0 = refused (property holds), 1 = loan granted (defect shown)"""
import asyncio, datetime, sys
from decimal import Decimal
import basana as bs
from basana.backtesting import exchange as bt, lending

async def main():
    d = bs.backtesting_dispatcher()
    cond = lending.MarginLoanConditions(interest_symbol="USD", interest_percentage=Decimal(10),
                                        interest_period=datetime.timedelta(days=365), min_interest=Decimal(0),
                                        margin_requirement=Decimal("0.5"))
    ex = bt.Exchange(d, {}, lending_strategy=lending.MarginLoans("USD", default_conditions=cond))
    ex.set_symbol_precision("USD", 2); ex.set_symbol_precision("BTC", 8)
    d._set_now(datetime.datetime(2024, 1, 1, tzinfo=datetime.timezone.utc))
    try:
        loan = await ex.create_loan("USD", Decimal(1000000))
    except bt.Error as e:
        print("refused:", e)
        return 0
    bal = await ex.get_balance("USD")
    print("GRANTED to an empty account:", loan.borrowed_amount, "available now", bal.available)
    return 1

sys.exit(asyncio.run(main()))
