"""D2 (C14): TaskPool of size 1, two concurrent push() calls while the pool is full (exactly what
RealtimeDispatcher._dispatch_loop does with _push_scheduled || _push_events, and _on_idle with several idle handlers).
Both pushers wake from the same asyncio.wait with the same 'done' set; the second one does set.remove() of a task the
first already removed -> KeyError (an internal error escaping run()).   exit 0 = holds, 1 = defect shown"""
import asyncio, sys
from basana.core import helpers

async def work():
    await asyncio.sleep(0.01)

async def main():
    pool = helpers.TaskPool(1)
    await pool.push(work())
    try:
        await asyncio.gather(pool.push(work()), pool.push(work()))
        await pool.wait()
    except KeyError as e:
        print("KeyError escaping TaskPool.push:", e)
        return 1
    done = pool.pop_done()
    print("done tasks:", len(done), "distinct:", len(set(done)))
    return 0 if len(done) == len(set(done)) == 3 else 1

sys.exit(asyncio.run(main()))
