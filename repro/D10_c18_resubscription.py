"""D10 (C18): a channel flagged for re-subscription (what the Binance client does on 'listenKeyExpired') must be
re-subscribed on the live connection. Loopback aiohttp websocket server; the client subscribes channel 'ch', the server
then sends an 'expired' message, the client's handler calls schedule_resubscription(['ch']).
On the unfixed tree nothing wakes _subscribe_loop: no second subscribe arrives.   exit 0 = holds, 1 = defect shown"""
import asyncio, json, sys
import aiohttp
from aiohttp import web
from basana.core import websockets as core_ws, event

subs = []

async def ws_handler(request):
    ws = web.WebSocketResponse()
    await ws.prepare(request)
    async for msg in ws:
        data = json.loads(msg.data)
        subs.append(data)
        if len(subs) == 1:
            await ws.send_str(json.dumps({"expired": data["channels"]}))
    return ws

class Src(core_ws.ChannelEventSource):
    async def push_from_message(self, message): pass

class Client(core_ws.WebSocketClient):
    async def subscribe_to_channels(self, channels, ws_cli):
        await ws_cli.send_str(json.dumps({"channels": channels}))
    async def handle_message(self, message):
        if "expired" in message:
            self.schedule_resubscription(message["expired"])
        return True

async def main():
    app = web.Application(); app.router.add_get("/ws", ws_handler)
    runner = web.AppRunner(app); await runner.setup()
    site = web.TCPSite(runner, "127.0.0.1", 0); await site.start()
    port = site._server.sockets[0].getsockname()[1]
    cli = Client(f"http://127.0.0.1:{port}/ws")
    cli.set_channel_event_source("ch", Src(cli))
    t = asyncio.create_task(cli.main())
    for _ in range(40):
        await asyncio.sleep(0.05)
        if len(subs) >= 2: break
    t.cancel()
    try: await t
    except BaseException: pass
    await runner.cleanup()
    print("subscribe requests seen by the server:", subs)
    return 0 if len(subs) >= 2 else 1

sys.exit(asyncio.run(main()))
