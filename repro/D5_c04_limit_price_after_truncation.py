"""D5 (C04): base precision 0, bar volume 6 with the default 25% volume share -> available liquidity 1.5.
A buy limit order for 3 @ 100 gets amount = min(3, 1.5) = 1.5, quote = 90 x 1.5 = 135 (bar opens at 90); the order manager
then truncates the base amount to 1 but keeps the quote amount: 135 USD paid for 1 unit = effective price 135 > limit 100.
exit 0 = every fill respects the limit price, 1 = defect shown"""
import asyncio, datetime, sys
from decimal import Decimal
import basana as bs
from basana.backtesting import exchange as bt

P = bs.Pair("ABC", "USD")
T0 = datetime.datetime(2024, 1, 1, tzinfo=datetime.timezone.utc)

def bar(i, o, h, l, c, v):
    dt = T0 + datetime.timedelta(days=i)
    return bs.BarEvent(dt + datetime.timedelta(days=1), bs.Bar(dt, P, Decimal(o), Decimal(h), Decimal(l), Decimal(c), Decimal(v)))

async def main():
    d = bs.backtesting_dispatcher()
    ex = bt.Exchange(d, {"USD": Decimal(100000)})
    ex.set_pair_info(P, bs.PairInfo(0, 2))
    fills = []
    async def on_order(ev):
        fills.append((ev.order.amount_filled, ev.order.quote_amount_filled))
    async def on_bar(ev):
        if not fills and not await ex.get_open_orders():
            await ex.create_limit_order(bs.OrderOperation.BUY, P, Decimal(3), Decimal(100))
    ex.subscribe_to_bar_events(P, on_bar)
    ex.subscribe_to_order_events(on_order)
    ex.add_bar_source(bs.FifoQueueEventSource(events=[bar(0, 95, 95, 95, 95, 1000), bar(1, 90, 92, 88, 90, 6)]))
    await d.run(stop_signals=[])
    bad = 0
    prev = (Decimal(0), Decimal(0))
    for amt, quote in fills:
        da, dq = amt - prev[0], quote - prev[1]
        if da:
            price = dq / da
            print(f"fill: {da} ABC for {dq} USD -> effective price {price}")
            if price > Decimal(100):
                bad += 1
        prev = (amt, quote)
    return 1 if bad else 0

sys.exit(asyncio.run(main()))
