"""D11 (C19): RealTimeTradesToBar.main() builds windows [begin, begin + D - 1ms] and membership is begin <= when <= end,
so a trade stamped in the last millisecond of a window (e.g. ...:59.999500) belongs to no bar. main() is driven with a
virtual clock (dt.utc_now and asyncio.sleep patched); trades with total volume 7 are pushed, of which 4 fall at
:59.999500 of their window.      exit 0 = every in-order trade is in exactly one bar, 1 = defect shown"""
import asyncio, datetime, sys
from decimal import Decimal
from unittest import mock
from basana.core import bar, dt, pair

now = [datetime.datetime(2024, 1, 1, 0, 0, 0, tzinfo=datetime.timezone.utc)]
flushes = [0]

async def fake_sleep(secs):
    now[0] += datetime.timedelta(seconds=max(secs, 0))
    flushes[0] += 1
    if flushes[0] > 4:
        raise asyncio.CancelledError()

async def main():
    src = bar.RealTimeTradesToBar(pair.Pair("BTC", "USD"), 60, skip_first_bar=False, flush_delay=0)
    t0 = now[0]
    trades = [
        (t0 + datetime.timedelta(seconds=10), "100", "1"),
        (t0 + datetime.timedelta(seconds=59, microseconds=999500), "101", "4"),   # last ms of window 0
        (t0 + datetime.timedelta(seconds=70), "102", "2"),
    ]
    for when, p, a in trades:
        src.push_trade(when, Decimal(p), Decimal(a))
    with mock.patch.object(dt, "utc_now", lambda: now[0]), mock.patch.object(asyncio, "sleep", fake_sleep):
        try:
            await src.main()
        except asyncio.CancelledError:
            pass
    vol = Decimal(0)
    while (ev := src.pop()) is not None:
        print("bar", ev.bar.datetime.time(), "->", ev.when.time(), "volume", ev.bar.volume)
        vol += ev.bar.volume
    print("volume pushed 7, volume in bars", vol)
    return 0 if vol == 7 else 1

sys.exit(asyncio.run(main()))
