"""D3 (C14): a producer fails in initialize(); run() raises the producer's error, but logs.backtesting_log_mode does
not restore the log record factory, so the next logging call anywhere in the process raises
"Can't calculate current datetime since no events were processed".   exit 0 = holds, 1 = defect shown"""
import asyncio, logging, sys
import basana as bs

class Boom(bs.Producer):
    async def initialize(self):
        raise RuntimeError("producer failed")

async def main():
    before = logging.getLogRecordFactory()
    d = bs.backtesting_dispatcher()
    src = bs.FifoQueueEventSource(producer=Boom())
    async def h(ev): pass
    d.subscribe(src, h)
    try:
        await d.run(stop_signals=[])
    except RuntimeError:
        pass
    after = logging.getLogRecordFactory()
    try:
        logging.getLogger("x").warning("after the run")
    except Exception as e:
        print("logging fails after the run:", e)
        return 1
    print("factory restored:", after is before)
    return 0 if after is before else 1

sys.exit(asyncio.run(main()))
