"""D13: cancel_order on a partially filled auto_repay order raises NoPrice from the auto-repay step after the order was cancelled and
its holds released: a refused request changes the account."""
from decimal import Decimal
import asyncio, datetime, sys
from basana.backtesting import errors, exchange, liquidity
from basana.backtesting.lending import margin
from basana.core import bar, dispatcher, dt, event
from basana.core.enums import OrderOperation
from basana.core.pair import Pair, PairInfo

BTC_USD = Pair("BTC", "USD")

def main():
    d = dispatcher.backtesting_dispatcher()
    ls = margin.MarginLoans("USD", default_conditions=margin.MarginLoanConditions(
        interest_symbol="BNB", interest_percentage=Decimal("10"), interest_period=datetime.timedelta(days=365),
        min_interest=Decimal(0), margin_requirement=Decimal("0.5")))
    e = exchange.Exchange(d, {"USD": Decimal(100000)}, lending_strategy=ls,
                          liquidity_strategy_factory=lambda: liquidity.VolumeShareImpact())
    for s, p in {"BTC": 8, "USD": 2, "BNB": 8}.items():
        e.set_symbol_precision(s, p)
    e.set_pair_info(BTC_USD, PairInfo(8, 2))
    src = event.FifoQueueEventSource()
    t0 = dt.local_datetime(2000, 1, 1)
    for i in range(4):
        b = t0 + datetime.timedelta(days=i)
        src.push(bar.BarEvent(b + datetime.timedelta(days=1), bar.Bar(b, BTC_USD, *[Decimal(10000)] * 4, Decimal(4))))
    bad = []
    st = {}

    async def snap():
        b = await e.get_balances()
        o = await e.get_order_info(st["order"].id) if "order" in st else None
        return ({s: (x.available, x.hold, x.borrowed) for s, x in sorted(b.items()) if x.available or x.hold or x.borrowed},
                (o.is_open, o.amount_filled) if o else None)

    async def on_bar(ev):
        n = st.setdefault("n", 0); st["n"] += 1
        if n == 0:
            await e.create_loan("BTC", Decimal(1))      # periodic interest: nothing to convert at creation time
            # buy 3 BTC; each bar only offers 25% of its volume (1 BTC): partial fills
            st["order"] = await e.create_limit_order(OrderOperation.BUY, BTC_USD, Decimal(3), Decimal(10000), auto_repay=True)
        elif n == 2:
            before = await snap()
            try:
                await e.cancel_order(st["order"].id)
                print("canceled")
            except errors.Error as ex:
                after = await snap()
                print("cancel_order refused:", repr(ex)); print(" before:", before); print(" after: ", after)
                if before != after:
                    bad.append("cancel_order")
    e.subscribe_to_bar_events(BTC_USD, on_bar)
    e.add_bar_source(src)
    try:
        asyncio.run(d.run())
    except errors.NoPrice as ex:
        print("run aborted:", repr(ex))
    if bad:
        print("C07 VIOLATED: refused request(s) changed the account:", bad); sys.exit(1)
    print("OK")
main()
