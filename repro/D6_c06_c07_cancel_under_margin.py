"""D6 (C06, C07): margin account, 1 BTC (worth 1000 USD) + a 1500 USD margin loan (requirement 50% -> level 133%).
A limit buy that cannot fill reserves 50 USD. The price then drops to 600: margin level 80%. Cancelling the order only
releases the reservation, yet the margin rule is evaluated on that pure hold release and refuses it: cancel_order raises,
the order is already CANCELED, and 50 USD stay on hold with no open order.
exit 0 = cancellation succeeds and nothing stays on hold, 1 = defect shown"""
import asyncio, datetime, sys
from decimal import Decimal
import basana as bs
from basana.backtesting import exchange as bt, lending

P = bs.Pair("BTC", "USD")
T0 = datetime.datetime(2024, 1, 1, tzinfo=datetime.timezone.utc)

def bar(i, o, h, l, c):
    dt = T0 + datetime.timedelta(days=i)
    return bs.BarEvent(dt + datetime.timedelta(days=1), bs.Bar(dt, P, Decimal(o), Decimal(h), Decimal(l), Decimal(c), Decimal(100)))

async def main():
    d = bs.backtesting_dispatcher()
    cond = lending.MarginLoanConditions(interest_symbol="USD", interest_percentage=Decimal(0),
                                        interest_period=datetime.timedelta(days=365), min_interest=Decimal(0),
                                        margin_requirement=Decimal("0.5"))
    ex = bt.Exchange(d, {"BTC": Decimal(1)}, lending_strategy=lending.MarginLoans("USD", default_conditions=cond))
    ex.set_symbol_precision("USD", 2); ex.set_symbol_precision("BTC", 8); ex.set_pair_info(P, bs.PairInfo(8, 2))
    state = {}
    async def on_bar(ev):
        if "order" not in state:
            await ex.create_loan("USD", Decimal(1500))
            state["order"] = (await ex.create_limit_order(bs.OrderOperation.BUY, P, Decimal("0.1"), Decimal(500))).id
        elif "cancel" not in state:
            try:
                await ex.cancel_order(state["order"])
                state["cancel"] = "ok"
            except bt.Error as e:
                state["cancel"] = f"raised {type(e).__name__}: {e}"
    ex.subscribe_to_bar_events(P, on_bar)
    ex.add_bar_source(bs.FifoQueueEventSource(events=[bar(0, 1000, 1000, 1000, 1000), bar(1, 700, 700, 550, 600)]))
    await d.run(stop_signals=[])
    info = await ex.get_order_info(state["order"])
    usd = await ex.get_balance("USD")
    open_orders = await ex.get_open_orders()
    print("cancel:", state["cancel"], "| order open:", info.is_open, "| open orders:", len(open_orders), "| USD on hold:", usd.hold)
    ok = state["cancel"] == "ok" and not info.is_open and usd.hold == 0
    return 0 if ok else 1

sys.exit(asyncio.run(main()))
