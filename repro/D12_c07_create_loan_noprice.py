"""D12: LoanManager.create_loan raises (NoPrice) after the loan was committed and registered: a refused request changes the account."""
from decimal import Decimal
import asyncio, datetime, sys
from basana.backtesting import errors, exchange
from basana.backtesting.lending import margin
from basana.core import bar, dispatcher, dt, event
from basana.core.enums import OrderOperation
from basana.core.pair import Pair, PairInfo

BTC_USD = Pair("BTC", "USD")

def main():
    d = dispatcher.backtesting_dispatcher()
    ls = margin.MarginLoans("USD", default_conditions=margin.MarginLoanConditions(
        interest_symbol="BNB", interest_percentage=Decimal("0.5"), interest_period=datetime.timedelta(0),
        min_interest=Decimal(0), margin_requirement=Decimal("0.5")))
    e = exchange.Exchange(d, {"USD": Decimal(100000)}, lending_strategy=ls)
    for s, p in {"BTC": 8, "USD": 2, "BNB": 8}.items():
        e.set_symbol_precision(s, p)
    e.set_pair_info(BTC_USD, PairInfo(8, 2))
    src = event.FifoQueueEventSource()
    t0 = dt.local_datetime(2000, 1, 1)
    src.push(bar.BarEvent(t0 + datetime.timedelta(days=1), bar.Bar(t0, BTC_USD, *[Decimal(10000)] * 4, Decimal(1000))))
    bad = []

    async def snap():
        b = await e.get_balances()
        try:
            loans = await e.get_loans(is_open=True)
            loans = [(l.borrowed_symbol, l.borrowed_amount) for l in loans]
        except errors.NoPrice as ex:
            loans = f"get_loans raises {ex!r}"
        return ({s: (x.available, x.hold, x.borrowed) for s, x in sorted(b.items()) if x.available or x.hold or x.borrowed}, loans)

    async def on_bar(ev):
        before = await snap()
        try:
            await e.create_loan("BTC", Decimal(1))
            print("loan created")
        except Exception as ex:
            after = await snap()
            print("create_loan refused:", repr(ex)); print(" before:", before); print(" after: ", after)
            if before != after:
                bad.append("create_loan")
        before = await snap()
        try:
            await e.create_market_order(OrderOperation.SELL, BTC_USD, Decimal(1), auto_borrow=True)
            print("order accepted")
        except Exception as ex:
            after = await snap()
            print("auto_borrow order refused:", repr(ex)); print(" before:", before); print(" after: ", after)
            if before != after:
                bad.append("auto_borrow order")
    e.subscribe_to_bar_events(BTC_USD, on_bar)
    e.add_bar_source(src)
    asyncio.run(d.run())
    if bad:
        print("C07 VIOLATED: refused request(s) changed the account:", bad); sys.exit(1)
    print("OK")
main()
