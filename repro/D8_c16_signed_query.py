"""D8 (C16): Binance signed GET/DELETE requests sign urlencode(qs_params) but let aiohttp/yarl encode the query string,
and the two encoders disagree on URL-special characters. A loopback server verifies the signature the way Binance does:
HMAC-SHA256(secret, <raw query string without &signature=...> + <raw body>). With origClientOrderId='a:b/c' the signed
text is 'a%3Ab%2Fc' while 'a:b/c' is transmitted.   exit 0 = all signatures verify, 1 = defect shown"""
import asyncio, hashlib, hmac, sys
from decimal import Decimal
from aiohttp import web
from basana.external.binance import client as bclient

SECRET = "s3cr3t"
results = []

async def handler(request):
    raw_qs = request.rel_url.raw_query_string
    body = await request.text()
    qs, _, sig = raw_qs.rpartition("&signature=")
    expected = hmac.new(SECRET.encode(), msg=(qs + body).encode(), digestmod=hashlib.sha256).hexdigest()
    results.append((request.method, request.path, raw_qs[:70], sig == expected, request.headers.get("X-MBX-APIKEY")))
    return web.json_response({})

async def main():
    app = web.Application(); app.router.add_route("*", "/{tail:.*}", handler)
    runner = web.AppRunner(app); await runner.setup()
    site = web.TCPSite(runner, "127.0.0.1", 0); await site.start()
    port = site._server.sockets[0].getsockname()[1]
    ov = {"api": {"http": {"base_url": f"http://127.0.0.1:{port}/"}}}
    b = bclient.APIClient("key", SECRET, config_overrides=ov)
    await b.spot_account.query_order("BTCUSDT", orig_client_order_id="plain-id_1")
    await b.spot_account.query_order("BTCUSDT", orig_client_order_id="a:b/c")
    await b.spot_account.cancel_order("BTCUSDT", orig_client_order_id="x y@z,1")
    await b.cross_margin_account.query_order("BTCUSDT", orig_client_order_id="a:b/c")
    await b.spot_account.create_order("BTCUSDT", "BUY", "LIMIT", quantity=Decimal("1"), price=Decimal("2"),
                                      new_client_order_id="a:b/c")
    await runner.cleanup()
    bad = 0
    for m, p, q, ok, key in results:
        print(f"{m:6s} {p:24s} {q:72s} signature {'verifies' if ok else 'MISMATCH'} key={key}")
        bad += (not ok) or key != "key"
    return 1 if bad else 0

sys.exit(asyncio.run(main()))
