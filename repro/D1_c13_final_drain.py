"""D1 (C13): jobs scheduled for after the last event, pushed in the order +5d, +9d, +7d: the +9d job never runs
on the unfixed tree because the final drain is bounded by heap[-1] (a leaf), not by the maximum.
Run: /venv/bin/python repro/D1_c13_final_drain.py   (exit 0 = property holds, 1 = defect shown)"""
import asyncio, datetime, sys
import basana as bs

async def main():
    d = bs.backtesting_dispatcher()
    src = bs.FifoQueueEventSource()
    t0 = datetime.datetime(2024, 1, 1, tzinfo=datetime.timezone.utc)
    src.push(bs.Event(t0))
    ran = []
    async def on_event(ev):
        for days in (5, 9, 7):
            def mk(days=days):
                async def job():
                    ran.append(days)
                return job
            d.schedule(t0 + datetime.timedelta(days=days), mk())
    d.subscribe(src, on_event)
    await d.run(stop_signals=[])
    print("jobs run:", ran)
    return 0 if ran == [5, 7, 9] else 1

sys.exit(asyncio.run(main()))
