"""D4 (C03): 3 pairs with bars at the same timestamps, max_concurrent=1, strategy subscribed to the derived bar source
of pair A *before* the primary sources are added. While the dispatcher is suspended in pool.push (pool full), the exchange
handler of A's primary bar publishes the derived event, which is popped in the same pass ahead of C's primary bar at the
same timestamp: the strategy's market order on C, submitted at T, is filled by C's bar of time T (look-ahead), and the
outcome differs from max_concurrent=50.     exit 0 = holds, 1 = defect shown"""
import asyncio, datetime, sys
from decimal import Decimal
import basana as bs
from basana.backtesting import exchange as bt

A, B, Cc = bs.Pair("AAA", "USD"), bs.Pair("BBB", "USD"), bs.Pair("CCC", "USD")
T0 = datetime.datetime(2024, 1, 1, tzinfo=datetime.timezone.utc)

def bars(pair, prices):
    evs = []
    for i, p in enumerate(prices):
        dt = T0 + datetime.timedelta(days=i)
        p = Decimal(p)
        evs.append(bs.BarEvent(dt + datetime.timedelta(days=1), bs.Bar(dt, pair, p, p, p, p, Decimal(1000))))
    return bs.FifoQueueEventSource(events=evs)

async def run(max_concurrent):
    d = bs.backtesting_dispatcher(max_concurrent=max_concurrent)
    ex = bt.Exchange(d, {"USD": Decimal(10000)})
    fills = []
    placed = {}
    async def on_a_bar(ev):
        if not placed:
            o = await ex.create_market_order(bs.OrderOperation.BUY, Cc, Decimal(1))
            placed[o.id] = ev.when
    async def on_order(ev):
        if ev.order.amount_filled:
            fills.append((placed[ev.order.id], ev.when, ev.order.fill_price))
    ex.subscribe_to_bar_events(A, on_a_bar)            # derived source first in the multiplexer's scan order
    ex.subscribe_to_order_events(on_order)
    for p, pr in ((A, [10, 11, 12]), (B, [20, 21, 22]), (Cc, [30, 31, 32])):
        ex.add_bar_source(bars(p, pr))
    await d.run(stop_signals=[])
    return fills

r1 = asyncio.run(run(1)); r50 = asyncio.run(run(50))
print("max_concurrent=1 :", r1)
print("max_concurrent=50:", r50)
bad = [f for f in r1 + r50 if not f[1] > f[0]] or r1 != r50
sys.exit(1 if bad else 0)
