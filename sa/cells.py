"""Threshold cells: evaluate a guard over one variable on the cells the real line is cut into by the constants
the guard mentions (DESIGN.md 3.4).  The guard's AST is evaluated on one representative per cell; the supported
subset is comparisons against numeric constants / ``Decimal(<const>)``, ``is None`` / ``is not None``, and/or/not.
Short-circuit evaluation is respected, so ``x is not None and x < 100`` on the cell ``None`` does not raise, while
``x < 100`` does (reported as 'TypeError')."""
from __future__ import annotations

import ast
from typing import Any, Dict, List, Optional, Tuple


class Unsupported(Exception):
    pass


def const_num(e: ast.AST) -> Optional[float]:
    if isinstance(e, ast.Constant) and isinstance(e.value, (int, float)) and not isinstance(e.value, bool):
        return float(e.value)
    if isinstance(e, ast.Call) and isinstance(e.func, (ast.Name, ast.Attribute)) and len(e.args) == 1 \
            and (e.func.id if isinstance(e.func, ast.Name) else e.func.attr) == "Decimal" \
            and isinstance(e.args[0], ast.Constant):
        try:
            return float(e.args[0].value)
        except (TypeError, ValueError):
            return None
    if isinstance(e, ast.Call) and isinstance(e.func, (ast.Name, ast.Attribute)) and len(e.args) == 1 \
            and (e.func.id if isinstance(e.func, ast.Name) else e.func.attr) == "Decimal" \
            and isinstance(e.args[0], ast.UnaryOp):
        return const_num(e.args[0])
    if isinstance(e, ast.UnaryOp) and isinstance(e.op, ast.USub):
        v = const_num(e.operand)
        return None if v is None else -v
    if isinstance(e, ast.Name) and e.id == "ZERO":
        return 0.0
    return None


def thresholds(guard: ast.AST) -> List[float]:
    out = set()
    for n in ast.walk(guard):
        v = const_num(n)
        if v is not None:
            out.add(v)
    return sorted(out)


def cells(ts: List[float]) -> List[Tuple[str, float]]:
    """(label, representative) for every cell of the line cut at ``ts``."""
    if not ts:
        return [("(-inf,+inf)", 0.0)]
    out: List[Tuple[str, float]] = [(f"(-inf,{ts[0]:g})", ts[0] - 1)]
    for i, t in enumerate(ts):
        out.append((f"{{{t:g}}}", t))
        if i + 1 < len(ts):
            out.append((f"({t:g},{ts[i + 1]:g})", (t + ts[i + 1]) / 2))
    out.append((f"({ts[-1]:g},+inf)", ts[-1] + 1))
    return out


class TypeErr(Exception):
    pass


def evaluate(guard: ast.AST, var: str, value: Any) -> bool:
    """Truth of ``guard`` with ``var`` bound to ``value`` (a float or None). Raises TypeErr for None comparisons."""
    def ev(e: ast.AST) -> Any:
        if isinstance(e, ast.Name) and e.id == var:
            return value
        c = const_num(e)
        if c is not None:
            return c
        if isinstance(e, ast.Constant) and e.value is None:
            return None
        if isinstance(e, ast.BoolOp):
            if isinstance(e.op, ast.And):
                r: Any = True
                for s in e.values:
                    r = ev(s)
                    if not r:
                        return r
                return r
            r = False
            for s in e.values:
                r = ev(s)
                if r:
                    return r
            return r
        if isinstance(e, ast.UnaryOp) and isinstance(e.op, ast.Not):
            return not ev(e.operand)
        if isinstance(e, ast.Compare):
            left = ev(e.left)
            for op, rhs in zip(e.ops, e.comparators):
                right = ev(rhs)
                if isinstance(op, ast.Is):
                    r = left is right
                elif isinstance(op, ast.IsNot):
                    r = left is not right
                else:
                    if left is None or right is None:
                        if isinstance(op, ast.Eq):
                            r = left is right
                        elif isinstance(op, ast.NotEq):
                            r = left is not right
                        else:
                            raise TypeErr()
                    else:
                        r = {ast.Lt: left < right, ast.LtE: left <= right, ast.Gt: left > right,
                             ast.GtE: left >= right, ast.Eq: left == right, ast.NotEq: left != right}.get(type(op))
                        if r is None:
                            raise Unsupported(f"operator {type(op).__name__}")
                if not r:
                    return False
                left = right
            return True
        raise Unsupported(f"guard construct {type(e).__name__}: {ast.unparse(e)[:60]}")
    return bool(ev(guard))


def truth_table(guard: ast.AST, var: str, extra: Optional[List[float]] = None, with_none: bool = False) -> Dict[str, Any]:
    ts = sorted(set(thresholds(guard)) | set(extra or []))
    out: Dict[str, Any] = {}
    for label, rep in cells(ts):
        out[label] = evaluate(guard, var, rep)
    if with_none:
        try:
            out["None"] = evaluate(guard, var, None)
        except TypeErr:
            out["None"] = "TypeError"
    return out
