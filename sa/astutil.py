"""Small syntax helpers shared by the rules (all purely structural; resolution goes through mypyfacts)."""
from __future__ import annotations

import ast
from typing import Any, Dict, Iterator, List, Optional, Set, Tuple

from . import loader
from .cfg import walk_shallow

MUTATORS = {"append", "add", "update", "pop", "remove", "clear", "extend", "insert", "discard", "setdefault",
            "popitem", "sort", "reverse", "appendleft", "popleft", "prune", "truncate",
            "__setitem__", "__delitem__", "__iadd__", "__isub__", "__imul__"}


def dotted(e: ast.AST) -> Optional[str]:
    """``a.b.c`` for Name/Attribute chains, None for anything else."""
    parts: List[str] = []
    cur = e
    while isinstance(cur, ast.Attribute):
        parts.append(cur.attr)
        cur = cur.value
    if isinstance(cur, ast.Name):
        parts.append(cur.id)
        return ".".join(reversed(parts))
    if isinstance(cur, ast.Call) and isinstance(cur.func, ast.Name) and cur.func.id == "super" and parts:
        parts.append("super()")
        return ".".join(reversed(parts))
    return None


def fact_key(m: loader.Module, n: ast.AST):
    """Key of a node in the mypy fact tables: the file it was written in (a node inlined from another module keeps that module)."""
    return (getattr(n, "_src", None) or m.relpath,) + loader.span(n)


def seq(n: ast.AST):
    """Ordering key: textual position after inlining (see loader._set_parents)."""
    return (getattr(n, "seq", 0), getattr(n, "lineno", 0), getattr(n, "col_offset", 0))


def call_name(c: ast.Call) -> Optional[str]:
    return dotted(c.func)


def calls(node: ast.AST, shallow: bool = True) -> List[ast.Call]:
    it = walk_shallow(node) if shallow else ast.walk(node)
    out = [n for n in it if isinstance(n, ast.Call)]
    out.sort(key=seq)
    return out


def body_nodes(fn: loader.Func, shallow: bool = True) -> Iterator[ast.AST]:
    """All nodes of the function body (not its decorators/signature); nested defs excluded when shallow."""
    body = fn.node.body if not isinstance(fn.node, ast.Lambda) else [fn.node.body]
    for s in body:
        if shallow:
            if isinstance(s, (ast.FunctionDef, ast.AsyncFunctionDef, ast.ClassDef)):
                yield s
                continue
            yield from walk_shallow(s)
        else:
            yield from ast.walk(s)


def func_calls(fn: loader.Func, shallow: bool = True) -> List[ast.Call]:
    out = [n for n in body_nodes(fn, shallow) if isinstance(n, ast.Call)]
    out.sort(key=seq)
    return out


def kw(c: ast.Call, name: str) -> Optional[ast.expr]:
    for k in c.keywords:
        if k.arg == name:
            return k.value
    return None


def stmt_of(node: ast.AST) -> ast.stmt:
    cur = node
    while not isinstance(cur, ast.stmt):
        cur = cur.parent  # type: ignore[attr-defined]
    return cur


def ancestors(node: ast.AST) -> Iterator[ast.AST]:
    cur = getattr(node, "parent", None)
    while cur is not None:
        yield cur
        cur = getattr(cur, "parent", None)


def is_within(node: ast.AST, container: ast.AST) -> bool:
    return node is container or any(a is container for a in ancestors(node))


def decorators(fn: loader.Func) -> List[str]:
    return [dotted(d) or dotted(getattr(d, "func", d)) or ast.unparse(d) for d in fn.node.decorator_list]


class Store:
    __slots__ = ("target", "node", "kind", "stmt")

    def __init__(self, target: ast.AST, node: ast.AST, kind: str, stmt: ast.AST):
        self.target = target     # the expression being written (Attribute / Subscript / Name)
        self.node = node
        self.kind = kind         # assign | augassign | delete | subscript | mutcall
        self.stmt = stmt


def stores(fn: loader.Func, shallow: bool = True) -> List[Store]:
    """Every syntactic write in the function: assignments, augmented assignments, deletions, subscript stores
    and calls of in-place mutator methods (``x.append(...)``; the written expression is ``x``)."""
    out: List[Store] = []

    def targets(t: ast.AST) -> Iterator[ast.AST]:
        if isinstance(t, (ast.Tuple, ast.List)):
            for e in t.elts:
                yield from targets(e)
        elif isinstance(t, ast.Starred):
            yield from targets(t.value)
        else:
            yield t

    for n in body_nodes(fn, shallow):
        if isinstance(n, ast.Assign):
            for t in n.targets:
                for x in targets(t):
                    out.append(Store(x, n, "subscript" if isinstance(x, ast.Subscript) else "assign", n))
        elif isinstance(n, ast.AnnAssign) and n.value is not None:
            out.append(Store(n.target, n, "assign", n))
        elif isinstance(n, ast.AugAssign):
            out.append(Store(n.target, n, "augassign", n))
        elif isinstance(n, ast.Delete):
            for t in n.targets:
                out.append(Store(t, n, "delete", n))
        elif isinstance(n, ast.NamedExpr):
            out.append(Store(n.target, n, "assign", stmt_of(n)))
        elif isinstance(n, (ast.For, ast.AsyncFor)):
            for x in targets(n.target):
                out.append(Store(x, n, "assign", n))
        elif isinstance(n, ast.Call) and isinstance(n.func, ast.Attribute) and n.func.attr in MUTATORS:
            out.append(Store(n.func.value, n, "mutcall", stmt_of(n)))
    return out


def base_attr(e: ast.AST) -> Optional[Tuple[ast.AST, str]]:
    """For ``X.a``, ``X.a[k]``, ``X.a[k][j]`` return (X, 'a')."""
    cur = e
    while isinstance(cur, ast.Subscript):
        cur = cur.value
    if isinstance(cur, ast.Attribute):
        return cur.value, cur.attr
    return None


class CallIndex:
    """All call sites of basana with their resolved callees (mypy) and enclosing function."""

    def __init__(self, repo: loader.Repo, facts: Any):
        self.repo = repo
        self.facts = facts
        self.sites: List[Tuple[Optional[loader.Func], loader.Module, ast.Call, List[str]]] = []
        for m in repo.modules.values():
            for n in ast.walk(m.tree):
                if isinstance(n, ast.Call):
                    key = fact_key(m, n)
                    self.sites.append((repo.enclosing_func(n), m, n, list(facts.callees.get(key, []))))
        self._overrides: Dict[str, Set[str]] = {}

    def callees(self, m: loader.Module, c: ast.Call) -> List[str]:
        return list(self.facts.callees.get(fact_key(m, c), []))

    def overrides_of(self, method: str) -> Set[str]:
        """``C.m`` plus every ``D.m`` where D is a subclass of C that defines m (class-hierarchy analysis)."""
        if method in self._overrides:
            return self._overrides[method]
        out = {method}
        if "." in method:
            cls, name = method.rsplit(".", 1)
            for sub in self.facts.subclasses(cls):
                cand = f"{sub}.{name}"
                if cand in self.repo.funcs:
                    out.add(cand)
        self._overrides[method] = out
        return out

    def resolves_to(self, callees: List[str], target: str) -> bool:
        """Does a call with these declared callees possibly invoke ``target`` (declared method or override)?"""
        for c in callees:
            if c == target or target in self.overrides_of(c):
                return True
        return False

    def callers_of(self, target: str) -> List[Tuple[Optional[loader.Func], loader.Module, ast.Call]]:
        out = []
        for fn, m, c, cs in self.sites:
            if self.resolves_to(cs, target):
                out.append((fn, m, c))
        return out


def call_index(ctx: Any) -> CallIndex:
    ci = getattr(ctx, "_call_index", None)
    if ci is None:
        ci = CallIndex(ctx.repo, ctx.facts)
        ctx._call_index = ci
    return ci


def type_of(ctx: Any, m: loader.Module, e: ast.AST) -> Optional[str]:
    return ctx.facts.types.get(fact_key(m, e))


def recv_class(ctx: Any, m: loader.Module, attr_expr: ast.Attribute) -> Optional[str]:
    return ctx.facts.recv.get(fact_key(m, attr_expr))


def const_value(e: Optional[ast.AST]) -> Any:
    if isinstance(e, ast.Constant):
        return e.value
    return None


def is_decimal_literal(e: ast.AST, value: Optional[str] = None) -> bool:
    """``Decimal(0)`` / ``Decimal("0")`` / plain ``0``."""
    if isinstance(e, ast.Constant) and isinstance(e.value, (int, float)) and not isinstance(e.value, bool):
        return value is None or str(e.value) == value
    if isinstance(e, ast.Call) and (dotted(e.func) or "").split(".")[-1] == "Decimal" and len(e.args) == 1 \
            and isinstance(e.args[0], ast.Constant):
        return value is None or str(e.args[0].value) == value
    if isinstance(e, ast.Name) and e.id == "ZERO":
        return value is None or value == "0"
    return False


def call_graph(ctx: Any) -> Dict[str, Set[str]]:
    """Function-level call graph over basana: caller qualname -> callee qualnames (declared targets and every
    override, class-hierarchy analysis).  Calls inside a nested function belong to the nested function; the
    enclosing function gets an edge to each nested function it defines (it may call or hand it out)."""
    g = getattr(ctx, "_call_graph", None)
    if g is not None:
        return g
    ci = call_index(ctx)
    g = {q: set() for q in ctx.repo.funcs}
    for fn, m, c, cs in ci.sites:
        if fn is None:
            continue
        for callee in cs:
            for t in ci.overrides_of(callee):
                if t in ctx.repo.funcs:
                    g[fn.qualname].add(t)
            # a class call runs __init__
            init = f"{callee}.__init__"
            if init in ctx.repo.funcs:
                g[fn.qualname].add(init)
    for q, fn in ctx.repo.funcs.items():
        if fn.parent is not None:
            g[fn.parent.qualname].add(q)
    # properties: attribute reads resolved by mypy to a property getter
    for m in ctx.repo.modules.values():
        for n in ast.walk(m.tree):
            if isinstance(n, ast.Attribute) and isinstance(n.ctx, ast.Load):
                rc = ctx.facts.recv.get(fact_key(m, n))
                if rc:
                    for cls in ctx.facts.mro.get(rc, [rc]):
                        q = f"{cls}.{n.attr}"
                        f2 = ctx.repo.funcs.get(q)
                        if f2 is not None and "property" in [d.split(".")[-1] for d in decorators(f2)]:
                            enc = ctx.repo.enclosing_func(n)
                            if enc is not None:
                                for t in ci.overrides_of(q):
                                    if t in ctx.repo.funcs:
                                        g[enc.qualname].add(t)
                            break
    ctx._call_graph = g
    return g


def reachable(ctx: Any, roots: List[str]) -> Set[str]:
    g = call_graph(ctx)
    seen: Set[str] = set()
    work = list(roots)
    while work:
        q = work.pop()
        if q in seen or q not in g:
            continue
        seen.add(q)
        work.extend(g[q])
    return seen
