"""Transparent inlining of *new* helper functions (the most common behaviour-preserving refactoring is "extract a helper").

The rules were written against the functions that exist in the pinned snapshot (``sa/known_functions.txt``).  A function whose
qualified name is not in that list is a helper somebody extracted later: before the rules run, every call of such a helper
from the same class (``self.h(...)``) or module (``h(...)``) is expanded in place, so dominance, pairing, same-value and
who-may-call rules keep seeing one function body.  Inlining is purely syntactic and semantics-preserving:

* expression form  -- helper body is a single ``return <expr>`` (also ``@property`` getters read as ``self.h``): the call is
  replaced by the expression with parameters substituted (arguments must be names / attributes / constants);
* statement form   -- the call is the whole right-hand side of an expression statement, assignment or return (optionally
  awaited for ``async def`` helpers): the body is spliced in with locals renamed, ``return e`` becoming ``ret = e`` followed
  by ``break`` out of a one-iteration ``while True`` wrapper (omitted when the helper has a single trailing return).

Copied nodes keep the source positions of the helper, so the mypy facts (joined on spans) still apply.  Helpers that cannot
be inlined (generators, ``return`` inside a loop, call buried in a larger expression, recursion) are left alone and reported,
and the analysis carries on with the un-inlined code.
"""
from __future__ import annotations

import ast
import copy
import os
from typing import Dict, List, Optional, Set, Tuple

KNOWN = os.path.join(os.path.dirname(os.path.abspath(__file__)), "known_functions.txt")


def load_known() -> Optional[Set[str]]:
    if not os.path.exists(KNOWN):
        return None
    with open(KNOWN) as f:
        return {l.strip() for l in f if l.strip()}


class _Subst(ast.NodeTransformer):
    def __init__(self, mapping: Dict[str, ast.AST], rename: Dict[str, str]):
        self.mapping, self.rename = mapping, rename

    def visit_Name(self, node: ast.Name) -> ast.AST:
        if node.id in self.mapping and isinstance(node.ctx, ast.Load):
            new = copy.deepcopy(self.mapping[node.id])
            return new
        if node.id in self.rename:
            return ast.copy_location(ast.Name(id=self.rename[node.id], ctx=node.ctx), node)
        return node

    def visit_Lambda(self, node: ast.Lambda) -> ast.AST:
        return node      # do not rename inside lambdas (their parameters could shadow); helpers here do not use them

    def visit_FunctionDef(self, node):  # nested defs: leave untouched
        return node
    visit_AsyncFunctionDef = visit_FunctionDef


def _simple_arg(e: ast.AST) -> bool:
    if isinstance(e, (ast.Name, ast.Constant)):
        return True
    if isinstance(e, ast.Attribute):
        return _simple_arg(e.value)
    return False


def _body_wo_doc(fdef) -> List[ast.stmt]:
    body = list(fdef.body)
    if body and isinstance(body[0], ast.Expr) and isinstance(body[0].value, ast.Constant) and isinstance(body[0].value.value, str):
        body = body[1:]
    return body


def _locals_of(fdef) -> Set[str]:
    out: Set[str] = set()
    for n in ast.walk(fdef):
        if isinstance(n, ast.Name) and isinstance(n.ctx, (ast.Store, ast.Del)):
            out.add(n.id)
        elif isinstance(n, ast.ExceptHandler) and n.name:
            out.add(n.name)
    return out


def _has_yield(fdef) -> bool:
    return any(isinstance(n, (ast.Yield, ast.YieldFrom)) for n in ast.walk(fdef))


def _return_in_loop(fdef) -> bool:
    def rec(node, in_loop):
        for c in ast.iter_child_nodes(node):
            if isinstance(c, (ast.FunctionDef, ast.AsyncFunctionDef, ast.Lambda, ast.ClassDef)):
                continue
            if isinstance(c, ast.Return) and in_loop:
                return True
            if rec(c, in_loop or isinstance(c, (ast.For, ast.AsyncFor, ast.While))):
                return True
        return False
    return rec(fdef, False)


class Inliner:
    def __init__(self, known: Set[str]):
        self.known = known
        self.counter = 0
        self.log: List[str] = []
        self.failed: List[str] = []

    # -- helper lookup -------------------------------------------------------------------------------------------------
    def _helper_for(self, call_func: ast.AST, modname: str, clsq: Optional[str], cls_nodes: Dict[str, ast.ClassDef],
                    mod_funcs: Dict[str, ast.AST]) -> Optional[Tuple[str, ast.AST, bool]]:
        """(qualname, def node, is_method) when ``call_func`` names a new helper of the same class / module."""
        if isinstance(call_func, ast.Attribute) and isinstance(call_func.value, ast.Name) and call_func.value.id == "self" and clsq:
            cd = cls_nodes.get(clsq)
            if cd is not None:
                for s in cd.body:
                    if isinstance(s, (ast.FunctionDef, ast.AsyncFunctionDef)) and s.name == call_func.attr:
                        q = f"{clsq}.{s.name}"
                        if q not in self.known:
                            return q, s, True
        if isinstance(call_func, ast.Name) and call_func.id in mod_funcs:
            q = f"{modname}.{call_func.id}"
            if q not in self.known:
                return q, mod_funcs[call_func.id], False
        return None

    # -- expression form ---------------------------------------------------------------------------------------------------
    def _expr_form(self, hdef, is_method: bool, args: List[ast.AST], keywords: List[ast.keyword]) -> Optional[ast.AST]:
        body = _body_wo_doc(hdef)
        if len(body) != 1 or not isinstance(body[0], ast.Return) or body[0].value is None:
            return None
        params = [a.arg for a in hdef.args.posonlyargs + hdef.args.args]
        if is_method:
            params = params[1:]
        if hdef.args.vararg or hdef.args.kwarg or hdef.args.kwonlyargs:
            return None
        mapping: Dict[str, ast.AST] = {}
        defaults = hdef.args.defaults
        for i, p in enumerate(params[len(params) - len(defaults):]):
            mapping[p] = defaults[i]
        for p, a in zip(params, args):
            mapping[p] = a
        for k in keywords:
            if k.arg is None:
                return None
            mapping[k.arg] = k.value
        if any(p not in mapping for p in params) or not all(_simple_arg(v) for v in mapping.values()):
            return None
        if any(isinstance(n, ast.Name) and isinstance(n.ctx, ast.Store) for n in ast.walk(body[0].value)):
            pass
        expr = copy.deepcopy(body[0].value)
        return _Subst(mapping, {}).visit(expr)

    # -- statement form ----------------------------------------------------------------------------------------------------
    def _stmt_form(self, hdef, is_method: bool, call: ast.Call) -> Optional[Tuple[List[ast.stmt], Optional[str]]]:
        if _has_yield(hdef) or _return_in_loop(hdef):
            return None
        if hdef.args.vararg or hdef.args.kwarg:
            return None
        self.counter += 1
        tag = f"_inl{self.counter}_"
        params = [a.arg for a in hdef.args.posonlyargs + hdef.args.args]
        if is_method:
            params = params[1:]
        kwonly = [a.arg for a in hdef.args.kwonlyargs]
        mapping: Dict[str, ast.AST] = {}
        pre: List[ast.stmt] = []
        bound: Dict[str, ast.AST] = {}
        defaults = hdef.args.defaults
        for i, p in enumerate(params[len(params) - len(defaults):]):
            bound[p] = defaults[i]
        for k, d in zip(hdef.args.kwonlyargs, hdef.args.kw_defaults):
            if d is not None:
                bound[k.arg] = d
        for p, a in zip(params, call.args):
            if isinstance(a, ast.Starred):
                return None
            bound[p] = a
        for k in call.keywords:
            if k.arg is None:
                return None
            bound[k.arg] = k.value
        if any(p not in bound for p in params + kwonly):
            return None
        local_names = _locals_of(hdef) - set(params) - set(kwonly)
        reassigned = {n.id for n in ast.walk(hdef) if isinstance(n, ast.Name) and isinstance(n.ctx, ast.Store)}
        rename = {n: tag + n for n in local_names}
        for p in params + kwonly:
            v = bound[p]
            if _simple_arg(v) and p not in reassigned:
                mapping[p] = v
            else:
                rename[p] = tag + p
                asg = ast.Assign(targets=[ast.Name(id=tag + p, ctx=ast.Store())], value=copy.deepcopy(v))
                ast.copy_location(asg, call)
                ast.fix_missing_locations(asg)
                pre.append(asg)
        body = [_Subst(mapping, rename).visit(copy.deepcopy(s)) for s in _body_wo_doc(hdef)]
        rets = [n for s in body for n in ast.walk(s) if isinstance(n, ast.Return)]
        retvar = tag + "ret"
        need_value = any(r.value is not None for r in rets)

        class _Ret(ast.NodeTransformer):
            def __init__(self, use_break: bool):
                self.use_break = use_break

            def visit_FunctionDef(self, node):
                return node
            visit_AsyncFunctionDef = visit_FunctionDef
            visit_Lambda = visit_FunctionDef

            def visit_Return(self, node: ast.Return):
                out: List[ast.stmt] = []
                val = node.value if node.value is not None else ast.Constant(value=None)
                a = ast.Assign(targets=[ast.Name(id=retvar, ctx=ast.Store())], value=val)
                ast.copy_location(a, node)
                ast.fix_missing_locations(a)
                out.append(a)
                if self.use_break:
                    b = ast.Break()
                    ast.copy_location(b, node)
                    out.append(b)
                return out
        trailing_only = len(rets) <= 1 and (not rets or (body and body[-1] is rets[0]))
        if trailing_only:
            new_body: List[ast.stmt] = []
            for s in body:
                r = _Ret(False).visit(s)
                new_body.extend(r if isinstance(r, list) else [r])
            stmts = pre + new_body
            if not rets and need_value is False:
                init = ast.Assign(targets=[ast.Name(id=retvar, ctx=ast.Store())], value=ast.Constant(value=None))
                ast.copy_location(init, call)
                ast.fix_missing_locations(init)
                stmts = [init] + stmts
        else:
            new_body = []
            for s in body:
                r = _Ret(True).visit(s)
                new_body.extend(r if isinstance(r, list) else [r])
            brk = ast.Break()
            ast.copy_location(brk, call)
            new_body.append(brk)
            loop = ast.While(test=ast.Constant(value=True), body=new_body, orelse=[])
            ast.copy_location(loop, call)
            init = ast.Assign(targets=[ast.Name(id=retvar, ctx=ast.Store())], value=ast.Constant(value=None))
            ast.copy_location(init, call)
            ast.fix_missing_locations(init)
            stmts = [init] + pre + [loop]
        for s in stmts:
            ast.fix_missing_locations(s)
        return stmts, retvar

    # -- driver ------------------------------------------------------------------------------------------------------------
    def process_module(self, tree: ast.Module, modname: str) -> int:
        cls_nodes: Dict[str, ast.ClassDef] = {}
        mod_funcs: Dict[str, ast.AST] = {}
        for s in tree.body:
            if isinstance(s, (ast.FunctionDef, ast.AsyncFunctionDef)):
                mod_funcs[s.name] = s
            elif isinstance(s, ast.ClassDef):
                cls_nodes[f"{modname}.{s.name}"] = s
        # any new function at all?
        newq: Set[str] = set()
        for name in mod_funcs:
            if f"{modname}.{name}" not in self.known:
                newq.add(f"{modname}.{name}")
        for cq, cd in cls_nodes.items():
            for s in cd.body:
                if isinstance(s, (ast.FunctionDef, ast.AsyncFunctionDef)) and f"{cq}.{s.name}" not in self.known:
                    newq.add(f"{cq}.{s.name}")
        if not newq:
            return 0
        n_inlined = 0
        for depth in range(3):
            changed = False
            targets: List[Tuple[ast.AST, Optional[str], str]] = [(f, None, f"{modname}.{f.name}") for f in mod_funcs.values()]
            for cq, cd in cls_nodes.items():
                targets += [(s, cq, f"{cq}.{s.name}") for s in cd.body if isinstance(s, (ast.FunctionDef, ast.AsyncFunctionDef))]
            for fdef, clsq, fq in targets:
                c = self._process_function(fdef, modname, clsq, cls_nodes, mod_funcs, fq)
                n_inlined += c
                changed |= c > 0
            if not changed:
                break
        return n_inlined

    def _process_function(self, fdef, modname, clsq, cls_nodes, mod_funcs, fq: str) -> int:
        count = 0

        def helper_of(e: ast.AST):
            inner = e.value if isinstance(e, ast.Await) else e
            if isinstance(inner, ast.Call):
                h = self._helper_for(inner.func, modname, clsq, cls_nodes, mod_funcs)
                if h is not None and h[0] != fq:
                    hq, hdef, is_m = h
                    if isinstance(hdef, ast.AsyncFunctionDef) != isinstance(e, ast.Await):
                        return None
                    return hq, hdef, is_m, inner
            return None

        def expand_block(stmts: List[ast.stmt]) -> List[ast.stmt]:
            nonlocal count
            out: List[ast.stmt] = []
            for s in stmts:
                # recurse into compound statements first
                for field in ("body", "orelse", "finalbody"):
                    if hasattr(s, field) and isinstance(getattr(s, field), list) and not isinstance(s, (ast.FunctionDef, ast.AsyncFunctionDef, ast.ClassDef)):
                        setattr(s, field, expand_block(getattr(s, field)))
                if isinstance(s, ast.Try):
                    for h in s.handlers:
                        h.body = expand_block(h.body)
                if isinstance(s, (ast.Assign, ast.AnnAssign, ast.Return)) and isinstance(getattr(s, "value", None), ast.IfExp) \
                        and (helper_of(s.value.body) or helper_of(s.value.orelse)) \
                        and not (isinstance(s, ast.Assign) and not all(isinstance(t, ast.Name) for t in s.targets)) \
                        and not (isinstance(s, ast.AnnAssign) and not isinstance(s.target, ast.Name)):
                    # x = A if c else B  ==  if c: x = A  else: x = B   (same evaluation order), so the helper call becomes a whole right-hand side
                    s1, s2 = copy.deepcopy(s), copy.deepcopy(s)
                    s1.value, s2.value = s.value.body, s.value.orelse
                    ifs = ast.If(test=s.value.test, body=[s1], orelse=[s2])
                    ast.copy_location(ifs, s)
                    ifs.body, ifs.orelse = expand_block(ifs.body), expand_block(ifs.orelse)
                    out.append(ifs)
                    continue
                target_expr = None
                if isinstance(s, ast.Expr):
                    target_expr = s.value
                elif isinstance(s, (ast.Assign, ast.AnnAssign, ast.AugAssign, ast.Return)) and getattr(s, "value", None) is not None:
                    target_expr = s.value
                h = helper_of(target_expr) if target_expr is not None else None
                if h is not None:
                    hq, hdef, is_m, call = h
                    r = self._stmt_form(hdef, is_m, call)
                    if r is not None:
                        stmts_in, retvar = r
                        count += 1
                        self.log.append(f"{fq} <- {hq} (statement form)")
                        out.extend(stmts_in)
                        if isinstance(s, ast.Expr):
                            continue
                        name = ast.Name(id=retvar, ctx=ast.Load())
                        ast.copy_location(name, call)
                        s.value = name
                        out.append(s)
                        continue
                    self.failed.append(f"{fq} <- {hq}: statement form not applicable")
                out.append(s)
            return out
        fdef.body = expand_block(fdef.body)

        # expression form (also for property reads) anywhere in the function
        class _E(ast.NodeTransformer):
            def __init__(self, outer: "Inliner"):
                self.o = outer

            def visit_FunctionDef(self, node):
                return node if node is not fdef else self.generic_visit(node)
            visit_AsyncFunctionDef = visit_FunctionDef

            def visit_Call(self, node: ast.Call):
                nonlocal count
                self.generic_visit(node)
                h = self.o._helper_for(node.func, modname, clsq, cls_nodes, mod_funcs)
                if h is not None and h[0] != fq and not isinstance(h[1], ast.AsyncFunctionDef):
                    e = self.o._expr_form(h[1], h[2], node.args, node.keywords)
                    if e is not None:
                        count += 1
                        self.o.log.append(f"{fq} <- {h[0]} (expression form)")
                        return e
                    self.o.failed.append(f"{fq} <- {h[0]}: call is inside a larger expression and the helper is not a single return")
                return node

            def visit_Attribute(self, node: ast.Attribute):
                nonlocal count
                self.generic_visit(node)
                if isinstance(node.ctx, ast.Load) and isinstance(node.value, ast.Name) and node.value.id == "self" and clsq:
                    cd = cls_nodes.get(clsq)
                    for s in (cd.body if cd is not None else []):
                        if isinstance(s, ast.FunctionDef) and s.name == node.attr and f"{clsq}.{s.name}" not in self.o.known \
                                and any((isinstance(d, ast.Name) and d.id == "property") for d in s.decorator_list) and f"{clsq}.{s.name}" != fq:
                            e = self.o._expr_form(s, True, [], [])
                            if e is not None:
                                count += 1
                                self.o.log.append(f"{fq} <- {clsq}.{s.name} (property, expression form)")
                                return e
                return node
        _E(self).visit(fdef)
        if count:
            _coalesce(fdef)
        return count


def _blocks(node: ast.AST):
    for field in ("body", "orelse", "finalbody"):
        b = getattr(node, field, None)
        if isinstance(b, list) and b and isinstance(b[0], ast.stmt):
            yield b
            for st in b:
                if not isinstance(st, (ast.FunctionDef, ast.AsyncFunctionDef, ast.ClassDef)):
                    yield from _blocks(st)
    for h in getattr(node, "handlers", []) or []:
        yield h.body
        for st in h.body:
            yield from _blocks(st)
    for c in getattr(node, "cases", []) or []:
        yield c.body
        for st in c.body:
            yield from _blocks(st)


def _coalesce(fdef) -> None:
    """``x = _inlN_tmp`` where that copy is the only definition of the plain local ``x``: call the temporary ``x`` from the start and drop
    the copy.  ``_inlN_*`` names are fresh, so nothing else can observe the difference."""
    a = fdef.args
    params = {x.arg for x in a.posonlyargs + a.args + a.kwonlyargs} | ({a.vararg.arg} if a.vararg else set()) | ({a.kwarg.arg} if a.kwarg else set())
    for _ in range(50):
        store_count: Dict[str, int] = {}
        for x in ast.walk(fdef):
            if isinstance(x, ast.Name) and isinstance(x.ctx, (ast.Store, ast.Del)):
                store_count[x.id] = store_count.get(x.id, 0) + 1
            elif isinstance(x, (ast.Global, ast.Nonlocal)):
                for nm in x.names:
                    store_count[nm] = store_count.get(nm, 0) + 10
        done = False
        for block in _blocks(fdef):
            for i, st in enumerate(block):
                tgt = None
                if isinstance(st, ast.Assign) and len(st.targets) == 1 and isinstance(st.targets[0], ast.Name):
                    tgt = st.targets[0].id
                elif isinstance(st, ast.AnnAssign) and isinstance(st.target, ast.Name) and st.value is not None:
                    tgt = st.target.id
                if tgt is None or not isinstance(st.value, ast.Name) or not st.value.id.startswith("_inl") or tgt in params \
                        or store_count.get(tgt, 0) != 1 or tgt == st.value.id:
                    continue
                old = st.value.id
                del block[i]
                if not block:
                    block.append(ast.copy_location(ast.Pass(), st))
                for x in ast.walk(fdef):
                    if isinstance(x, ast.Name) and x.id == old:
                        x.id = tgt
                done = True
                break
            if done:
                break
        if not done:
            return


def apply(tree: ast.Module, modname: str, known: Set[str]) -> Tuple[int, List[str], List[str]]:
    inl = Inliner(known)
    n = inl.process_module(tree, modname)
    if n:
        ast.fix_missing_locations(tree)
    return n, inl.log, inl.failed
