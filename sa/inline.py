"""Transparent inlining of *new* helper functions (the most common behaviour-preserving refactoring is "extract a helper").

The rules were written against the functions that exist in the pinned snapshot (``sa/known_functions.txt``).  A function whose
qualified name is not in that list is a helper somebody extracted later: before the rules run, every call of such a helper
from the same class (``self.h(...)``) or module (``h(...)``) is expanded in place, so dominance, pairing, same-value and
who-may-call rules keep seeing one function body.  Inlining is purely syntactic and semantics-preserving:

* expression form  -- helper body is a single ``return <expr>`` (also ``@property`` getters read as ``self.h``): the call is
  replaced by the expression with parameters substituted (arguments must be names / attributes / constants);
* statement form   -- the call is the whole right-hand side of an expression statement, assignment or return (optionally
  awaited for ``async def`` helpers): the body is spliced in with locals renamed, ``return e`` becoming ``ret = e`` followed
  by ``break`` out of a one-iteration ``while True`` wrapper (omitted when the helper has a single trailing return).

Copied nodes keep the source positions of the helper, so the mypy facts (joined on spans) still apply.  Helpers that cannot
be inlined (generators, ``return`` inside a loop, call buried in a larger expression, recursion) are left alone and reported,
and the analysis carries on with the un-inlined code.
"""
from __future__ import annotations

import ast
import copy
import os
from typing import Dict, List, Optional, Set, Tuple

KNOWN = os.path.join(os.path.dirname(os.path.abspath(__file__)), "known_functions.txt")


def load_known() -> Optional[Set[str]]:
    if not os.path.exists(KNOWN):
        return None
    with open(KNOWN) as f:
        return {l.strip() for l in f if l.strip()}


class _Subst(ast.NodeTransformer):
    def __init__(self, mapping: Dict[str, ast.AST], rename: Dict[str, str]):
        self.mapping, self.rename = mapping, rename

    def visit_Name(self, node: ast.Name) -> ast.AST:
        if node.id in self.mapping and isinstance(node.ctx, ast.Load):
            new = copy.deepcopy(self.mapping[node.id])
            return new
        if node.id in self.rename:
            return ast.copy_location(ast.Name(id=self.rename[node.id], ctx=node.ctx), node)
        return node

    def visit_Lambda(self, node: ast.Lambda) -> ast.AST:
        return node      # do not rename inside lambdas (their parameters could shadow); helpers here do not use them

    def visit_FunctionDef(self, node):  # nested defs: leave untouched
        return node
    visit_AsyncFunctionDef = visit_FunctionDef


def _walk_shallow(node: ast.AST):
    """ast.walk that does not enter nested function / lambda / class bodies"""
    stack = [node]
    while stack:
        n = stack.pop()
        yield n
        for c in ast.iter_child_nodes(n):
            if isinstance(c, (ast.FunctionDef, ast.AsyncFunctionDef, ast.Lambda, ast.ClassDef)):
                continue
            stack.append(c)


def _terminates(block: List[ast.stmt]) -> bool:
    """every path through the block ends in return / raise (continue / break do not count: they leave the helper's own loops only)"""
    if not block:
        return False
    last = block[-1]
    if isinstance(last, (ast.Return, ast.Raise)):
        return True
    if isinstance(last, ast.If):
        return _terminates(last.body) and _terminates(last.orelse)
    if isinstance(last, ast.Try) and not last.finalbody:
        return (_terminates(last.body) or (bool(last.orelse) and _terminates(last.orelse))) and all(_terminates(h.body) for h in last.handlers)
    if isinstance(last, (ast.With, ast.AsyncWith)):
        return _terminates(last.body)
    return False


def _structure_returns(block: List[ast.stmt]) -> Optional[List[ast.stmt]]:
    """Rewrite early returns into if/else so that every ``return`` is in tail position of the block (None when that is not possible:
    a return that is not reachable through if / try-without-finally / with nesting)."""
    out: List[ast.stmt] = []
    for i, st in enumerate(block):
        rest = block[i + 1:]
        has_ret = any(isinstance(x, ast.Return) for x in _walk_shallow(st))
        if not has_ret:
            out.append(st)
            continue
        if isinstance(st, ast.Return):
            out.append(st)
            return out                      # anything after it is dead
        if isinstance(st, ast.If):
            body_t, else_t = _terminates(st.body), _terminates(st.orelse)
            new = copy.copy(st)
            if body_t and else_t:
                b, e = _structure_returns(st.body), _structure_returns(st.orelse)
                if b is None or e is None:
                    return None
                new.body, new.orelse = b, e
                out.append(new)
                return out
            if body_t or else_t:
                # the terminating branch keeps its returns; everything that follows moves into the other branch
                t_branch = st.body if body_t else st.orelse
                o_branch = (st.orelse if body_t else st.body) + rest
                tb, ob = _structure_returns(t_branch), _structure_returns(o_branch)
                if tb is None or ob is None:
                    return None
                new.body, new.orelse = (tb, ob) if body_t else (ob or [ast.copy_location(ast.Pass(), st)], tb)
                out.append(new)
                return out
            # a return in a branch that may also fall through: give each branch its own copy of what follows (bounded duplication)
            if len(rest) <= 8:
                tb = _structure_returns(list(st.body) + [copy.deepcopy(x) for x in rest])
                ob = _structure_returns(list(st.orelse) + [copy.deepcopy(x) for x in rest])
                if tb is not None and ob is not None:
                    new.body, new.orelse = tb or [ast.copy_location(ast.Pass(), st)], ob
                    out.append(new)
                    return out
            return None
        if isinstance(st, ast.Try) and not st.finalbody and not rest:
            new = copy.copy(st)
            b = _structure_returns(st.body)
            hs = []
            for h in st.handlers:
                hb = _structure_returns(h.body)
                if hb is None:
                    return None
                h2 = copy.copy(h)
                h2.body = hb
                hs.append(h2)
            oe = _structure_returns(st.orelse) if st.orelse else []
            if b is None or oe is None:
                return None
            # a return in the try body must not be followed by an else clause
            if st.orelse and any(isinstance(x, ast.Return) for s2 in st.body for x in _walk_shallow(s2)):
                return None
            new.body, new.handlers, new.orelse = b, hs, oe
            out.append(new)
            return out
        if isinstance(st, (ast.With, ast.AsyncWith)) and not rest:
            new = copy.copy(st)
            b = _structure_returns(st.body)
            if b is None:
                return None
            new.body = b
            out.append(new)
            return out
        return None
    return out


def _tails(block: List[ast.stmt]):
    """(list, index) of every tail statement of a block structured by _structure_returns"""
    if not block:
        return
    last = block[-1]
    if isinstance(last, ast.If):
        yield from _tails(last.body)
        if last.orelse:
            yield from _tails(last.orelse)
        else:
            yield (block, len(block))       # implicit fall-through of a missing else: position after the if
    elif isinstance(last, ast.Try):
        if last.orelse:
            yield from _tails(last.orelse)
        else:
            yield from _tails(last.body)
        for h in last.handlers:
            yield from _tails(h.body)
    elif isinstance(last, (ast.With, ast.AsyncWith)):
        yield from _tails(last.body)
    else:
        yield (block, len(block) - 1)


class _ReplaceNode(ast.NodeTransformer):
    def __init__(self, old: ast.AST, new: ast.AST):
        self.old, self.new = old, new

    def visit(self, node):
        if node is self.old:
            return self.new
        return super().visit(node)


def _simple_arg(e: ast.AST) -> bool:
    if isinstance(e, (ast.Name, ast.Constant)):
        return True
    if isinstance(e, ast.Attribute):
        return _simple_arg(e.value)
    return False


def _body_wo_doc(fdef) -> List[ast.stmt]:
    body = list(fdef.body)
    if body and isinstance(body[0], ast.Expr) and isinstance(body[0].value, ast.Constant) and isinstance(body[0].value.value, str):
        body = body[1:]
    return body


def _locals_of(fdef) -> Set[str]:
    out: Set[str] = set()
    for n in ast.walk(fdef):
        if isinstance(n, ast.Name) and isinstance(n.ctx, (ast.Store, ast.Del)):
            out.add(n.id)
        elif isinstance(n, ast.ExceptHandler) and n.name:
            out.add(n.name)
    return out


def _has_yield(fdef) -> bool:
    return any(isinstance(n, (ast.Yield, ast.YieldFrom)) for n in ast.walk(fdef))


def _return_in_loop(fdef) -> bool:
    def rec(node, in_loop):
        for c in ast.iter_child_nodes(node):
            if isinstance(c, (ast.FunctionDef, ast.AsyncFunctionDef, ast.Lambda, ast.ClassDef)):
                continue
            if isinstance(c, ast.Return) and in_loop:
                return True
            if rec(c, in_loop or isinstance(c, (ast.For, ast.AsyncFor, ast.While))):
                return True
        return False
    return rec(fdef, False)


def import_aliases(tree: ast.Module, modname: str, is_pkg: bool, all_modules: Set[str]) -> Tuple[Dict[str, str], Dict[str, Tuple[str, str]]]:
    """(local name -> module it is bound to, local name -> (module, function) it is bound to) from the module's import statements."""
    mods: Dict[str, str] = {}
    funcs: Dict[str, Tuple[str, str]] = {}
    pkg = modname if is_pkg else modname.rsplit(".", 1)[0]
    for s in tree.body:
        if isinstance(s, ast.Import):
            for a in s.names:
                if a.name in all_modules and a.asname:
                    mods[a.asname] = a.name
        elif isinstance(s, ast.ImportFrom):
            base = s.module or ""
            if s.level:
                parts = pkg.split(".")
                parts = parts[:len(parts) - (s.level - 1)] if s.level > 1 else parts
                base = ".".join(parts + ([s.module] if s.module else []))
            for a in s.names:
                local = a.asname or a.name
                full = f"{base}.{a.name}"
                if full in all_modules:
                    mods[local] = full
                elif base in all_modules:
                    funcs[local] = (base, a.name)
    return mods, funcs


class Inliner:
    def __init__(self, known: Set[str], foreign: Optional[Dict[str, Dict[str, ast.AST]]] = None,
                 mod_aliases: Optional[Dict[str, str]] = None, func_aliases: Optional[Dict[str, Tuple[str, str]]] = None,
                 relpaths: Optional[Dict[str, str]] = None):
        self.known = known
        self.counter = 0
        self.log: List[str] = []
        self.failed: List[str] = []
        self.foreign = foreign or {}           # modname -> {new top-level function name -> def}
        self.mod_aliases = mod_aliases or {}
        self.func_aliases = func_aliases or {}
        self.relpaths = relpaths or {}
        self.closures: Dict[str, ast.AST] = {}
        self.last_structured = False
        self.src_of: Dict[int, str] = {}       # id(helper def) -> relpath of the module it comes from (foreign helpers only)

    # -- helper lookup -------------------------------------------------------------------------------------------------
    def _helper_for(self, call_func: ast.AST, modname: str, clsq: Optional[str], cls_nodes: Dict[str, ast.ClassDef],
                    mod_funcs: Dict[str, ast.AST]) -> Optional[Tuple[str, ast.AST, bool]]:
        """(qualname, def node, is_method) when ``call_func`` names a new helper of the same class / module."""
        if isinstance(call_func, ast.Attribute) and isinstance(call_func.value, ast.Name) and call_func.value.id == "self" and clsq:
            cd = cls_nodes.get(clsq)
            if cd is not None:
                for s in cd.body:
                    if isinstance(s, (ast.FunctionDef, ast.AsyncFunctionDef)) and s.name == call_func.attr:
                        q = f"{clsq}.{s.name}"
                        decos = {(d.id if isinstance(d, ast.Name) else getattr(d, "attr", "")) for d in s.decorator_list}
                        if decos - {"staticmethod"}:
                            return None          # classmethod / property / wrapped: not a plain call of the body
                        if q not in self.known:
                            return q, s, "staticmethod" not in decos
        if isinstance(call_func, ast.Name) and call_func.id in self.closures:
            return f"<closure>.{call_func.id}", self.closures[call_func.id], False
        if isinstance(call_func, ast.Name) and call_func.id in mod_funcs:
            q = f"{modname}.{call_func.id}"
            if q not in self.known:
                return q, mod_funcs[call_func.id], False
        # new top-level function of another module of the package, reached through an import alias
        tgt: Optional[Tuple[str, str]] = None
        if isinstance(call_func, ast.Attribute) and isinstance(call_func.value, ast.Name) and call_func.value.id in self.mod_aliases:
            tgt = (self.mod_aliases[call_func.value.id], call_func.attr)
        elif isinstance(call_func, ast.Name) and call_func.id in self.func_aliases:
            tgt = self.func_aliases[call_func.id]
        if tgt is not None and tgt[1] in self.foreign.get(tgt[0], {}) and tgt[0] != modname:
            hdef = self.foreign[tgt[0]][tgt[1]]
            # only helpers whose free names mean the same thing here: nothing module-private may be referenced
            self.src_of[id(hdef)] = self.relpaths.get(tgt[0], "")
            return f"{tgt[0]}.{tgt[1]}", hdef, False
        return None

    # -- expression form ---------------------------------------------------------------------------------------------------
    def _expr_form(self, hdef, is_method: bool, args: List[ast.AST], keywords: List[ast.keyword]) -> Optional[ast.AST]:
        body = _body_wo_doc(hdef)
        if len(body) != 1 or not isinstance(body[0], ast.Return) or body[0].value is None:
            return None
        params = [a.arg for a in hdef.args.posonlyargs + hdef.args.args]
        if is_method:
            params = params[1:]
        if hdef.args.vararg or hdef.args.kwarg or hdef.args.kwonlyargs:
            return None
        mapping: Dict[str, ast.AST] = {}
        defaults = hdef.args.defaults
        for i, p in enumerate(params[len(params) - len(defaults):]):
            mapping[p] = defaults[i]
        for p, a in zip(params, args):
            mapping[p] = a
        for k in keywords:
            if k.arg is None:
                return None
            mapping[k.arg] = k.value
        if any(p not in mapping for p in params) or not all(_simple_arg(v) for v in mapping.values()):
            return None
        if any(isinstance(n, ast.Name) and isinstance(n.ctx, ast.Store) for n in ast.walk(body[0].value)):
            pass
        expr = copy.deepcopy(body[0].value)
        self._mark_src(hdef, [expr])
        return _Subst(mapping, {}).visit(expr)

    def _mark_src(self, hdef, nodes: List[ast.AST]) -> None:
        src = self.src_of.get(id(hdef))
        if src:
            for r in nodes:
                for x in ast.walk(r):
                    x._src = src  # type: ignore[attr-defined]

    # -- statement form ----------------------------------------------------------------------------------------------------
    def _stmt_form(self, hdef, is_method: bool, call: ast.Call) -> Optional[Tuple[List[ast.stmt], Optional[str]]]:
        if _has_yield(hdef) or _return_in_loop(hdef):
            return None
        if hdef.args.vararg or hdef.args.kwarg:
            return None
        self.counter += 1
        tag = f"_inl{self.counter}_"
        params = [a.arg for a in hdef.args.posonlyargs + hdef.args.args]
        if is_method:
            params = params[1:]
        kwonly = [a.arg for a in hdef.args.kwonlyargs]
        mapping: Dict[str, ast.AST] = {}
        pre: List[ast.stmt] = []
        bound: Dict[str, ast.AST] = {}
        defaults = hdef.args.defaults
        for i, p in enumerate(params[len(params) - len(defaults):]):
            bound[p] = defaults[i]
        for k, d in zip(hdef.args.kwonlyargs, hdef.args.kw_defaults):
            if d is not None:
                bound[k.arg] = d
        for p, a in zip(params, call.args):
            if isinstance(a, ast.Starred):
                return None
            bound[p] = a
        for k in call.keywords:
            if k.arg is None:
                return None
            bound[k.arg] = k.value
        if any(p not in bound for p in params + kwonly):
            return None
        local_names = _locals_of(hdef) - set(params) - set(kwonly)
        reassigned = {n.id for n in ast.walk(hdef) if isinstance(n, ast.Name) and isinstance(n.ctx, ast.Store)}
        rename = {n: tag + n for n in local_names}
        for p in params + kwonly:
            v = bound[p]
            if _simple_arg(v) and p not in reassigned:
                mapping[p] = v
            else:
                rename[p] = tag + p
                asg = ast.Assign(targets=[ast.Name(id=tag + p, ctx=ast.Store())], value=copy.deepcopy(v))
                ast.copy_location(asg, call)
                ast.fix_missing_locations(asg)
                pre.append(asg)
        copies = [copy.deepcopy(s) for s in _body_wo_doc(hdef)]
        self._mark_src(hdef, copies)
        body = [_Subst(mapping, rename).visit(c) for c in copies]
        rets = [n for s in body for n in _walk_shallow(s) if isinstance(n, ast.Return)]
        retvar = tag + "ret"
        need_value = any(r.value is not None for r in rets)

        class _Ret(ast.NodeTransformer):
            def __init__(self, use_break: bool):
                self.use_break = use_break

            def visit_FunctionDef(self, node):
                return node
            visit_AsyncFunctionDef = visit_FunctionDef
            visit_Lambda = visit_FunctionDef

            def visit_Return(self, node: ast.Return):
                out: List[ast.stmt] = []
                val = node.value if node.value is not None else ast.Constant(value=None)
                a = ast.Assign(targets=[ast.Name(id=retvar, ctx=ast.Store())], value=val)
                ast.copy_location(a, node)
                ast.fix_missing_locations(a)
                out.append(a)
                if self.use_break:
                    b = ast.Break()
                    ast.copy_location(b, node)
                    out.append(b)
                return out
        trailing_only = len(rets) <= 1 and (not rets or (body and body[-1] is rets[0]))
        structured = None if trailing_only else _structure_returns(body)
        if structured is not None:
            # every return is now the last statement of its branch: ``return e`` becomes ``ret = e`` and control simply falls out
            new_body = []
            for s in structured:
                r = _Ret(False).visit(s)
                new_body.extend(r if isinstance(r, list) else [r])
            init = ast.Assign(targets=[ast.Name(id=retvar, ctx=ast.Store())], value=ast.Constant(value=None))
            ast.copy_location(init, call)
            stmts = [init] + pre + new_body
            self.last_structured = True
        elif trailing_only:
            new_body: List[ast.stmt] = []
            for s in body:
                r = _Ret(False).visit(s)
                new_body.extend(r if isinstance(r, list) else [r])
            stmts = pre + new_body
            if not rets and need_value is False:
                init = ast.Assign(targets=[ast.Name(id=retvar, ctx=ast.Store())], value=ast.Constant(value=None))
                ast.copy_location(init, call)
                ast.fix_missing_locations(init)
                stmts = [init] + stmts
        else:
            new_body = []
            for s in body:
                r = _Ret(True).visit(s)
                new_body.extend(r if isinstance(r, list) else [r])
            brk = ast.Break()
            ast.copy_location(brk, call)
            new_body.append(brk)
            loop = ast.While(test=ast.Constant(value=True), body=new_body, orelse=[])
            ast.copy_location(loop, call)
            init = ast.Assign(targets=[ast.Name(id=retvar, ctx=ast.Store())], value=ast.Constant(value=None))
            ast.copy_location(init, call)
            ast.fix_missing_locations(init)
            stmts = [init] + pre + [loop]
        if structured is None:
            self.last_structured = False
        for s in stmts:
            ast.fix_missing_locations(s)
        return stmts, retvar

    # -- driver ------------------------------------------------------------------------------------------------------------
    def process_module(self, tree: ast.Module, modname: str) -> int:
        cls_nodes: Dict[str, ast.ClassDef] = {}
        mod_funcs: Dict[str, ast.AST] = {}
        for s in tree.body:
            if isinstance(s, (ast.FunctionDef, ast.AsyncFunctionDef)):
                mod_funcs[s.name] = s
            elif isinstance(s, ast.ClassDef):
                cls_nodes[f"{modname}.{s.name}"] = s
        # any new function at all?
        newq: Set[str] = set()
        for name in mod_funcs:
            if f"{modname}.{name}" not in self.known:
                newq.add(f"{modname}.{name}")
        for cq, cd in cls_nodes.items():
            for s in cd.body:
                if isinstance(s, (ast.FunctionDef, ast.AsyncFunctionDef)) and f"{cq}.{s.name}" not in self.known:
                    newq.add(f"{cq}.{s.name}")
        n_inlined = 0
        for depth in range(3):
            changed = False
            targets: List[Tuple[ast.AST, Optional[str], str]] = [(f, None, f"{modname}.{f.name}") for f in mod_funcs.values()]
            for cq, cd in cls_nodes.items():
                targets += [(s, cq, f"{cq}.{s.name}") for s in cd.body if isinstance(s, (ast.FunctionDef, ast.AsyncFunctionDef))]
            for fdef, clsq, fq in targets:
                c = self._process_function(fdef, modname, clsq, cls_nodes, mod_funcs, fq)
                n_inlined += c
                changed |= c > 0
            if not changed:
                break
        return n_inlined

    def _process_function(self, fdef, modname, clsq, cls_nodes, mod_funcs, fq: str) -> int:
        count = 0
        nun = unroll_literal_loops(fdef)
        if nun:
            self.log.append(f"{fq}: {nun} loop(s) over a literal table unrolled")
        # closures that never escape: a nested def whose name only ever appears as the callee of a direct call.  Inlining them is the
        # canonical form the rules see, whether or not the snapshot already had them (a closure and a private method are then the same).
        self.closures = {}
        for st in fdef.body:
            if isinstance(st, (ast.FunctionDef, ast.AsyncFunctionDef)) and not st.decorator_list \
                    and not any(isinstance(x, (ast.Nonlocal, ast.Global)) for x in ast.walk(st)):
                uses = [x for x in ast.walk(fdef) if isinstance(x, ast.Name) and x.id == st.name and isinstance(x.ctx, ast.Load)]
                callee_uses = [c.func for c in ast.walk(fdef) if isinstance(c, ast.Call) and isinstance(c.func, ast.Name) and c.func.id == st.name]
                inside_self = [x for x in ast.walk(st) if isinstance(x, ast.Name) and x.id == st.name]
                if uses and len(uses) == len(callee_uses) and not inside_self:
                    self.closures[st.name] = st

        def helper_of(e: ast.AST):
            inner = e.value if isinstance(e, ast.Await) else e
            if isinstance(inner, ast.Call):
                h = self._helper_for(inner.func, modname, clsq, cls_nodes, mod_funcs)
                if h is not None and h[0] != fq:
                    hq, hdef, is_m = h
                    if isinstance(hdef, ast.AsyncFunctionDef) != isinstance(e, ast.Await):
                        return None
                    return hq, hdef, is_m, inner
            return None

        def is_helper_expr(e: ast.AST) -> bool:
            return helper_of(e) is not None

        def first_eval(e: Optional[ast.AST], depth: int = 0) -> Optional[ast.AST]:
            """the helper call that is evaluated before anything else with an effect in ``e`` (or None)"""
            if e is None or depth > 8:
                return None
            if isinstance(e, (ast.Call, ast.Await)) and is_helper_expr(e):
                inner = e.value if isinstance(e, ast.Await) else e
                if all(_simple_arg(a) for a in inner.args) and all(k.arg and _simple_arg(k.value) for k in inner.keywords):
                    return e
                return None
            if isinstance(e, ast.UnaryOp):
                return first_eval(e.operand, depth + 1)
            if isinstance(e, ast.BoolOp):
                return first_eval(e.values[0], depth + 1)
            if isinstance(e, ast.Compare):
                return first_eval(e.left, depth + 1)
            if isinstance(e, ast.BinOp):
                return first_eval(e.left, depth + 1)
            if isinstance(e, ast.IfExp):
                return first_eval(e.test, depth + 1)
            if isinstance(e, (ast.Attribute, ast.Subscript, ast.Starred, ast.FormattedValue, ast.Await)):
                return first_eval(e.value, depth + 1)
            if isinstance(e, (ast.Tuple, ast.List, ast.Set)) and e.elts:
                return first_eval(e.elts[0], depth + 1)
            if isinstance(e, ast.Call):
                if not _simple_arg(e.func):
                    return first_eval(e.func, depth + 1)
                if e.args:
                    return first_eval(e.args[0], depth + 1)
                if e.keywords:
                    return first_eval(e.keywords[0].value, depth + 1)
            return None

        def hoist(s: ast.stmt, holder: str, out: List[ast.stmt]) -> bool:
            """``s.<holder>`` contains a helper call that is evaluated first: compute it in statement form before ``s``"""
            nonlocal count
            e = getattr(s, holder, None)
            fe = first_eval(e)
            if fe is None:
                return False
            h = helper_of(fe)
            if h is None:
                return False
            hq, hdef, is_m, call = h
            r = self._stmt_form(hdef, is_m, call)
            if r is None:
                return False
            stmts_in, retvar = r
            count += 1
            self.log.append(f"{fq} <- {hq} (statement form, hoisted out of a larger expression where it is evaluated first)")
            out.extend(stmts_in)
            name = ast.Name(id=retvar, ctx=ast.Load())
            ast.copy_location(name, call)
            setattr(s, holder, _ReplaceNode(fe, name).visit(e))
            return True

        def expand_block(stmts: List[ast.stmt]) -> List[ast.stmt]:
            nonlocal count
            out: List[ast.stmt] = []
            for s in stmts:
                # recurse into compound statements first
                for field in ("body", "orelse", "finalbody"):
                    if hasattr(s, field) and isinstance(getattr(s, field), list) and not isinstance(s, (ast.FunctionDef, ast.AsyncFunctionDef, ast.ClassDef)):
                        setattr(s, field, expand_block(getattr(s, field)))
                if isinstance(s, ast.Try):
                    for h in s.handlers:
                        h.body = expand_block(h.body)
                if isinstance(s, (ast.Assign, ast.AnnAssign, ast.Return)) and isinstance(getattr(s, "value", None), ast.IfExp) \
                        and (helper_of(s.value.body) or helper_of(s.value.orelse)) \
                        and not (isinstance(s, ast.Assign) and not all(isinstance(t, ast.Name) for t in s.targets)) \
                        and not (isinstance(s, ast.AnnAssign) and not isinstance(s.target, ast.Name)):
                    # x = A if c else B  ==  if c: x = A  else: x = B   (same evaluation order), so the helper call becomes a whole right-hand side
                    s1, s2 = copy.deepcopy(s), copy.deepcopy(s)
                    s1.value, s2.value = s.value.body, s.value.orelse
                    ifs = ast.If(test=s.value.test, body=[s1], orelse=[s2])
                    ast.copy_location(ifs, s)
                    ifs.body, ifs.orelse = expand_block(ifs.body), expand_block(ifs.orelse)
                    out.append(ifs)
                    continue
                target_expr = None
                if isinstance(s, ast.Expr):
                    target_expr = s.value
                elif isinstance(s, (ast.Assign, ast.AnnAssign, ast.AugAssign, ast.Return)) and getattr(s, "value", None) is not None:
                    target_expr = s.value
                h = helper_of(target_expr) if target_expr is not None else None
                if h is not None:
                    hq, hdef, is_m, call = h
                    r = self._stmt_form(hdef, is_m, call)
                    if r is not None:
                        stmts_in, retvar = r
                        count += 1
                        self.log.append(f"{fq} <- {hq} (statement form)")
                        if isinstance(s, ast.Expr):
                            stmts_in = [x for x in stmts_in if not (isinstance(x, ast.Assign) and isinstance(x.targets[0], ast.Name) and x.targets[0].id == retvar
                                                                    and isinstance(x.value, ast.Constant) and x.value.value is None)]
                        out.extend(stmts_in)
                        if isinstance(s, ast.Expr):
                            continue
                        name = ast.Name(id=retvar, ctx=ast.Load())
                        ast.copy_location(name, call)
                        s.value = name
                        out.append(s)
                        continue
                    self.failed.append(f"{fq} <- {hq}: statement form not applicable")
                elif isinstance(s, (ast.Expr, ast.Assign, ast.AnnAssign, ast.Return)) and getattr(s, "value", None) is not None:
                    hoist(s, "value", out)
                elif isinstance(s, ast.If):
                    hoist(s, "test", out)
                elif isinstance(s, (ast.For, ast.AsyncFor)):
                    hoist(s, "iter", out)
                out.append(s)
            return out
        fdef.body = expand_block(fdef.body)
        # closures whose calls were all expanded are dropped
        for nm, cdef in list(self.closures.items()):
            if not any(isinstance(x, ast.Name) and x.id == nm for st in fdef.body if st is not cdef for x in ast.walk(st)) and cdef in fdef.body:
                fdef.body.remove(cdef)
                self.log.append(f"{fq}: closure {nm} fully inlined")
        self.closures = {}

        # expression form (also for property reads) anywhere in the function
        class _E(ast.NodeTransformer):
            def __init__(self, outer: "Inliner"):
                self.o = outer

            def visit_FunctionDef(self, node):
                return node if node is not fdef else self.generic_visit(node)
            visit_AsyncFunctionDef = visit_FunctionDef

            def visit_Call(self, node: ast.Call):
                nonlocal count
                self.generic_visit(node)
                h = self.o._helper_for(node.func, modname, clsq, cls_nodes, mod_funcs)
                if h is not None and h[0] != fq and not isinstance(h[1], ast.AsyncFunctionDef):
                    e = self.o._expr_form(h[1], h[2], node.args, node.keywords)
                    if e is not None:
                        count += 1
                        self.o.log.append(f"{fq} <- {h[0]} (expression form)")
                        return e
                    self.o.failed.append(f"{fq} <- {h[0]}: call is inside a larger expression and the helper is not a single return")
                return node

            def visit_Attribute(self, node: ast.Attribute):
                nonlocal count
                self.generic_visit(node)
                if isinstance(node.ctx, ast.Load) and isinstance(node.value, ast.Name) and node.value.id == "self" and clsq:
                    cd = cls_nodes.get(clsq)
                    for s in (cd.body if cd is not None else []):
                        if isinstance(s, ast.FunctionDef) and s.name == node.attr and f"{clsq}.{s.name}" not in self.o.known \
                                and any((isinstance(d, ast.Name) and d.id == "property") for d in s.decorator_list) and f"{clsq}.{s.name}" != fq:
                            e = self.o._expr_form(s, True, [], [])
                            if e is not None:
                                count += 1
                                self.o.log.append(f"{fq} <- {clsq}.{s.name} (property, expression form)")
                                return e
                return node
        _E(self).visit(fdef)
        if count:
            _coalesce(fdef)
            _scalar_replace_records(fdef, cls_nodes)
            if _thread_flags(fdef):
                self.log.append(f"{fq}: boolean result of an inlined predicate threaded into its branches")
        return count


def _blocks(node: ast.AST):
    for field in ("body", "orelse", "finalbody"):
        b = getattr(node, field, None)
        if isinstance(b, list) and b and isinstance(b[0], ast.stmt):
            yield b
            for st in b:
                if not isinstance(st, (ast.FunctionDef, ast.AsyncFunctionDef, ast.ClassDef)):
                    yield from _blocks(st)
    for h in getattr(node, "handlers", []) or []:
        yield h.body
        for st in h.body:
            yield from _blocks(st)
    for c in getattr(node, "cases", []) or []:
        yield c.body
        for st in c.body:
            yield from _blocks(st)


def unroll_literal_loops(fdef) -> int:
    """``for a, b in ((x1, y1), (x2, y2)): BODY`` with simple element expressions == BODY[a:=x1, b:=y1]; BODY[a:=x2, b:=y2].
    Table-driven code and its spelled-out form become the same statements (the table may also be a single-definition local used only
    as the loop's iterable)."""
    done = 0
    for _ in range(10):
        changed = False
        for block in _blocks(fdef):
            for i, st in enumerate(block):
                if not isinstance(st, ast.For) or st.orelse:
                    continue
                it = st.iter
                table_def = None
                if isinstance(it, ast.Name):
                    stores = [x for x in ast.walk(fdef) if isinstance(x, ast.Name) and x.id == it.id and isinstance(x.ctx, ast.Store)]
                    loads = [x for x in ast.walk(fdef) if isinstance(x, ast.Name) and x.id == it.id and isinstance(x.ctx, ast.Load)]
                    cands = [b for b in block[:i] if isinstance(b, (ast.Assign, ast.AnnAssign)) and getattr(b, "value", None) is not None
                             and isinstance(b.targets[0] if isinstance(b, ast.Assign) else b.target, ast.Name)
                             and (b.targets[0] if isinstance(b, ast.Assign) else b.target).id == it.id]
                    if len(stores) == 1 and len(loads) == 1 and len(cands) == 1:
                        table_def = cands[0]
                        it = table_def.value
                if not isinstance(it, (ast.Tuple, ast.List)) or not it.elts or len(it.elts) > 8:
                    continue
                tgt = st.target
                names = [tgt.id] if isinstance(tgt, ast.Name) else ([e.id for e in tgt.elts] if isinstance(tgt, (ast.Tuple, ast.List))
                                                                       and all(isinstance(e, ast.Name) for e in tgt.elts) else None)
                if names is None:
                    continue
                rows = []
                for el in it.elts:
                    vals = [el] if isinstance(tgt, ast.Name) else (list(el.elts) if isinstance(el, (ast.Tuple, ast.List)) and len(el.elts) == len(names) else None)
                    if vals is None or not all(_simple_arg(v) for v in vals):
                        rows = None
                        break
                    rows.append(vals)
                if not rows:
                    continue
                # the loop variables must not be written in the body, nor read after the loop; no break/continue of this loop
                body_nodes = [x for b in st.body for x in _walk_shallow(b)]
                if any(isinstance(x, ast.Name) and x.id in names and isinstance(x.ctx, (ast.Store, ast.Del)) for x in body_nodes):
                    continue

                def own_jump(stmts) -> bool:
                    for b in stmts:
                        if isinstance(b, (ast.Break, ast.Continue)):
                            return True
                        if isinstance(b, (ast.For, ast.AsyncFor, ast.While, ast.FunctionDef, ast.AsyncFunctionDef, ast.ClassDef)):
                            continue
                        for f in ("body", "orelse", "finalbody"):
                            if own_jump(getattr(b, f, []) or []):
                                return True
                        if any(own_jump(h.body) for h in getattr(b, "handlers", []) or []):
                            return True
                    return False
                if own_jump(st.body):
                    continue
                after = [x for b in block[i + 1:] for x in ast.walk(b) if isinstance(x, ast.Name) and x.id in names and isinstance(x.ctx, ast.Load)]
                if after:
                    continue
                new: List[ast.stmt] = []
                for vals in rows:
                    mapping = dict(zip(names, vals))
                    for b in st.body:
                        new.append(_Subst(mapping, {}).visit(copy.deepcopy(b)))
                block[i:i + 1] = new
                if table_def is not None:
                    block.remove(table_def)
                for x in new:
                    ast.fix_missing_locations(x)
                changed = True
                done += 1
                break
            if changed:
                break
        if not changed:
            break
    return done


def _thread_flags(fdef) -> int:
    """``<structured block whose tails set _inlN_ret = True/False>; if [not] _inlN_ret: A else: B`` where the flag has no other use:
    put A / B at the tails and drop the flag (jump threading).  The statements executed on every path are the same, in the same order."""
    done = 0
    for _ in range(20):
        changed = False
        for block in _blocks(fdef):
            for i, st in enumerate(block):
                if not isinstance(st, ast.If) or i == 0:
                    continue
                t, neg = st.test, False
                if isinstance(t, ast.UnaryOp) and isinstance(t.op, ast.Not):
                    t, neg = t.operand, True
                if not (isinstance(t, ast.Name) and t.id.startswith("_inl") and t.id.endswith("_ret")):
                    continue
                var = t.id
                loads = [x for x in ast.walk(fdef) if isinstance(x, ast.Name) and x.id == var and isinstance(x.ctx, ast.Load)]
                if len(loads) != 1:
                    continue
                prev = block[i - 1]
                stores = [x for x in ast.walk(fdef) if isinstance(x, ast.Name) and x.id == var and isinstance(x.ctx, ast.Store)]
                inside = [x for x in ast.walk(prev) if isinstance(x, ast.Name) and x.id == var and isinstance(x.ctx, ast.Store)]
                inits = [b for b in block[:i - 1] if isinstance(b, ast.Assign) and isinstance(b.targets[0], ast.Name) and b.targets[0].id == var
                         and isinstance(b.value, ast.Constant) and b.value.value is None]
                if len(stores) != len(inside) + len(inits) or not inside:
                    continue
                tails = list(_tails([prev]))
                ok = True
                for tb, ti in tails:
                    if ti >= len(tb):
                        ok = False
                        break
                    a = tb[ti]
                    if not (isinstance(a, ast.Assign) and isinstance(a.targets[0], ast.Name) and a.targets[0].id == var
                            and isinstance(a.value, ast.Constant) and (a.value.value is None or isinstance(a.value.value, bool))):
                        ok = False
                        break
                if not ok or len(tails) != len(inside):
                    continue
                for tb, ti in tails:
                    val = bool(tb[ti].value.value)
                    taken = st.body if (val != neg) else st.orelse
                    repl = [copy.deepcopy(x) for x in taken] or [ast.copy_location(ast.Pass(), tb[ti])]
                    tb[ti:ti + 1] = repl
                for b in inits:
                    block.remove(b)
                block.remove(st)
                changed = True
                done += 1
                break
            if changed:
                break
        if not changed:
            break
    return done


def _scalar_replace_records(fdef, cls_nodes: Dict[str, ast.ClassDef]) -> int:
    """``w = Rec(a, b, c)`` (Rec a NamedTuple / dataclass of this module, built from plain names by an inlined helper) whose only uses are
    ``w.field`` reads: read the fields straight from a, b, c and drop the record (scalar replacement of aggregates)."""
    recs: Dict[str, List[str]] = {}
    for q, cd in cls_nodes.items():
        is_nt = any((isinstance(b, ast.Name) and b.id == "NamedTuple") or (isinstance(b, ast.Attribute) and b.attr == "NamedTuple") for b in cd.bases)
        is_dc = any((isinstance(d, ast.Name) and d.id == "dataclass") or (isinstance(d, ast.Attribute) and d.attr == "dataclass")
                    or (isinstance(d, ast.Call) and ((isinstance(d.func, ast.Name) and d.func.id == "dataclass") or (isinstance(d.func, ast.Attribute) and d.func.attr == "dataclass")))
                    for d in cd.decorator_list)
        if is_nt or is_dc:
            recs[cd.name] = [st.target.id for st in cd.body if isinstance(st, ast.AnnAssign) and isinstance(st.target, ast.Name)]
    if not recs:
        return 0
    done = 0
    for block in list(_blocks(fdef)):
        for st in list(block):
            if not (isinstance(st, (ast.Assign, ast.AnnAssign)) and getattr(st, "value", None) is not None and isinstance(st.value, ast.Call)
                    and isinstance(st.value.func, ast.Name) and st.value.func.id in recs):
                continue
            tgt = st.targets[0] if isinstance(st, ast.Assign) else st.target
            if not isinstance(tgt, ast.Name):
                continue
            var, fields, call = tgt.id, recs[st.value.func.id], st.value
            if any(isinstance(a, ast.Starred) for a in call.args) or any(k.arg is None for k in call.keywords):
                continue
            vals: Dict[str, ast.AST] = {f: a for f, a in zip(fields, call.args)}
            vals.update({k.arg: k.value for k in call.keywords})
            if set(vals) != set(fields) or not all(isinstance(v, (ast.Name, ast.Constant)) for v in vals.values()):
                continue
            stores = [x for x in ast.walk(fdef) if isinstance(x, ast.Name) and x.id == var and isinstance(x.ctx, (ast.Store, ast.Del))]
            loads = [x for x in ast.walk(fdef) if isinstance(x, ast.Name) and x.id == var and isinstance(x.ctx, ast.Load)]
            attr_reads = [x for x in ast.walk(fdef) if isinstance(x, ast.Attribute) and isinstance(x.value, ast.Name) and x.value.id == var
                          and isinstance(x.ctx, ast.Load) and x.attr in vals]
            if len(stores) != 1 or len(loads) != len(attr_reads) or not loads:
                continue
            # the names the record was built from keep their value afterwards (they are the inlined helper's locals)
            arg_names = {v.id for v in vals.values() if isinstance(v, ast.Name)}
            idx = block.index(st)
            later_stores = [x for b in block[idx + 1:] for x in ast.walk(b) if isinstance(x, ast.Name) and x.id in arg_names and isinstance(x.ctx, (ast.Store, ast.Del))]
            if later_stores or block is not fdef.body and False:
                continue

            class R(ast.NodeTransformer):
                def visit_Attribute(self, node: ast.Attribute):
                    self.generic_visit(node)
                    if isinstance(node.value, ast.Name) and node.value.id == var and isinstance(node.ctx, ast.Load) and node.attr in vals:
                        return ast.copy_location(copy.deepcopy(vals[node.attr]), node)
                    return node
            for b in block[idx + 1:]:
                R().visit(b)
            if any(isinstance(x, ast.Name) and x.id == var and isinstance(x.ctx, ast.Load) for x in ast.walk(fdef)):
                continue        # some read sits outside this block: leave the record in place (reads already replaced are equivalent)
            block.remove(st)
            done += 1
    return done


def _coalesce(fdef) -> None:
    """``x = _inlN_tmp`` where that copy is the only definition of the plain local ``x``: call the temporary ``x`` from the start and drop
    the copy.  ``_inlN_*`` names are fresh, so nothing else can observe the difference."""
    a = fdef.args
    params = {x.arg for x in a.posonlyargs + a.args + a.kwonlyargs} | ({a.vararg.arg} if a.vararg else set()) | ({a.kwarg.arg} if a.kwarg else set())
    # x1, .., xn = _inlK_ret  with the single definition  _inlK_ret = (y1, .., yn)  of plain names:  x1 = y1; ..; xn = yn
    for block in list(_blocks(fdef)):
        for i, st in enumerate(list(block)):
            if isinstance(st, ast.Assign) and len(st.targets) == 1 and isinstance(st.targets[0], (ast.Tuple, ast.List)) and isinstance(st.value, ast.Name) \
                    and st.value.id.startswith("_inl") and all(isinstance(e, ast.Name) for e in st.targets[0].elts):
                var = st.value.id
                defs_ = [(b, j, d) for b in _blocks(fdef) for j, d in enumerate(b) if isinstance(d, ast.Assign) and len(d.targets) == 1
                         and isinstance(d.targets[0], ast.Name) and d.targets[0].id == var]
                real = [(b, j, d) for (b, j, d) in defs_ if not (isinstance(d.value, ast.Constant) and d.value.value is None)]
                loads = [x for x in ast.walk(fdef) if isinstance(x, ast.Name) and x.id == var and isinstance(x.ctx, ast.Load)]
                if len(real) == 1 and len(loads) == 1 and isinstance(real[0][2].value, ast.Tuple) and len(real[0][2].value.elts) == len(st.targets[0].elts) \
                        and all(_simple_arg(e) for e in real[0][2].value.elts) and real[0][0] is block:
                    news = []
                    for t_, v_ in zip(st.targets[0].elts, real[0][2].value.elts):
                        asg = ast.Assign(targets=[ast.Name(id=t_.id, ctx=ast.Store())], value=copy.deepcopy(v_))
                        ast.copy_location(asg, st)
                        ast.fix_missing_locations(asg)
                        news.append(asg)
                    idx = block.index(st)
                    block[idx:idx + 1] = news
                    for (b, j, d) in defs_:
                        if d in b:
                            b.remove(d)
    for _ in range(50):
        store_count: Dict[str, int] = {}
        for x in ast.walk(fdef):
            if isinstance(x, ast.Name) and isinstance(x.ctx, (ast.Store, ast.Del)):
                store_count[x.id] = store_count.get(x.id, 0) + 1
            elif isinstance(x, (ast.Global, ast.Nonlocal)):
                for nm in x.names:
                    store_count[nm] = store_count.get(nm, 0) + 10
        done = False
        for block in _blocks(fdef):
            for i, st in enumerate(block):
                tgt = None
                if isinstance(st, ast.Assign) and len(st.targets) == 1 and isinstance(st.targets[0], ast.Name):
                    tgt = st.targets[0].id
                elif isinstance(st, ast.AnnAssign) and isinstance(st.target, ast.Name) and st.value is not None:
                    tgt = st.target.id
                if tgt is None or not isinstance(st.value, ast.Name) or not st.value.id.startswith("_inl") or tgt in params \
                        or store_count.get(tgt, 0) != 1 or tgt == st.value.id:
                    continue
                old = st.value.id
                del block[i]
                if not block:
                    block.append(ast.copy_location(ast.Pass(), st))
                for x in ast.walk(fdef):
                    if isinstance(x, ast.Name) and x.id == old:
                        x.id = tgt
                done = True
                break
            if done:
                break
        if not done:
            break
    # x = x left behind by two-step coalescing
    for block in _blocks(fdef):
        for st in list(block):
            if isinstance(st, ast.Assign) and len(st.targets) == 1 and isinstance(st.targets[0], ast.Name) and isinstance(st.value, ast.Name) \
                    and st.targets[0].id == st.value.id and len(block) > 1:
                block.remove(st)


KNOWN_GLOBALS = os.path.join(os.path.dirname(os.path.abspath(__file__)), "known_globals.txt")
_MUTATORS = {"append", "extend", "insert", "pop", "remove", "clear", "update", "setdefault", "popitem", "add", "discard", "sort", "reverse",
             "appendleft", "popleft", "__setitem__", "__delitem__"}


def load_known_globals() -> Set[str]:
    if not os.path.exists(KNOWN_GLOBALS):
        return set()
    with open(KNOWN_GLOBALS) as f:
        return {l.strip() for l in f if l.strip()}


def _literal(e: ast.AST) -> bool:
    if isinstance(e, ast.Constant):
        return True
    if isinstance(e, (ast.Tuple, ast.List, ast.Set)):
        return all(_literal(x) for x in e.elts)
    if isinstance(e, ast.Dict):
        return all(k is not None and _literal(k) and _literal(v) for k, v in zip(e.keys, e.values))
    if isinstance(e, ast.Attribute):       # codecs.BOM_UTF8, decimal.ROUND_DOWN: a dotted name
        return _simple_arg(e)
    if isinstance(e, ast.UnaryOp) and isinstance(e.op, ast.USub):
        return _literal(e.operand)
    return False


def propagate_new_constants(tree: ast.Module, modname: str, known_globals: Set[str], all_trees: List[ast.Module]) -> List[str]:
    """A module-level name that the pinned snapshot does not have, bound once to a literal and never mutated or re-exported (a table
    somebody hoisted out of a function): its reads inside this module's functions are replaced by the literal again."""
    log: List[str] = []
    for st in list(tree.body):
        tgt = None
        if isinstance(st, ast.Assign) and len(st.targets) == 1 and isinstance(st.targets[0], ast.Name):
            tgt = st.targets[0].id
        elif isinstance(st, ast.AnnAssign) and isinstance(st.target, ast.Name) and st.value is not None:
            tgt = st.target.id
        if tgt is None or f"{modname}.{tgt}" in known_globals or not _literal(st.value) or isinstance(st.value, ast.Constant):
            continue
        stores = [x for x in ast.walk(tree) if isinstance(x, ast.Name) and x.id == tgt and isinstance(x.ctx, (ast.Store, ast.Del))]
        if len(stores) != 1:
            continue
        loads = [x for x in ast.walk(tree) if isinstance(x, ast.Name) and x.id == tgt and isinstance(x.ctx, ast.Load)]
        bad = False
        # parents are not linked yet: look at every construct that could mutate or alias it
        for x in ast.walk(tree):
            if isinstance(x, ast.Call) and isinstance(x.func, ast.Attribute) and isinstance(x.func.value, ast.Name) and x.func.value.id == tgt \
                    and x.func.attr in _MUTATORS:
                bad = True
            if isinstance(x, (ast.Subscript, ast.Attribute)) and isinstance(x.ctx, (ast.Store, ast.Del)) and isinstance(x.value, ast.Name) and x.value.id == tgt:
                bad = True
            if isinstance(x, (ast.Global, ast.Nonlocal)) and tgt in x.names:
                bad = True
            if isinstance(x, ast.AugAssign) and isinstance(x.target, ast.Name) and x.target.id == tgt:
                bad = True
        for t in all_trees:
            if t is tree:
                continue
            for x in ast.walk(t):
                if isinstance(x, ast.Attribute) and x.attr == tgt or isinstance(x, ast.alias) and x.name == tgt:
                    bad = True
        if bad or not loads:
            continue
        # shadowing: a function that binds the same name locally is left alone (none expected for a private table)
        for fdef in [x for x in ast.walk(tree) if isinstance(x, (ast.FunctionDef, ast.AsyncFunctionDef, ast.Lambda))]:
            a = fdef.args
            if tgt in {p.arg for p in a.posonlyargs + a.args + a.kwonlyargs}:
                bad = True
        if bad:
            continue
        lit = st.value
        for top in tree.body:
            if top is st:
                continue
            _ReplaceName(tgt, lit).visit(top)
        tree.body.remove(st)
        log.append(f"{modname}.{tgt}: new module-level literal propagated into its {len(loads)} use(s)")
    return log


class _ReplaceName(ast.NodeTransformer):
    def __init__(self, name: str, value: ast.AST):
        self.name, self.value = name, value

    def visit_Name(self, node: ast.Name):
        if node.id == self.name and isinstance(node.ctx, ast.Load):
            new = copy.deepcopy(self.value)
            return new
        return node


def new_top_level_functions(tree: ast.Module, modname: str, known: Set[str]) -> Dict[str, ast.AST]:
    return {s.name: s for s in tree.body if isinstance(s, (ast.FunctionDef, ast.AsyncFunctionDef)) and f"{modname}.{s.name}" not in known
            and not s.decorator_list}


def apply(tree: ast.Module, modname: str, known: Set[str], foreign=None, is_pkg: bool = False, all_modules: Optional[Set[str]] = None,
          relpaths: Optional[Dict[str, str]] = None) -> Tuple[int, List[str], List[str]]:
    ma, fa = import_aliases(tree, modname, is_pkg, all_modules or set()) if foreign else ({}, {})
    inl = Inliner(known, foreign, ma, fa, relpaths)
    n = inl.process_module(tree, modname)
    if n:
        ast.fix_missing_locations(tree)
    return n, inl.log, inl.failed
