"""Abstract interpreter over *weak orderings* for the comparison-only code of basana (DESIGN.md 3.4).

The order-matching code, ``Bar.__init__``, ``Order.add_fill`` and the update rules only ever *compare* a handful
of quantities (open/high/low/close/limit/stop; 0/pending/liquidity; ...).  For a fixed weak ordering (total
preorder) of those symbols every comparison has a definite outcome, so enumerating all weak orderings is a
complete case split of the infinite input space.  Values that are computed rather than given (a slipped price)
are tracked as rank intervals [lo, hi] over the same ordering; a comparison whose outcome is not determined by
the intervals forks the execution (both outcomes are explored), which is sound for "on every outcome"
obligations.

Nothing is executed: the interpreter walks the ``ast`` of the functions of /repo's current source.  Any
statement or expression kind it does not model raises ``Unsupported`` (-> ANALYSIS-ERROR, exit 2).
"""
from __future__ import annotations

import ast
import itertools
import math
from typing import Any, Callable, Dict, Iterator, List, Optional, Sequence, Tuple

INF = math.inf


class Unsupported(Exception):
    pass


# -- weak orderings -----------------------------------------------------------------------------------------------
def weak_orderings(symbols: Sequence[str]) -> Iterator[Dict[str, int]]:
    """All total preorders of ``symbols`` as rank maps (rank 0 = smallest; equal rank = equal value)."""
    n = len(symbols)
    if n == 0:
        yield {}
        return

    def rec(remaining: Tuple[str, ...]) -> Iterator[List[Tuple[str, ...]]]:
        if not remaining:
            yield []
            return
        # choose the non-empty set of minimal elements
        for k in range(1, len(remaining) + 1):
            for block in itertools.combinations(remaining, k):
                rest = tuple(s for s in remaining if s not in block)
                for tail in rec(rest):
                    yield [block] + tail
    for blocks in rec(tuple(symbols)):
        yield {s: i for i, b in enumerate(blocks) for s in b}


def describe(order: Dict[str, int]) -> str:
    by: Dict[int, List[str]] = {}
    for s, r in order.items():
        by.setdefault(r, []).append(s)
    return " < ".join("=".join(sorted(by[r])) for r in sorted(by))


# -- abstract values ----------------------------------------------------------------------------------------------
class Num:
    """A quantity known up to a rank interval in one comparison domain."""
    __slots__ = ("lo", "hi", "dom")

    def __init__(self, lo: float, hi: float, dom: str):
        self.lo, self.hi, self.dom = lo, hi, dom

    @property
    def exact(self) -> bool:
        return self.lo == self.hi

    def __repr__(self) -> str:
        return f"Num[{self.lo},{self.hi}]@{self.dom}"


class Scalar:
    """A dimensionless real factor known up to a numeric interval (1, -1, 1+impact, ...)."""
    __slots__ = ("lo", "hi")

    def __init__(self, lo: float, hi: float):
        self.lo, self.hi = lo, hi

    def __repr__(self) -> str:
        return f"Scalar[{self.lo},{self.hi}]"


class Prod:
    """sign * product of quantities (only the structure matters: which quantities, which sign)."""
    __slots__ = ("sign", "factors")

    def __init__(self, sign: Scalar, factors: List[Num]):
        self.sign, self.factors = sign, factors

    def __repr__(self) -> str:
        return f"Prod({self.sign}, {self.factors})"


class NoneV:
    def __repr__(self) -> str:
        return "None"


NONE = NoneV()


class BoolV:
    __slots__ = ("v",)

    def __init__(self, v: Optional[bool]):
        self.v = v

    def __repr__(self) -> str:
        return f"Bool({self.v})"


class Tok:
    """An opaque token compared by identity/equality only (enum members, symbols, strings)."""
    __slots__ = ("name",)

    def __init__(self, name: str):
        self.name = name

    def __repr__(self) -> str:
        return f"Tok({self.name})"

    def __eq__(self, o: Any) -> bool:
        return isinstance(o, Tok) and o.name == self.name

    def __hash__(self) -> int:
        return hash(self.name)


class DictV:
    __slots__ = ("items",)

    def __init__(self, items: List[Tuple[Any, Any]]):
        self.items = items

    def __repr__(self) -> str:
        return f"Dict({self.items})"


class Opaque:
    def __repr__(self) -> str:
        return "Opaque"


OPAQUE = Opaque()


class Obj:
    """An object whose attributes are given by a table (``self``, ``bar``, the liquidity strategy ...).
    ``attrs`` values are abstract values, or callables ``(interp, args, kwargs) -> value`` for methods."""

    def __init__(self, name: str, attrs: Dict[str, Any], mutable: Optional[Dict[str, Any]] = None,
                 cls_methods: Optional[Dict[str, ast.AST]] = None):
        self.name = name
        self.attrs = attrs
        self.mutable = mutable if mutable is not None else {}
        self.cls_methods = cls_methods or {}

    def __repr__(self) -> str:
        return f"Obj({self.name})"


class Raised(Exception):
    def __init__(self, exc_name: str, node: ast.AST):
        self.exc_name = exc_name
        self.node = node


class _Return(Exception):
    def __init__(self, value: Any):
        self.value = value


class Outcome:
    def __init__(self, kind: str, value: Any, state: Dict[str, Any], choices: List[bool], trace: List[str]):
        self.kind = kind          # return | raise | assert_failed
        self.value = value
        self.state = state        # mutable attributes of self after the call
        self.choices = choices
        self.trace = trace

    def __repr__(self) -> str:
        return f"Outcome({self.kind}, {self.value}, {self.state})"


class Interp:
    """Interprets one function call under one ordering with a choice oracle for undetermined branches."""

    def __init__(self, functions: Dict[str, ast.AST], globals_: Dict[str, Any], choices: List[bool]):
        self.functions = functions        # callable name -> FunctionDef (module-level functions to inline)
        self.globals = globals_
        self.choices = choices
        self.pos = 0
        self.more = False                 # a branch point beyond the supplied choices was met (defaulted False)
        self.trace: List[str] = []
        self.depth = 0

    # -- choice oracle ---------------------------------------------------------------------------------------------
    def choose(self, what: str) -> bool:
        if self.pos < len(self.choices):
            c = self.choices[self.pos]
        else:
            c = False
            self.choices.append(False)
        self.pos += 1
        self.trace.append(f"fork[{what}]={c}")
        return c

    # -- truthiness / comparison ------------------------------------------------------------------------------------
    def truth(self, v: Any, what: str = "") -> bool:
        if isinstance(v, BoolV):
            return v.v if v.v is not None else self.choose(what or "bool")
        if isinstance(v, NoneV):
            return False
        if isinstance(v, Num):
            z = self.globals["__zero__"][v.dom]
            if v.lo > z:
                return True
            if v.lo == v.hi == z:
                return False
            if v.hi < z:
                return True
            return self.choose(what or "num-truth")
        if isinstance(v, Scalar):
            if v.lo > 0 or v.hi < 0:
                return True
            if v.lo == v.hi == 0:
                return False
            return self.choose(what or "scalar-truth")
        if isinstance(v, DictV):
            return bool(v.items)
        if isinstance(v, (Tok, Obj, Prod)):
            return True
        if isinstance(v, Opaque):
            return self.choose(what or "opaque-truth")
        raise Unsupported(f"truth of {v!r}")

    def compare(self, op: ast.cmpop, a: Any, b: Any, what: str) -> bool:
        if isinstance(op, (ast.Is, ast.IsNot)):
            same = isinstance(a, NoneV) and isinstance(b, NoneV)
            if isinstance(a, NoneV) != isinstance(b, NoneV):
                same = False
            elif not isinstance(a, NoneV):
                raise Unsupported(f"'is' between {a!r} and {b!r}")
            return same if isinstance(op, ast.Is) else not same
        if isinstance(a, Tok) or isinstance(b, Tok):
            if isinstance(op, ast.Eq):
                return a == b
            if isinstance(op, ast.NotEq):
                return not (a == b)
            raise Unsupported(f"ordering comparison on tokens {a!r} {b!r}")
        if isinstance(a, NoneV) or isinstance(b, NoneV):
            if isinstance(op, ast.Eq):
                return isinstance(a, NoneV) and isinstance(b, NoneV)
            if isinstance(op, ast.NotEq):
                return not (isinstance(a, NoneV) and isinstance(b, NoneV))
            raise Raised("TypeError", ast.Constant(value=None))
        if isinstance(a, BoolV) and isinstance(b, BoolV) and isinstance(op, (ast.Eq, ast.NotEq)):
            if a.v is None or b.v is None:
                return self.choose(what)
            return (a.v == b.v) if isinstance(op, ast.Eq) else (a.v != b.v)
        if isinstance(a, Num) and isinstance(b, Num):
            if a.dom != b.dom:
                raise Unsupported(f"comparison across domains {a.dom}/{b.dom} ({what})")
            alo, ahi, blo, bhi = a.lo, a.hi, b.lo, b.hi
        elif isinstance(a, Scalar) and isinstance(b, Scalar):
            alo, ahi, blo, bhi = a.lo, a.hi, b.lo, b.hi
        elif isinstance(a, Num) and isinstance(b, Scalar) and b.lo == b.hi == 0:
            z = self.globals["__zero__"][a.dom]
            alo, ahi, blo, bhi = a.lo, a.hi, z, z
        elif isinstance(a, Scalar) and isinstance(b, Num) and a.lo == a.hi == 0:
            z = self.globals["__zero__"][b.dom]
            alo, ahi, blo, bhi = z, z, b.lo, b.hi
        else:
            raise Unsupported(f"comparison of {a!r} and {b!r} ({what})")

        def tri(lt_def: bool, lt_pos: bool) -> Optional[bool]:
            return True if lt_def else (None if lt_pos else False)
        if isinstance(op, ast.Lt):
            r = tri(ahi < blo, alo < bhi)
        elif isinstance(op, ast.LtE):
            r = tri(ahi <= blo, alo <= bhi)
        elif isinstance(op, ast.Gt):
            r = tri(alo > bhi, ahi > blo)
        elif isinstance(op, ast.GtE):
            r = tri(alo >= bhi, ahi >= blo)
        elif isinstance(op, ast.Eq):
            r = True if (alo == ahi == blo == bhi) else (None if (alo <= bhi and blo <= ahi) else False)
        elif isinstance(op, ast.NotEq):
            r = False if (alo == ahi == blo == bhi) else (None if (alo <= bhi and blo <= ahi) else True)
        else:
            raise Unsupported(f"comparison operator {type(op).__name__}")
        if r is None:
            return self.choose(what)
        return r

    # -- expressions -----------------------------------------------------------------------------------------------
    def eval(self, e: ast.AST, env: Dict[str, Any]) -> Any:
        if isinstance(e, ast.Constant):
            if e.value is None:
                return NONE
            if isinstance(e.value, bool):
                return BoolV(e.value)
            if isinstance(e.value, (int, float)):
                return Scalar(float(e.value), float(e.value))
            if isinstance(e.value, str):
                return Tok("str:" + e.value)
            raise Unsupported(f"constant {e.value!r}")
        if isinstance(e, ast.Name):
            if e.id in env:
                return env[e.id]
            if e.id in self.globals:
                return self.globals[e.id]
            raise Unsupported(f"unbound name {e.id}")
        if isinstance(e, ast.Attribute):
            base = self.eval(e.value, env)
            return self.getattr(base, e.attr, e, env)
        if isinstance(e, ast.NamedExpr):
            v = self.eval(e.value, env)
            env[e.target.id] = v
            return v
        if isinstance(e, ast.UnaryOp):
            v = self.eval(e.operand, env)
            if isinstance(e.op, ast.Not):
                return BoolV(not self.truth(v, ast.unparse(e.operand)))
            if isinstance(e.op, ast.USub):
                return self.mul(Scalar(-1, -1), v)
            raise Unsupported(f"unary {type(e.op).__name__}")
        if isinstance(e, ast.BoolOp):
            last: Any = None
            for sub in e.values:
                last = self.eval(sub, env)
                t = self.truth(last, ast.unparse(sub))
                if isinstance(e.op, ast.And) and not t:
                    return last if not isinstance(last, (Num, Scalar)) else BoolV(False)
                if isinstance(e.op, ast.Or) and t:
                    return last
            return last
        if isinstance(e, ast.Compare):
            left = self.eval(e.left, env)
            for op, right_e in zip(e.ops, e.comparators):
                right = self.eval(right_e, env)
                if not self.compare(op, left, right, ast.unparse(e)):
                    return BoolV(False)
                left = right
            return BoolV(True)
        if isinstance(e, ast.IfExp):
            if self.truth(self.eval(e.test, env), ast.unparse(e.test)):
                return self.eval(e.body, env)
            return self.eval(e.orelse, env)
        if isinstance(e, ast.BinOp):
            a = self.eval(e.left, env)
            b = self.eval(e.right, env)
            if isinstance(e.op, ast.Mult):
                return self.mul(a, b)
            if isinstance(e.op, (ast.Add, ast.Sub)):
                if isinstance(a, Scalar) and isinstance(b, Scalar):
                    if isinstance(e.op, ast.Add):
                        return Scalar(a.lo + b.lo, a.hi + b.hi)
                    return Scalar(a.lo - b.hi, a.hi - b.lo)
                if isinstance(a, Num) and isinstance(b, Num) and isinstance(e.op, ast.Sub):
                    hook = self.globals.get("__sub__")
                    if hook is not None:
                        r = hook(a, b)
                        if r is not None:
                            return r
                raise Unsupported(f"{type(e.op).__name__} of {a!r} and {b!r} in {ast.unparse(e)}")
            raise Unsupported(f"binary operator {type(e.op).__name__} in {ast.unparse(e)}")
        if isinstance(e, ast.Dict):
            items = []
            for k, v in zip(e.keys, e.values):
                if k is None:
                    raise Unsupported("dict unpacking")
                items.append((self.eval(k, env), self.eval(v, env)))
            return DictV(items)
        if isinstance(e, ast.Call):
            return self.call(e, env)
        if isinstance(e, ast.JoinedStr):
            return Tok("fstring")
        if isinstance(e, ast.Subscript):
            base = self.eval(e.value, env)
            if isinstance(base, DictV):
                k = self.eval(e.slice, env)
                for kk, vv in base.items:
                    if kk == k:
                        return vv
                raise Raised("KeyError", e)
            raise Unsupported(f"subscript on {base!r}")
        raise Unsupported(f"expression {type(e).__name__}: {ast.unparse(e)[:60]}")

    def mul(self, a: Any, b: Any) -> Any:
        if isinstance(a, Scalar) and isinstance(b, Scalar):
            c = [a.lo * b.lo, a.lo * b.hi, a.hi * b.lo, a.hi * b.hi]
            c = [0.0 if (isinstance(x, float) and math.isnan(x)) else x for x in c]
            return Scalar(min(c), max(c))
        if isinstance(a, Scalar) and isinstance(b, Num):
            a, b = b, a
        if isinstance(a, Num) and isinstance(b, Scalar):
            # a > 0 is assumed for every Num the code multiplies (prices and amounts are validated > 0)
            if b.lo == b.hi == 1:
                return Num(a.lo, a.hi, a.dom)
            if b.lo == b.hi and b.lo in (-1.0,):
                return Prod(Scalar(-1, -1), [a])
            lo = a.lo if b.lo >= 1 else -INF
            hi = a.hi if b.hi <= 1 else INF
            if b.lo >= 0 and lo == -INF:
                lo = self.globals["__zero__"][a.dom]
            return Num(lo, hi, a.dom)
        if isinstance(a, Num) and isinstance(b, Num):
            return Prod(Scalar(1, 1), [a, b])
        if isinstance(a, Prod) and isinstance(b, Scalar):
            return Prod(self.mul(a.sign, b), list(a.factors))
        if isinstance(a, Scalar) and isinstance(b, Prod):
            return Prod(self.mul(b.sign, a), list(b.factors))
        if isinstance(a, Prod) and isinstance(b, Num):
            return Prod(a.sign, a.factors + [b])
        if isinstance(a, Num) and isinstance(b, Prod):
            return Prod(b.sign, [a] + b.factors)
        if isinstance(a, Prod) and isinstance(b, Prod):
            return Prod(self.mul(a.sign, b.sign), a.factors + b.factors)
        raise Unsupported(f"product of {a!r} and {b!r}")

    def getattr(self, base: Any, attr: str, node: ast.AST, env: Dict[str, Any]) -> Any:
        if isinstance(base, Obj):
            if attr in base.mutable:
                return base.mutable[attr]
            if attr in base.attrs:
                v = base.attrs[attr]
                return v
            if attr in base.cls_methods:
                return ("method", base, base.cls_methods[attr])
            raise Unsupported(f"attribute {base.name}.{attr}")
        if isinstance(base, tuple) and base and base[0] == "module":
            tbl = base[1]
            if attr in tbl:
                return tbl[attr]
            raise Unsupported(f"module attribute {attr}")
        raise Unsupported(f"attribute {attr} of {base!r}")

    def call(self, e: ast.Call, env: Dict[str, Any]) -> Any:
        fname = None
        if isinstance(e.func, ast.Name):
            fname = e.func.id
        if fname in ("min", "max"):
            vals = [self.eval(a, env) for a in e.args]
            if len(vals) != 2 or not all(isinstance(v, Num) for v in vals) or vals[0].dom != vals[1].dom:
                raise Unsupported(f"{fname} of {vals!r}")
            f = min if fname == "min" else max
            return Num(f(vals[0].lo, vals[1].lo), f(vals[0].hi, vals[1].hi), vals[0].dom)
        if fname == "Decimal":
            if len(e.args) == 1 and isinstance(e.args[0], ast.Constant):
                v = e.args[0].value
                try:
                    x = float(v)
                except (TypeError, ValueError):
                    raise Unsupported(f"Decimal({v!r})")
                return Scalar(x, x)
            if len(e.args) == 1:
                v = self.eval(e.args[0], env)
                if isinstance(v, Scalar):
                    return v
            raise Unsupported(f"Decimal of non-constant {ast.unparse(e)}")
        if fname == "abs":
            v = self.eval(e.args[0], env)
            if isinstance(v, Prod):
                return Prod(Scalar(1, 1), list(v.factors))
            if isinstance(v, Num):
                return v
            raise Unsupported(f"abs of {v!r}")
        if fname == "isinstance":
            return BoolV(True)
        target = self.eval(e.func, env) if not (fname and fname in self.functions and fname not in env) else None
        if target is None and fname in self.functions:
            return self.invoke(self.functions[fname], None, e, env)
        if callable(target) and not isinstance(target, tuple):
            args = [self.eval(a, env) for a in e.args]
            kwargs = {k.arg: self.eval(k.value, env) for k in e.keywords if k.arg}
            return target(self, args, kwargs)
        if isinstance(target, tuple) and target[0] == "method":
            return self.invoke(target[2], target[1], e, env)
        if isinstance(target, tuple) and target[0] == "func":
            return self.invoke(target[1], None, e, env)
        if isinstance(target, Opaque):
            return OPAQUE
        raise Unsupported(f"call of {ast.unparse(e.func)}")

    def invoke(self, fdef: ast.AST, self_obj: Optional[Obj], call: ast.Call, env: Dict[str, Any]) -> Any:
        if self.depth > 12:
            raise Unsupported("call depth")
        a = fdef.args
        params = [x.arg for x in a.posonlyargs + a.args]
        new_env: Dict[str, Any] = {}
        if self_obj is not None:
            new_env[params[0]] = self_obj
            params = params[1:]
        defaults = a.defaults
        for i, p in enumerate(params[len(params) - len(defaults):]):
            new_env[p] = self.eval(defaults[i], {})
        for k, d in zip(a.kwonlyargs, a.kw_defaults):
            if d is not None:
                new_env[k.arg] = self.eval(d, {})
        for p, arg in zip(params, call.args):
            new_env[p] = self.eval(arg, env)
        for k in call.keywords:
            if k.arg is None:
                raise Unsupported("**kwargs call")
            new_env[k.arg] = self.eval(k.value, env)
        missing = [p for p in params if p not in new_env]
        if missing:
            raise Unsupported(f"missing arguments {missing} for {getattr(fdef, 'name', '?')}")
        self.depth += 1
        try:
            self.exec_block(fdef.body, new_env)
        except _Return as r:
            return r.value
        finally:
            self.depth -= 1
        return NONE

    # -- statements ------------------------------------------------------------------------------------------------
    def exec_block(self, stmts: List[ast.stmt], env: Dict[str, Any]) -> None:
        for s in stmts:
            self.exec(s, env)

    def exec(self, s: ast.stmt, env: Dict[str, Any]) -> None:
        if isinstance(s, ast.Expr):
            if isinstance(s.value, ast.Constant):
                return
            if isinstance(s.value, ast.Call):
                d = _dotted(s.value.func) or ""
                if d.startswith("logger.") or d.startswith("logging."):
                    return
            self.eval(s.value, env)
            return
        if isinstance(s, (ast.Assign, ast.AnnAssign)):
            if isinstance(s, ast.AnnAssign) and s.value is None:
                return
            v = self.eval(s.value, env)
            targets = s.targets if isinstance(s, ast.Assign) else [s.target]
            for t in targets:
                self.assign(t, v, env)
            return
        if isinstance(s, ast.AugAssign):
            cur = self.eval(s.target, env)
            rhs = self.eval(s.value, env)
            if isinstance(s.op, ast.Mult):
                self.assign(s.target, self.mul(cur, rhs), env)
                return
            hook = self.globals.get("__aug__")
            if hook is not None:
                r = hook(self, s, cur, rhs)
                if r is not None:
                    self.assign(s.target, r, env)
                    return
            raise Unsupported(f"augmented assignment {ast.unparse(s)}")
        if isinstance(s, ast.If):
            if self.truth(self.eval(s.test, env), ast.unparse(s.test)):
                self.exec_block(s.body, env)
            else:
                self.exec_block(s.orelse, env)
            return
        if isinstance(s, ast.Return):
            raise _Return(self.eval(s.value, env) if s.value is not None else NONE)
        if isinstance(s, ast.Assert):
            if not self.truth(self.eval(s.test, env), "assert " + ast.unparse(s.test)):
                raise Raised("AssertionError", s)
            return
        if isinstance(s, ast.Raise):
            name = "Exception"
            if s.exc is not None:
                f = s.exc.func if isinstance(s.exc, ast.Call) else s.exc
                name = (_dotted(f) or "Exception").split(".")[-1]
            raise Raised(name, s)
        if isinstance(s, ast.Pass):
            return
        raise Unsupported(f"statement {type(s).__name__}: {ast.unparse(s)[:60]}")

    def assign(self, t: ast.AST, v: Any, env: Dict[str, Any]) -> None:
        if isinstance(t, ast.Name):
            env[t.id] = v
            return
        if isinstance(t, ast.Attribute):
            base = self.eval(t.value, env)
            if isinstance(base, Obj):
                base.mutable[t.attr] = v
                self.trace.append(f"store {base.name}.{t.attr}={v!r}")
                return
        raise Unsupported(f"assignment target {ast.unparse(t)}")


def _dotted(e: ast.AST) -> Optional[str]:
    parts: List[str] = []
    cur = e
    while isinstance(cur, ast.Attribute):
        parts.append(cur.attr)
        cur = cur.value
    if isinstance(cur, ast.Name):
        parts.append(cur.id)
        return ".".join(reversed(parts))
    return None


def explore(run: Callable[[Interp], Any], functions: Dict[str, ast.AST], globals_: Dict[str, Any],
            make_self: Callable[[], Optional[Obj]], limit: int = 256) -> List[Outcome]:
    """Run ``run(interp)`` under every resolution of undetermined branches (depth-first over choice vectors)."""
    outcomes: List[Outcome] = []
    stack: List[List[bool]] = [[]]
    n = 0
    while stack:
        prefix = stack.pop()
        n += 1
        if n > limit:
            raise Unsupported("too many forks")
        it = Interp(functions, globals_, list(prefix))
        self_obj = make_self()
        it.globals = dict(globals_)
        it.globals["__self__"] = self_obj
        try:
            v = run(it)
            kind = "return"
        except Raised as r:
            v = r.exc_name
            kind = "assert_failed" if r.exc_name == "AssertionError" else "raise"
        state = dict(self_obj.mutable) if self_obj is not None else {}
        outcomes.append(Outcome(kind, v, state, list(it.choices), list(it.trace)))
        # schedule the alternatives for every choice made beyond the prefix
        for i in range(len(prefix), len(it.choices)):
            alt = it.choices[:i] + [not it.choices[i]]
            stack.append(alt)
    return outcomes
