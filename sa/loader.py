"""Front end: parse every module of /repo/basana with the stdlib ``ast`` and index functions and classes.

Nothing here imports or runs basana code.  Every node gets a ``parent`` link, every function a qualified
name ``basana.mod.Class.func`` (nested functions: ``outer.<locals>.inner`` is shortened to ``outer.inner``).
"""
from __future__ import annotations

import ast
import dataclasses
import hashlib
import os
import re
from typing import Dict, Iterator, List, Optional, Tuple

REPO = os.environ.get("BASANA_REPO", "/repo")
PKG = "basana"


class AnchorMissing(Exception):
    """An anchor (function, class, statement) the rule needs is not in the tree: analysis broken, exit 2."""


@dataclasses.dataclass
class Module:
    relpath: str          # basana/core/dispatcher.py
    modname: str          # basana.core.dispatcher
    source: str
    tree: ast.Module

    @property
    def lines(self) -> List[str]:
        return self.source.splitlines()


@dataclasses.dataclass
class ClassInfo:
    qualname: str
    node: ast.ClassDef
    module: Module
    bases: List[str]      # textual base expressions


@dataclasses.dataclass
class Func:
    qualname: str
    node: ast.AST         # FunctionDef | AsyncFunctionDef | Lambda
    module: Module
    cls: Optional[ClassInfo]
    parent: Optional["Func"]

    @property
    def name(self) -> str:
        return self.qualname.rsplit(".", 1)[-1]

    @property
    def is_async(self) -> bool:
        return isinstance(self.node, ast.AsyncFunctionDef)

    def loc(self, node: Optional[ast.AST] = None) -> str:
        n = node if node is not None else self.node
        return f"{self.module.relpath}:{getattr(n, 'lineno', 0)}"

    @property
    def params(self) -> List[str]:
        a = self.node.args
        return [x.arg for x in (a.posonlyargs + a.args + a.kwonlyargs)]


def _set_parents(tree: ast.AST) -> None:
    """parent links plus ``seq``: the node's position in a pre-order walk, i.e. textual order *after* inlining (inlined statements keep
    the helper's line numbers for reporting and for the type facts, so line numbers must not be used to order statements)."""
    n = 0
    stack = [tree]
    tree.seq = 0  # type: ignore[attr-defined]
    while stack:
        node = stack.pop()
        n += 1
        node.seq = n  # type: ignore[attr-defined]
        children = list(ast.iter_child_nodes(node))
        for child in children:
            child.parent = node  # type: ignore[attr-defined]
        stack.extend(reversed(children))


class Repo:
    def __init__(self, root: str = REPO):
        self.root = root
        self.modules: Dict[str, Module] = {}
        self.funcs: Dict[str, Func] = {}
        self.classes: Dict[str, ClassInfo] = {}
        self._func_of_node: Dict[int, Func] = {}
        self.inline_log: List[str] = []
        self.inline_failed: List[str] = []
        self.known_functions = None
        if os.environ.get("SA_NO_INLINE") != "1":
            from . import inline
            self.known_functions = inline.load_known()
        h = hashlib.sha256()
        pkg_root = os.path.join(root, PKG)
        if not os.path.isdir(pkg_root):
            raise AnchorMissing(f"package directory {pkg_root} not found")
        paths = []
        for dirpath, dirnames, filenames in os.walk(pkg_root):
            dirnames[:] = sorted(d for d in dirnames if d != "__pycache__")
            for fn in sorted(filenames):
                if fn.endswith(".py"):
                    paths.append(os.path.join(dirpath, fn))
        parsed = []
        for path in sorted(paths):
            rel = os.path.relpath(path, root)
            with open(path, "rb") as f:
                raw = f.read()
            h.update(rel.encode())
            h.update(b"\0")
            h.update(raw)
            h.update(b"\0")
            src = raw.decode("utf-8")
            tree = ast.parse(src, filename=rel)
            modname = rel[:-3].replace(os.sep, ".")
            is_pkg = modname.endswith(".__init__")
            if is_pkg:
                modname = modname[: -len(".__init__")]
            parsed.append((rel, modname, is_pkg, src, tree))
        if self.known_functions is not None:
            from . import inline
            from . import localnames
            lt = localnames.load_table()
            shp0 = localnames.load_shapes()
            if shp0 and "@attrs" in shp0:    # first, so that the texts the later passes compare carry the pinned attribute names
                self.inline_log.extend(localnames.recover_attrs([(m, t) for _, m, _, _, t in parsed], shp0["@attrs"]))
            if shp0:
                for rel, modname, is_pkg, src, tree in parsed:
                    self.inline_log.extend(localnames.recover_params(tree, modname, shp0))
            if lt:
                for rel, modname, is_pkg, src, tree in parsed:
                    self.inline_log.extend(localnames.recover(tree, modname, lt))
            shp = localnames.load_shapes()
            if shp:
                for rel, modname, is_pkg, src, tree in parsed:
                    self.inline_log.extend(localnames.reorient(tree, modname, shp))
                    self.inline_log.extend(localnames.contract(tree, modname, shp))
                if "@attrs" in shp:
                    self.inline_log.extend(localnames.recover_attrs([(m, t) for _, m, _, _, t in parsed], shp["@attrs"]))
            kg = inline.load_known_globals()
            if kg:
                trees = [t for _, _, _, _, t in parsed]
                for rel, modname, is_pkg, src, tree in parsed:
                    self.inline_log.extend(inline.propagate_new_constants(tree, modname, kg, trees))
            foreign = {m: inline.new_top_level_functions(t, m, self.known_functions) for _, m, _, _, t in parsed}
            foreign = {m: d for m, d in foreign.items() if d}
            all_modules = {m for _, m, _, _, _ in parsed}
            relpaths = {m: rel for rel, m, _, _, _ in parsed}
            for rel, modname, is_pkg, src, tree in parsed:
                n, log, failed = inline.apply(tree, modname, self.known_functions, foreign, is_pkg, all_modules, relpaths)
                self.inline_log.extend(log)
                self.inline_failed.extend(failed)
            for rel, modname, is_pkg, src, tree in parsed:
                used = {m.group(1) for l in self.inline_log for m in [re.search(r" <- (\S+?)[ :(]", l + " ")] if m}
                _drop_fully_inlined(tree, modname, self.known_functions, self.inline_log, [t for _, _, _, _, t in parsed], used)
        for rel, modname, is_pkg, src, tree in parsed:
            _set_parents(tree)
            mod = Module(rel, modname, src, tree)
            self.modules[modname] = mod
            self._index(mod)
        self.digest = h.hexdigest()

    # -- indexing ---------------------------------------------------------------------------------------------
    def _index(self, mod: Module) -> None:
        def visit(node: ast.AST, prefix: str, cls: Optional[ClassInfo], parent: Optional[Func]) -> None:
            for child in ast.iter_child_nodes(node):
                if isinstance(child, ast.ClassDef):
                    q = f"{prefix}.{child.name}"
                    ci = ClassInfo(q, child, mod, [ast.unparse(b) for b in child.bases])
                    self.classes[q] = ci
                    visit(child, q, ci, parent)
                elif isinstance(child, (ast.FunctionDef, ast.AsyncFunctionDef)):
                    q = f"{prefix}.{child.name}"
                    if q in self.funcs:   # property setter / overload: keep first, index the other with a suffix
                        n = 2
                        while f"{q}#{n}" in self.funcs:
                            n += 1
                        q = f"{q}#{n}"
                    fn = Func(q, child, mod, cls if isinstance(node, ast.ClassDef) else None, parent)
                    self.funcs[q] = fn
                    self._func_of_node[id(child)] = fn
                    visit(child, q, cls if isinstance(node, ast.ClassDef) else None, fn)
                else:
                    visit(child, prefix, cls, parent)
        visit(mod.tree, mod.modname, None, None)

    # -- lookup -----------------------------------------------------------------------------------------------
    def func(self, qualname: str) -> Func:
        try:
            return self.funcs[qualname]
        except KeyError:
            raise AnchorMissing(f"function {qualname} not found in {self.root}")

    def cls(self, qualname: str) -> ClassInfo:
        try:
            return self.classes[qualname]
        except KeyError:
            raise AnchorMissing(f"class {qualname} not found in {self.root}")

    def module(self, modname: str) -> Module:
        try:
            return self.modules[modname]
        except KeyError:
            raise AnchorMissing(f"module {modname} not found in {self.root}")

    def has_func(self, qualname: str) -> bool:
        return qualname in self.funcs

    def methods_of(self, cls_qualname: str) -> Dict[str, Func]:
        pre = cls_qualname + "."
        return {q[len(pre):]: f for q, f in self.funcs.items()
                if q.startswith(pre) and "." not in q[len(pre):]}

    def enclosing_func(self, node: ast.AST) -> Optional[Func]:
        cur = getattr(node, "parent", None)
        while cur is not None:
            if isinstance(cur, (ast.FunctionDef, ast.AsyncFunctionDef)):
                return self._func_of_node.get(id(cur))
            cur = getattr(cur, "parent", None)
        return None

    def func_of_def(self, node: ast.AST) -> Optional[Func]:
        return self._func_of_node.get(id(node))

    def all_funcs(self) -> Iterator[Func]:
        return iter(self.funcs.values())

    def module_of(self, node: ast.AST) -> Module:
        cur = node
        while not isinstance(cur, ast.Module):
            cur = cur.parent  # type: ignore[attr-defined]
        for m in self.modules.values():
            if m.tree is cur:
                return m
        raise AnchorMissing("node without module")


def _drop_fully_inlined(tree: ast.Module, modname: str, known, log: List[str], all_trees=None, used=None) -> None:
    """Remove the definition of a new helper once no reference to it is left in the package (every call site was expanded).  Only
    helpers that were actually inlined somewhere are candidates: an unreferenced new method (``__len__``, an override) stays."""
    used = used or set()
    import itertools

    def refs(name: str, is_method: bool) -> int:
        n = 0
        for x in itertools.chain.from_iterable(ast.walk(t) for t in (all_trees or [tree])):
            if isinstance(x, ast.alias) and x.name == name:
                continue
            if isinstance(x, (ast.FunctionDef, ast.AsyncFunctionDef)) and x.name == name:
                continue
            if is_method and isinstance(x, ast.Attribute) and x.attr == name:
                n += 1
            if not is_method and (isinstance(x, ast.Name) and x.id == name or isinstance(x, ast.Attribute) and x.attr == name):
                n += 1
        return n
    for s in list(tree.body):
        if isinstance(s, (ast.FunctionDef, ast.AsyncFunctionDef)) and f"{modname}.{s.name}" not in known and f"{modname}.{s.name}" in used and refs(s.name, False) == 0:
            tree.body.remove(s)
            log.append(f"dropped fully inlined helper {modname}.{s.name}")
        elif isinstance(s, ast.ClassDef):
            cq = f"{modname}.{s.name}"
            if cq not in {k.rsplit(".", 1)[0] for k in known}:
                continue
            for m in list(s.body):
                if isinstance(m, (ast.FunctionDef, ast.AsyncFunctionDef)) and f"{cq}.{m.name}" not in known and f"{cq}.{m.name}" in used and refs(m.name, True) == 0:
                    s.body.remove(m)
                    log.append(f"dropped fully inlined helper {cq}.{m.name}")


def span(node: ast.AST) -> Tuple[int, int, int, int]:
    return (node.lineno, node.col_offset, node.end_lineno, node.end_col_offset)  # type: ignore[attr-defined]
