"""C08 -- fills respect bar liquidity and instrument precision."""
from __future__ import annotations

import ast
from typing import Any, Dict, List, Optional

from .. import astutil as A
from .. import cfg as C
from ..core import Ctx
from . import c04

PROP = "C08"
EXPLANATION = (
    "C08.1 one liquidity budget per bar: in OrderManager.on_bar_event the strategy instance handed to every _process_order of "
    "the loop has all its definitions before the loop and on_bar(bar) dominates the loop from outside it. C08.2 consumption: "
    "on every path of _process_order that records a fill, take_liquidity is called exactly once, after the commit (a refused "
    "fill consumes nothing), with abs() of the rounded base entry; from the exhaustive weak-ordering interpretation shared "
    "with C04 every fill amount is <= the available liquidity and market/stop orders that need more are not filled at all; "
    "VolumeShareImpact resets its budget per bar and subtracts what it is given. C08.3 quantisation: the base entry is "
    "truncated toward zero to the base precision, the quote entry's last write rounds it to the quote precision (after "
    "being re-derived from the truncated base), fees are rounded away from zero per symbol to that symbol's precision; "
    "repaid interest is truncated before it is debited. C08.4 truncate_decimal uses ROUND_DOWN, round_decimal quantises to "
    "1e-precision. C08.5: no precision (an int) is ever used as a truth value in the modules that resolve and apply precisions "
    "(0 decimals is valid), and every rounding call of OrderManager takes its precision from get_pair_info(pair). The numeric cap (sum of fills <= share x volume) rests on two lines of arithmetic read, not analysed."
)
TRUSTED = ["CPython ast parser", "sa.cfg", "sa.absint (shared exploration with C04)", "Decimal.quantize semantics"]

OM = "basana.backtesting.order_mgr.OrderManager"
LIQ = "basana.backtesting.liquidity"


def rule_one_budget(ctx: Ctx) -> None:
    fn = ctx.func(f"{OM}.on_bar_event")
    g = ctx.cfg(fn)
    loops = [n for n in C.walk_shallow(fn.node) if isinstance(n, ast.For)]
    ctx.require(loops, "C08.1: on_bar_event has no loop over orders")
    lp = loops[0]
    calls = [c for s in lp.body for c in A.calls(s) if (A.call_name(c) or "") == "self._process_order"]
    ctx.floor("C08.1", "_process_order calls in the loop", len(calls), 1)
    for c in calls:
        arg = c.args[2] if len(c.args) > 2 else None
        ctx.require(isinstance(arg, ast.Name), "C08.1: liquidity strategy argument is not a plain name")
        defs = [s for s in A.stores(fn) if isinstance(s.target, ast.Name) and s.target.id == arg.id]
        inside = [s for s in defs if A.is_within(s.stmt, lp) and s.stmt is not lp]
        ctx.check(bool(defs) and not inside, "C08.1", "all orders of a bar share one liquidity strategy instance", fn, c,
                  f"'{arg.id}' is defined only before the loop", f"'{arg.id}' is (re)defined inside the loop: each order gets a fresh "
                  "liquidity budget and the bar's volume share can be exceeded")
        ob = [x for x in A.func_calls(fn) if (A.call_name(x) or "") == f"{arg.id}.on_bar"]
        okb = len(ob) == 1 and not A.is_within(ob[0], lp) and A.dotted(ob[0].args[0]) == f"{fn.params[1]}.bar" \
            and g.path_avoiding(g.entry, lambda n: n is g.nodes_for(lp)[0], lambda n: n in g.nodes_for(ob[0])) is None
        ctx.check(okb, "C08.1", "the budget is reset from the bar once, before any order is processed", fn, ob[0] if ob else c,
                  "on_bar(bar_event.bar) dominates the loop", "on_bar is called per order (budget reset between orders), not at all, or "
                  "with a different bar")
        ctx.check(A.dotted(c.args[1]) == fn.params[1], "C08.1", "orders are matched against the bar whose budget was set", fn, c, "same bar_event",
                  "a different bar event is passed")
    fac = [s for s in A.stores(fn) if isinstance(s.target, ast.Name) and "liquidity_strategy_factory()" in ast.unparse(getattr(s.node, "value", ast.Constant(value=None)))]
    ctx.check(bool(fac), "C08.1", "a missing strategy is created from the configured factory", fn, fac[0].stmt if fac else fn.node, "factory()",
              "strategy no longer comes from the configured factory", key_text="factory")


def rule_consumption(ctx: Ctx) -> None:
    po = ctx.func(f"{OM}._process_order")
    g = ctx.cfg(po)
    take = [c for c in A.func_calls(po) if (A.call_name(c) or "").endswith(".take_liquidity")]
    fill = [c for c in A.func_calls(po) if (A.call_name(c) or "").endswith(".add_fill")]
    ups = [c for c in A.func_calls(po) if (A.call_name(c) or "") == "self._update_balances"]
    ctx.require(len(fill) == 1 and len(ups) == 1, "C08.2: _process_order lost add_fill / the commit")
    if not take:
        ctx.bad("C08.2", "every recorded fill consumed liquidity", po, fill[0], "_process_order never calls take_liquidity: fills do not consume the "
                "bar's liquidity, so the orders of one bar can together exceed the volume share")
        return
    ctx.require(len(take) == 1, "C08.2: several take_liquidity calls in _process_order (unrecognised idiom)")
    tn, fn_, un = g.nodes_for(take[0])[0], g.nodes_for(fill[0])[0], g.nodes_for(ups[0])[0]
    p1 = g.path_avoiding(g.entry, lambda n: n is fn_, lambda n: n is tn)
    ctx.check(p1 is None, "C08.2", "every recorded fill consumed liquidity", po, take[0], "take_liquidity dominates add_fill",
              "a fill can be recorded without consuming the bar's liquidity", detail={"path": C.fmt_path(p1) if p1 else []})
    p2 = g.path_avoiding(g.entry, lambda n: n is tn, lambda n: n is un)
    ctx.check(p2 is None, "C08.2", "liquidity is consumed only after the account accepted the fill", po, take[0], "commit dominates take_liquidity",
              "a refused fill still consumes liquidity", detail={"path": C.fmt_path(p2) if p2 else []})
    again = [n for n in g.reach([tn], labels=C.NO_EXC) if any(isinstance(x, ast.Call) and (A.call_name(x) or "").endswith(".take_liquidity")
                                                               for e in C.exprs_of(n) for x in C.walk_shallow(e))]
    ctx.check(not again, "C08.2", "liquidity is consumed once per fill", po, take[0], "single call", "take_liquidity can run twice for one fill")
    a = take[0].args[0] if take[0].args else None
    fin = [s for s in A.stores(po) if isinstance(s.target, ast.Name) and s.target.id == "final_updates" and isinstance(s.node, ast.Assign)]
    rounded = fin[0].node.value.left.id if fin and isinstance(fin[0].node.value, ast.BinOp) and isinstance(fin[0].node.value.left, ast.Name) else None
    oka = isinstance(a, ast.Call) and A.call_name(a) == "abs" and isinstance(a.args[0], ast.Subscript) and A.dotted(a.args[0].value) == rounded \
        and (A.dotted(a.args[0].slice) or "").endswith("pair.base_symbol")
    ctx.check(oka, "C08.2", "the amount consumed is |rounded base amount| of the fill", po, take[0], f"abs({rounded}[base_symbol])",
              f"take_liquidity is given {ast.unparse(a) if a is not None else '?'}, not the absolute rounded base amount of the fill")
    ctx.check(A.dotted(take[0].func.value) == po.params[3], "C08.2", "liquidity is taken from the bar's shared strategy", po, take[0], "ok",  # type: ignore
              "liquidity taken from a different object")
    t = c04.evaluate_obligations(ctx)
    ctx.exhaustive = True
    c04.report(ctx, t, rules_for={"C08.2", "C05.2"}, relabel="C08.2")
    v = f"{LIQ}.VolumeShareImpact"
    ob = ctx.func(f"{v}.on_bar")
    src = ast.unparse(ob.node)
    ctx.check("self._total_liquidity = bar.volume * self._volume_limit_pct" in src and "self._used_liquidity = Decimal(0)" in src, "C08.2",
              "each bar grants volume x share and starts unused", ob, ob.node, "total = volume * pct; used = 0", "per-bar budget changed",
              key_text="budget per bar")
    al = ctx.func(f"{v}.available_liquidity")
    ctx.check("return self._total_liquidity - self._used_liquidity" in ast.unparse(al.node), "C08.2", "available = total - used", al, al.node, "ok",
              "available liquidity is no longer total - used", key_text="available")
    tl = ctx.func(f"{v}.take_liquidity")
    ctx.check("self._used_liquidity += amount" in ast.unparse(tl.node), "C08.2", "taking liquidity adds the amount to the used budget", tl, tl.node,
              "used += amount", "take_liquidity no longer accumulates the amount", key_text="take adds")
    init = ctx.func(f"{v}.__init__")
    ctx.check("self._volume_limit_pct = volume_limit_pct / Decimal(100)" in ast.unparse(init.node), "C08.2", "the volume limit is a percentage",
              init, init.node, "/ 100", "volume limit scaling changed", key_text="limit pct")


def rule_quantisation(ctx: Ctx) -> None:
    c04.rule_round(ctx, rule="C08.3")
    rf = ctx.func(f"{OM}._round_fees")
    src = ast.unparse(rf.node)
    d = [n for n in ast.walk(rf.node) if isinstance(n, ast.Dict)]
    mp = {ast.unparse(k): ast.unparse(v) for k, v in zip(d[0].keys, d[0].values)} if d else {}
    ctx.check(mp == {"pair.base_symbol": "pair_info.base_precision", "pair.quote_symbol": "pair_info.quote_precision"}, "C08.3",
              "each fee symbol is rounded to its own precision", rf, d[0] if d else rf.node, str(mp), f"symbol -> precision map is {mp}")
    calls = [c for c in A.func_calls(rf) if (A.call_name(c) or "").endswith("round_decimal")]
    okr = len(calls) == 1 and A.dotted(A.kw(calls[0], "rounding")) == "decimal.ROUND_UP" and A.dotted(calls[0].args[1]) == "precision"
    ctx.check(okr, "C08.3", "fees are rounded away from zero (never under-charged) to the symbol precision", rf, calls[0] if calls else rf.node,
              "round_decimal(amount, precision, rounding=ROUND_UP)", "fee rounding is not ROUND_UP to the symbol precision")
    st = [s for s in A.stores(rf) if isinstance(s.target, ast.Subscript) and A.dotted(s.target.value) == rf.params[1]]
    ctx.check(bool(st) and calls and st[0].node.value is calls[0], "C08.3", "the rounded fee replaces the raw fee", rf, st[0].stmt if st else rf.node,
              "fees[symbol] = rounded", "rounded fee is not stored back")
    po = ctx.func(f"{OM}._process_order")
    g = ctx.cfg(po)
    ups = [c for c in A.func_calls(po) if (A.call_name(c) or "") == "self._update_balances"][0]
    for meth in ("_round_balance_updates", "_round_fees"):
        cs = [c for c in A.func_calls(po) if (A.call_name(c) or "") == f"self.{meth}"]
        ok = bool(cs) and g.path_avoiding(g.entry, lambda n: n is g.nodes_for(ups)[0], lambda n: n in g.nodes_for(cs[0])) is None
        ctx.check(ok, "C08.3", f"{meth} runs before anything is applied to the account", po, cs[0] if cs else ups, "dominates the commit",
                  f"{meth} does not precede the commit: off-grid amounts reach the ledger")
    rp = ctx.func("basana.backtesting.loan_mgr.LoanManager.repay_loan")
    g2 = ctx.cfg(rp)
    tr = [c for c in A.func_calls(rp) if (A.call_name(c) or "").endswith(".truncate")]
    up2 = [c for c in A.func_calls(rp) if (A.call_name(c) or "").endswith("account_balances.update")]
    ok = bool(tr) and bool(up2) and g2.path_avoiding(g2.entry, lambda n: n is g2.nodes_for(up2[0])[0], lambda n: n in g2.nodes_for(tr[0])) is None
    ctx.check(ok, "C08.3", "interest is truncated to the symbol precision before it is debited", rp, tr[0] if tr else rp.node, "truncate dominates the update",
              "interest reaches the ledger untruncated")
    vt = ctx.func("basana.backtesting.value_map.ValueMap.truncate")
    ctx.check("helpers.truncate_decimal(amount, symbol_info.precision)" in ast.unparse(vt.node), "C08.3", "ValueMap.truncate truncates each symbol "
              "to its own precision", vt, vt.node, "ok", "ValueMap.truncate changed", key_text="valuemap truncate")


def rule_helpers(ctx: Ctx) -> None:
    td = ctx.func("basana.core.helpers.truncate_decimal")
    ctx.check("round_decimal(value, precision, rounding=decimal.ROUND_DOWN)" in ast.unparse(td.node), "C08.4", "truncate_decimal rounds toward zero",
              td, td.node, "ROUND_DOWN", "truncate_decimal no longer uses ROUND_DOWN (can exceed liquidity / pending)", key_text="truncate")
    rd = ctx.func("basana.core.helpers.round_decimal")
    src = ast.unparse(rd.node).replace('"', "'")
    ctx.check("value.quantize(Decimal(f'1e-{precision}'), rounding=rounding)" in src, "C08.4", "round_decimal quantises to 1e-precision", rd, rd.node,
              "quantize(1e-precision)", "round_decimal no longer quantises to 1e-precision", key_text="round")


PRECISION_MODULES = ("basana.backtesting.config", "basana.backtesting.order_mgr", "basana.backtesting.value_map", "basana.core.helpers",
                     "basana.core.pair")


def rule_precision_sources(ctx: Ctx) -> None:
    """C08.5: the precisions used for rounding are the configured ones.

    (a) 0 is a precision (whole units): no precision value (mypy type int / int | None) is used as a truth value in the modules that
        resolve and apply precisions -- `if precision:` treats a configured 0 as 'not configured';
    (b) the precision handed to round_decimal / truncate_decimal in OrderManager comes from the pair's PairInfo (base_precision for
        the base symbol, quote_precision for the quote symbol), which is where Config lets an explicit pair configuration win."""
    from .. import norm as N
    n_tests = 0
    for fn in ctx.repo.all_funcs():
        if fn.module.modname not in PRECISION_MODULES:
            continue
        for node in C.walk_shallow(fn.node):
            tests = []
            if isinstance(node, (ast.If, ast.While, ast.IfExp, ast.Assert)):
                tests.append(node.test)
            elif isinstance(node, ast.comprehension):
                tests.extend(node.ifs)
            for t in tests:
                ops = [t]
                for x in ast.walk(t):
                    if isinstance(x, ast.BoolOp):
                        ops.extend(x.values)
                    elif isinstance(x, ast.UnaryOp) and isinstance(x.op, ast.Not):
                        ops.append(x.operand)
                for o in ops:
                    if isinstance(o, (ast.BoolOp, ast.Compare, ast.UnaryOp, ast.Call, ast.Constant)):
                        continue
                    n_tests += 1
                    ty = (A.type_of(ctx, fn.module, o) or "").replace("builtins.", "")
                    if ty in ("int", "int | None", "Optional[int]", "Union[int, None]"):
                        ctx.bad("C08.5", "a precision is never used as a truth value (0 decimals is a valid precision)", fn, o,
                                f"'{ast.unparse(o)}' of type {ty} is tested for truth: a configured precision of 0 is treated as 'not configured' and "
                                "another precision (the default) is applied, so amounts are no longer multiples of the configured precision",
                                key_text=f"truthy int {ast.unparse(o)[:40]}")
    ctx.count("C08.5:truth tests inspected", n_tests)
    ctx.ok("C08.5", f"truth tests in the precision-handling modules inspected ({n_tests}); none is on an int", None, None, "ok", key_text="truthy ints scanned")
    # (b) provenance of the precision arguments in OrderManager
    n_calls = 0
    for meth in ("_round_balance_updates", "_round_fees"):
        fn = ctx.func(f"{OM}.{meth}")
        pi = [s.target.id for s in A.stores(fn) if isinstance(s.target, ast.Name) and hasattr(s.node, "value")
              and N.canon(s.node.value).replace(" ", "") in (f"self._ctx.config.get_pair_info({fn.params[2]})",)]
        for c in A.func_calls(fn, shallow=False):
            if (A.call_name(c) or "").split(".")[-1] not in ("round_decimal", "truncate_decimal") or len(c.args) < 2:
                continue
            n_calls += 1
            srcs = _precision_sources(fn, c.args[1])
            full = f"self._ctx.config.get_pair_info({fn.params[2]})"
            allowed = {f"{full}.base_precision", f"{full}.quote_precision"} | ({f"{pi[0]}.base_precision", f"{pi[0]}.quote_precision"} if pi else set())
            okp = bool(srcs) and all(s_.replace(" ", "") in allowed for s_ in srcs)
            ctx.check(okp, "C08.5", f"{meth}: the rounding precision comes from the pair's configuration", fn, c, f"{sorted(srcs)}",
                      f"precision argument '{ast.unparse(c.args[1])}' is taken from {sorted(srcs) or 'an unrecognised source'}, not from "
                      "get_pair_info(pair): an explicit pair precision no longer wins, fills / fees are rounded to another grid",
                      key_text=f"{meth} precision source {ast.unparse(c.args[1])[:30]}")
    ctx.floor("C08.5", "rounding calls in OrderManager", n_calls, 3)


def _precision_sources(fn, e: ast.AST, depth: int = 0) -> set:
    """Terminal expressions a precision argument can come from: through locals, and through iteration over a dict literal's values."""
    from .. import norm as N
    out: set = set()
    if depth > 5:
        return {"?"}
    if isinstance(e, ast.Name) and e.id not in fn.params:
        found = False
        for s in A.stores(fn, shallow=False):
            if not (isinstance(s.target, ast.Name) and s.target.id == e.id):
                continue
            found = True
            if isinstance(s.node, (ast.For, ast.comprehension)) or isinstance(getattr(s.node, "iter", None), ast.AST):
                it = s.node.iter
                # for symbol, precision in D.items(): values of the dict literal D
                if isinstance(it, ast.Call) and isinstance(it.func, ast.Attribute) and it.func.attr in ("items", "values"):
                    d = N.expand(fn, it.func.value)
                    if isinstance(d, ast.Dict):
                        for v in d.values:
                            out |= _precision_sources(fn, v, depth + 1)
                        continue
                out.add(f"<iteration over {ast.unparse(it)[:40]}>")
            elif hasattr(s.node, "value") and s.node.value is not None and not isinstance(s.node, ast.AugAssign):
                out |= _precision_sources(fn, s.node.value, depth + 1)
            else:
                out.add("?")
        if not found:
            out.add(e.id)
        return out
    if isinstance(e, ast.IfExp):
        return _precision_sources(fn, e.body, depth + 1) | _precision_sources(fn, e.orelse, depth + 1)
    return {N.canon(e)}


def run(ctx: Ctx) -> None:
    rule_precision_sources(ctx)
    rule_one_budget(ctx)
    rule_consumption(ctx)
    rule_quantisation(ctx)
    rule_helpers(ctx)
    ctx.assume("initial balances and loan principals are on the precision grid (the property's own premise)")
    ctx.assume("sums and differences of grid values are grid values")
