"""Helpers shared by several property modules."""
from __future__ import annotations

import ast
from typing import Any, Dict, List, Optional, Tuple

from .. import astutil as A
from .. import cfg as C

MARGIN = "basana.backtesting.lending.margin"


def margin_check_fn(ctx):
    """The function that judges an update by its margin level: it calls ``_calculate_margin_level`` and raises.  In the pinned snapshot
    that is MarginLoans._check_margin_level (called by CheckMarginLevel.check); after a move-method refactoring it can be the rule's own
    ``check``.  Parameter positions (self, balances, holds, borrowed) are the same in both."""
    for q in (f"{MARGIN}.MarginLoans._check_margin_level", f"{MARGIN}.CheckMarginLevel.check"):
        fn = ctx.repo.funcs.get(q)
        if fn is None:
            continue
        if any((A.call_name(c) or "").endswith("._calculate_margin_level") for c in A.func_calls(fn)) \
                and any(isinstance(n, ast.Raise) for n in C.walk_shallow(fn.node)):
            ctx.analysed_funcs.add(q)
            return fn
    from ..loader import AnchorMissing
    raise AnchorMissing("no function in basana.backtesting.lending.margin calls _calculate_margin_level and raises")


def margin_rule_early_exits(ctx) -> List[Dict[str, Any]]:
    """Early ``return``s of MarginLoans._check_margin_level that precede the raise guard, each with the truth table
    of its condition over the three orderings of (updated borrowed amount 'new', committed borrowed amount 'old').

    Recognised idiom:  ``if all(<amount> <op> <committed>.get(<symbol>, 0) for <symbol>, <amount> in
    <updated_borrowed>.items()): return``  with ``<committed>`` defined as ``...account_balances.borrowed``.
    Anything else that returns before the guard is reported with ``table=None`` (unrecognised)."""
    fn = margin_check_fn(ctx)
    raises = [n for n in C.walk_shallow(fn.node) if isinstance(n, ast.Raise)]
    ctx.require(raises, "_check_margin_level has no raise")
    first_raise = min(A.seq(r) for r in raises)
    borrowed_param = fn.params[3]
    out = []
    from .. import norm as N

    def simplify(e: ast.AST) -> ast.AST:
        while isinstance(e, ast.UnaryOp) and isinstance(e.op, ast.Not) and isinstance(e.operand, ast.UnaryOp) and isinstance(e.operand.op, ast.Not):
            e = e.operand.operand
        return e
    # conditions under which the rule does not get to its raise: an early `if T: return` (exit when T), or an `if G:` around the raise
    # (exit when not G); flags are expanded (`is_borrowing = not all(...)`), double negations removed
    cands = []
    for n in C.walk_shallow(fn.node):
        if isinstance(n, ast.If) and A.seq(n) < first_raise and any(isinstance(b, ast.Return) for b in n.body):
            cands.append((n, simplify(N.expand(fn, n.test)), n.test))
    first = min(raises, key=A.seq)
    for a in A.ancestors(first):
        if isinstance(a, ast.If):
            in_body = any(A.is_within(first, b) for b in a.body)
            t_ = N.expand(fn, a.test)
            cands.append((a, simplify(t_ if not in_body else ast.UnaryOp(op=ast.Not(), operand=t_)), a.test))
    for n, t, t_orig in cands:
        ent: Dict[str, Any] = {"node": n, "table": None, "fn": fn}
        # tests over the computed margin level itself are part of the raise guard, not a frame-rule exit
        names = {x.id for x in ast.walk(t_orig) if isinstance(x, ast.Name)}
        lvl = {s.target.id for s in A.stores(fn) if isinstance(s.target, ast.Name) and isinstance(s.node, ast.Assign)
               and isinstance(s.node.value, ast.Call) and (A.call_name(s.node.value) or "").endswith("._calculate_margin_level")}
        if names and names <= (lvl | {"Decimal"}):
            continue
        ent["quantifier"] = A.call_name(t) if isinstance(t, ast.Call) else None
        if isinstance(t, ast.Call) and A.call_name(t) in ("all", "any") and len(t.args) == 1 \
                and isinstance(t.args[0], (ast.GeneratorExp, ast.ListComp)) and len(t.args[0].generators) == 1:
            gen = t.args[0].generators[0]
            elt = t.args[0].elt
            ok_iter = isinstance(gen.iter, ast.Call) and A.call_name(gen.iter) == f"{borrowed_param}.items" \
                and isinstance(gen.target, ast.Tuple) and len(gen.target.elts) == 2 and not gen.ifs
            if ok_iter and isinstance(elt, ast.Compare) and len(elt.ops) == 1:
                sym, amt = gen.target.elts[0].id, gen.target.elts[1].id

                def side(e: ast.AST) -> Optional[str]:
                    if isinstance(e, ast.Name) and e.id == amt:
                        return "new"
                    if isinstance(e, ast.Call) and isinstance(e.func, ast.Attribute) and e.func.attr == "get" and e.args \
                            and isinstance(e.args[0], ast.Name) and e.args[0].id == sym and (A.dotted(e.func.value) or "").endswith("account_balances.borrowed"):
                        return "old"
                    if isinstance(e, ast.Call) and isinstance(e.func, ast.Attribute) and e.func.attr == "get" and e.args \
                            and isinstance(e.args[0], ast.Name) and e.args[0].id == sym and isinstance(e.func.value, ast.Name):
                        # the map must be the committed borrowed map
                        for s in A.stores(fn):
                            if isinstance(s.target, ast.Name) and s.target.id == e.func.value.id \
                                    and isinstance(s.node, ast.Assign) and (A.dotted(N.expand(fn, s.node.value)) or "").endswith(
                                        "account_balances.borrowed"):
                                return "old"
                    return None
                l, r = side(elt.left), side(elt.comparators[0])
                if {l, r} == {"new", "old"}:
                    tbl = {}
                    for name, (nv, ov) in (("new<old", (1, 2)), ("new==old", (2, 2)), ("new>old", (3, 2))):
                        x, y = (nv, ov) if l == "new" else (ov, nv)
                        op = elt.ops[0]
                        tbl[name] = {ast.Lt: x < y, ast.LtE: x <= y, ast.Gt: x > y, ast.GtE: x >= y, ast.Eq: x == y,
                                     ast.NotEq: x != y}.get(type(op))
                    ent["table"] = tbl
        out.append(ent)
    return out
