"""C04 -- execution price and trigger guarantees per order type (abstract interpretation over weak orderings).

The same exploration also produces the obligations that C05 (fill-or-kill amounts) and C08 (fill <= liquidity) need;
they are exposed through ``explore_orders`` and re-labelled by those modules.
"""
from __future__ import annotations

import ast
from typing import Any, Dict, Iterator, List, Optional, Set, Tuple

from .. import absint as AI
from .. import astutil as A
from .. import cells as K
from .. import cfg as C
from .. import loader
from ..core import Ctx, AnalysisError

PROP = "C04"
EXPLANATION = (
    "C04.1: Order.get_balance_updates of MarketOrder, LimitOrder, StopOrder and StopLimitOrder (helper methods and "
    "slipped_price are interpreted, not summarised) is abstractly interpreted for BUY and SELL, both latch states, over "
    "ALL weak orderings of {open, high, low, close, limit, stop} consistent with the bar invariant (which is C19.1) "
    "times the 4 orderings of {0, pending, liquidity}; the code only ever compares these quantities, so this is a "
    "complete case split of the infinite input space. On every abstract outcome: a limit/stop-limit fill happens only "
    "when the range reaches the limit and its price bound is no worse than the limit; no price is better than the bar "
    "extreme; market/stop prices lie in [low, high] and are no better than open / the stop price; a stop fill or latch "
    "needs the range to reach the stop; completeness with ample liquidity (market always, limit iff range reaches the "
    "limit, stop iff range reaches the stop); fill amounts are bounded by pending and liquidity and market/stop orders "
    "fill entirely or not at all. C04.2: the order manager re-derives the quote amount from the truncated base amount "
    "before rounding it (effective price unchanged by truncation). C04.3: request validation forces amounts and every "
    "price a request carries to be > 0 (threshold cells) and on the pair's precision grid, before the order exists. "
    "Numeric size of slippage and rounding to quote precision are not claimed."
    " C04.5 (shared with C05.5): the open-order index never loses an order that is still open."
    " C04.5 also (shared with C05.2): the matching loop is on every normal path of on_bar_event."
    " C04.1 also: an order computes its fills from its own state (matching is not delegated to another order object)."
)
TRUSTED = ["CPython ast parser", "sa.absint weak-ordering interpreter (intervals over ranks; undetermined comparisons fork)",
           "assumption: prices > 0 and price impact >= 0 (asserted / validated in the code, see C04.3)"]

ORD = "basana.backtesting.orders"
CLASSES = {
    "MarketOrder": ("market", []),
    "LimitOrder": ("limit", ["LIM"]),
    "StopOrder": ("stop", ["STP"]),
    "StopLimitOrder": ("stoplimit", ["LIM", "STP"]),
}


def _class_methods(ctx: Ctx, cls: str) -> Dict[str, ast.AST]:
    out: Dict[str, ast.AST] = {}
    for c in reversed(ctx.facts.mro.get(cls, [cls])):
        for name, fn in ctx.repo.methods_of(c).items():
            out[name] = fn.node
    return out


def _bar_consistent(o: Dict[str, int]) -> bool:
    return o["L"] <= o["O"] <= o["H"] and o["L"] <= o["C"] <= o["H"]


AMOUNT_ORDERINGS = [
    {"0": 0, "LIQ": 0, "PEND": 1},     # nothing available
    {"0": 0, "LIQ": 1, "PEND": 2},     # 0 < liquidity < pending
    {"0": 0, "LIQ": 1, "PEND": 1},     # liquidity == pending
    {"0": 0, "PEND": 1, "LIQ": 2},     # pending < liquidity
]


class Case:
    __slots__ = ("kind", "op", "latch", "po", "ao", "outcome", "fill", "cls")


def _norm_prod(v: Any) -> Optional[Tuple[float, List[AI.Num]]]:
    if isinstance(v, AI.Num):
        return (1.0, [v])
    if isinstance(v, AI.Prod) and v.sign.lo == v.sign.hi and v.sign.lo in (1.0, -1.0):
        return (v.sign.lo, list(v.factors))
    return None


def explore_orders(ctx: Ctx) -> List[Case]:
    """Run the abstract interpretation once per Ctx and cache the cases."""
    cached = getattr(ctx, "_order_cases", None)
    if cached is not None:
        return cached
    mod = ctx.repo.module(ORD)
    helpers_mod = ctx.repo.module("basana.backtesting.helpers")
    funcs: Dict[str, ast.AST] = {}
    for n in mod.tree.body:
        if isinstance(n, ast.FunctionDef):
            funcs[n.name] = n
    hfuncs = {n.name: ("func", n) for n in helpers_mod.tree.body if isinstance(n, ast.FunctionDef)}
    cases: List[Case] = []
    n_eval = 0
    for cname, (kind, extra) in CLASSES.items():
        cls = f"{ORD}.{cname}"
        ctx.require(cls in ctx.repo.classes, f"C04.1: class {cls} not found")
        methods = _class_methods(ctx, cls)
        ctx.require("get_balance_updates" in methods, f"C04.1: {cname}.get_balance_updates not found")
        entry = methods["get_balance_updates"]
        ctx.analysed_funcs.add(f"{cls}.get_balance_updates")
        # an order matches against its own state: delegating to another Order object (composition) reads that object's pending amount,
        # which nobody updates with the fills -- the delegate keeps offering the full amount
        deleg = []
        for mname, mdef in methods.items():
            for c_ in ast.walk(mdef):
                if isinstance(c_, ast.Call) and isinstance(c_.func, ast.Attribute) and c_.func.attr.startswith("get_balance_updates") \
                        and isinstance(c_.func.value, ast.Attribute) and isinstance(c_.func.value.value, ast.Name) and c_.func.value.value.id == "self":
                    deleg.append((mname, c_))
        if deleg:
            fq_ = ctx.repo.funcs.get(f"{cls}.{deleg[0][0]}") or ctx.repo.funcs.get(f"{cls}.get_balance_updates")
            ctx.bad("C04.1", f"{cname} computes its fills from its own state", fq_, deleg[0][1],
                    f"'{ast.unparse(deleg[0][1])[:70]}' delegates matching to another order object: that object's filled / pending amounts are never "
                    "updated by add_fill, so every bar offers the full ordered amount again and the order can be filled beyond its amount",
                    key_text=f"delegated matching {cname}")
            continue
        syms = ["O", "H", "L", "C"] + extra
        latches = [False, True] if kind == "stoplimit" else [False]
        for po in AI.weak_orderings(syms):
            if not _bar_consistent(po):
                continue
            for ao in AMOUNT_ORDERINGS:
                for op in ("BUY", "SELL"):
                    for latch in latches:
                        def make_self(latch=latch, op=op, po=po, ao=ao):
                            attrs: Dict[str, Any] = {
                                "amount_pending": AI.Num(ao["PEND"], ao["PEND"], "amount"),
                                "operation": AI.Tok(op), "_operation": AI.Tok(op),
                                "pair": AI.Obj("pair", {"base_symbol": AI.Tok("base"), "quote_symbol": AI.Tok("quote")}),
                                "id": AI.OPAQUE, "_id": AI.OPAQUE,
                            }
                            if "LIM" in po:
                                attrs["_limit_price"] = AI.Num(po["LIM"], po["LIM"], "price")
                            if "STP" in po:
                                attrs["_stop_price"] = AI.Num(po["STP"], po["STP"], "price")
                            mutable = {"_stop_price_hit": AI.BoolV(latch)} if kind == "stoplimit" else {}
                            return AI.Obj("self", attrs, mutable, methods)

                        def run(it: AI.Interp, po=po, ao=ao, entry=entry):
                            bar = AI.Obj("bar", {k2: AI.Num(po[k], po[k], "price") for k, k2 in
                                                 (("O", "open"), ("H", "high"), ("L", "low"), ("C", "close"))})
                            liq = AI.Obj("liquidity_strategy", {
                                "available_liquidity": AI.Num(ao["LIQ"], ao["LIQ"], "amount"),
                                "calculate_price_impact": lambda it_, args, kw: AI.Scalar(0.0, AI.INF),
                            })
                            params = [a.arg for a in entry.args.args]
                            env = {params[0]: it.globals["__self__"], params[1]: bar, params[2]: liq}
                            try:
                                it.exec_block(entry.body, env)
                            except AI._Return as r:
                                return r.value
                            return AI.NONE
                        glb = {
                            "__zero__": {"price": -1, "amount": ao["0"]},
                            "OrderOperation": ("module", {"BUY": AI.Tok("BUY"), "SELL": AI.Tok("SELL")}),
                            "helpers": ("module", hfuncs),
                            "logger": AI.OPAQUE, "logs": AI.OPAQUE,
                        }
                        try:
                            outs = AI.explore(run, funcs, glb, make_self)
                        except AI.Unsupported as e:
                            raise AnalysisError(f"C04.1: {cname}.get_balance_updates uses a construct the weak-ordering "
                                                f"interpreter does not model: {e}")
                        for o in outs:
                            n_eval += 1
                            c = Case()
                            c.kind, c.op, c.latch, c.po, c.ao, c.outcome, c.cls = kind, op, latch, po, ao, o, cname
                            c.fill = None
                            if o.kind == "return" and isinstance(o.value, AI.DictV) and o.value.items:
                                d = {k.name if isinstance(k, AI.Tok) else str(k): v for k, v in o.value.items}
                                c.fill = d
                            cases.append(c)
    ctx.count("eval:abstract order evaluations", n_eval)
    ctx._order_cases = cases
    return cases


def _desc(c: Case) -> str:
    return (f"{c.cls} {c.op}{' latch=' + str(c.latch) if c.kind == 'stoplimit' else ''} "
            f"prices[{AI.describe(c.po)}] amounts[{AI.describe(c.ao)}]")


class Tally:
    def __init__(self) -> None:
        self.bad: Dict[str, List[str]] = {}
        self.n: Dict[str, int] = {}

    def check(self, ob: str, ok: bool, c: Case, why: str = "") -> None:
        self.n[ob] = self.n.get(ob, 0) + 1
        if not ok:
            self.bad.setdefault(ob, []).append(f"{_desc(c)}: {why}")


def evaluate_obligations(ctx: Ctx) -> Tally:
    t = Tally()
    for c in explore_orders(ctx):
        o = c.outcome
        po, ao = c.po, c.ao
        ample = ao["PEND"] <= ao["LIQ"]
        key = c.cls
        if o.kind != "return":
            t.check(f"{key}|NOCRASH", False, c, f"evaluation ends with {o.kind} {o.value}")
            continue
        t.check(f"{key}|NOCRASH", True, c)
        latch_after = None
        if c.kind == "stoplimit":
            v = o.state.get("_stop_price_hit")
            latch_after = v.v if isinstance(v, AI.BoolV) else None
            t.check(f"{key}|LATCH-MONOTONE", not (c.latch and latch_after is False), c, "latch reset")
        reach_lim = None if "LIM" not in po else (po["L"] <= po["LIM"] if c.op == "BUY" else po["H"] >= po["LIM"])
        reach_stp = None if "STP" not in po else (po["H"] >= po["STP"] if c.op == "BUY" else po["L"] <= po["STP"])
        fill = c.fill
        if fill is None:
            # completeness
            if c.kind == "market":
                t.check(f"{key}|COMPLETE", not ample, c, "market order with pending <= liquidity was not filled")
            elif c.kind == "limit":
                t.check(f"{key}|COMPLETE", not (ample and reach_lim), c, "range reaches the limit, liquidity ample, not filled")
            elif c.kind == "stop":
                t.check(f"{key}|COMPLETE", not (ample and reach_stp), c, "range reaches the stop, liquidity ample, not filled")
            if c.kind == "stoplimit" and not c.latch:
                t.check(f"{key}|STP1", not (latch_after and not reach_stp), c, "latch set although the range does not reach the stop")
            continue
        # ---- a fill
        b = _norm_prod(fill.get("base"))
        q = _norm_prod(fill.get("quote"))
        ok_shape = b is not None and q is not None and len(b[1]) == 1 and b[1][0].dom == "amount" and len(q[1]) == 2 \
            and sorted(f.dom for f in q[1]) == ["amount", "price"]
        t.check(f"{key}|SHAPE", ok_shape, c, f"fill is not {{base: amount*sign, quote: price*amount*-sign}}: {fill}")
        if not ok_shape:
            continue
        amount = b[1][0]
        price = next(f for f in q[1] if f.dom == "price")
        qamount = next(f for f in q[1] if f.dom == "amount")
        want = (1.0, -1.0) if c.op == "BUY" else (-1.0, 1.0)
        t.check(f"{key}|SIGN", (b[0], q[0]) == want, c, f"signs base {b[0]:+g} quote {q[0]:+g}")
        t.check(f"{key}|SAME-AMOUNT", (qamount.lo, qamount.hi) == (amount.lo, amount.hi), c, "quote uses a different amount than base")
        t.check(f"{key}|AMOUNT<=PENDING", amount.hi <= ao["PEND"], c, f"amount {amount} exceeds pending")
        t.check(f"{key}|AMOUNT<=LIQUIDITY", amount.hi <= ao["LIQ"], c, f"amount {amount} exceeds the bar's available liquidity")
        t.check(f"{key}|AMOUNT>0", amount.lo > ao["0"], c, f"zero-amount fill {amount}")
        if c.kind in ("market", "stop"):
            t.check(f"{key}|FILL-OR-KILL", amount.lo == amount.hi == ao["PEND"], c, f"partial fill {amount} of a {c.kind} order")
        L, H, O = po["L"], po["H"], po["O"]
        if c.op == "BUY":
            t.check(f"{key}|EXT", price.lo >= L, c, f"buy price bound {price} below the bar's low")
        else:
            t.check(f"{key}|EXT", price.hi <= H, c, f"sell price bound {price} above the bar's high")
        if c.kind in ("market", "stop"):
            t.check(f"{key}|RANGE", price.lo >= L and price.hi <= H, c, f"price {price} outside [low, high]")
        if c.kind == "market":
            t.check(f"{key}|NOBETTER", price.lo >= O if c.op == "BUY" else price.hi <= O, c, f"price {price} better than the open")
        if c.kind == "stop":
            S = po["STP"]
            t.check(f"{key}|NOBETTER", price.lo >= S if c.op == "BUY" else price.hi <= S, c, f"price {price} better than the stop price")
            t.check(f"{key}|STP1", bool(reach_stp), c, "stop order filled in a bar whose range does not reach the stop")
        if c.kind in ("limit", "stoplimit"):
            LIM = po["LIM"]
            t.check(f"{key}|LIM1", bool(reach_lim), c, "filled in a bar whose range does not reach the limit")
            t.check(f"{key}|LIM2", price.hi <= LIM if c.op == "BUY" else price.lo >= LIM, c,
                    f"price bound {price} worse than the limit (rank {LIM})")
        if c.kind == "stoplimit" and not c.latch:
            t.check(f"{key}|STP1", bool(reach_stp) and latch_after is True, c,
                    "stop-limit filled before a bar whose range reaches the stop (or without latching)")
    return t


OB_TEXT = {
    "NOCRASH": ("evaluation returns normally (no assertion failure / type error)", "C04.1"),
    "SHAPE": ("a fill is {base: amount*sign, quote: price*amount*-sign}", "C04.1"),
    "SIGN": ("buy receives base and pays quote; sell the opposite", "C04.1"),
    "SAME-AMOUNT": ("quote amount is computed for the base amount filled", "C04.1"),
    "LIM1": ("limit/stop-limit fills only in a bar whose range reaches the limit", "C04.1"),
    "LIM2": ("limit/stop-limit price bound is never worse than the limit", "C04.1"),
    "EXT": ("no price better than the bar's extreme (buy >= low, sell <= high)", "C04.1"),
    "RANGE": ("market/stop price inside [low, high]", "C04.1"),
    "NOBETTER": ("market never better than open, stop never better than the stop price", "C04.1"),
    "STP1": ("stop / stop-limit trades (or latches) only when the range reaches the stop", "C04.1"),
    "COMPLETE": ("with ample liquidity: market always fills, limit/stop fill iff the range reaches limit/stop", "C04.1"),
    "LATCH-MONOTONE": ("the stop latch is never reset", "C04.1"),
    "AMOUNT<=PENDING": ("fill amount never exceeds the pending amount", "C05.3"),
    "AMOUNT<=LIQUIDITY": ("fill amount never exceeds the bar's available liquidity", "C08.2"),
    "AMOUNT>0": ("no zero-amount fills", "C04.1"),
    "FILL-OR-KILL": ("market/stop orders fill entirely or not at all", "C05.2"),
}


def report(ctx: Ctx, t: Tally, rules_for: Optional[set] = None, relabel: Optional[str] = None) -> None:
    for ob in sorted(t.n):
        cls, name = ob.split("|")
        text, rule = OB_TEXT[name]
        if rules_for is not None and rule not in rules_for:
            continue
        fn = ctx.repo.funcs.get(f"{ORD}.{cls}.get_balance_updates")
        bad = t.bad.get(ob, [])
        ctx.check(not bad, relabel or rule, f"{cls}: {text}", fn, fn.node if fn else None,
                  f"holds on all {t.n[ob]} abstract outcomes", f"violated on {len(bad)} of {t.n[ob]} abstract outcomes, e.g. {bad[0] if bad else ''}",
                  key_text=f"{cls} {name}", detail={"counterexamples": bad[:8]})


# -- C04.2 ------------------------------------------------------------------------------------------------------
def rule_round(ctx: Ctx, rule: str = "C04.2") -> None:
    fn = ctx.func("basana.backtesting.order_mgr.OrderManager._round_balance_updates")
    m = fn.params[1]
    pair = fn.params[2]
    stores = [s for s in A.stores(fn) if isinstance(s.target, ast.Subscript) and A.dotted(s.target.value) == m]
    base_st = [s for s in stores if A.dotted(s.target.slice) == f"{pair}.base_symbol"]
    quote_st = [s for s in stores if A.dotted(s.target.slice) == f"{pair}.quote_symbol"]
    ctx.require(base_st and quote_st, f"{rule}: _round_balance_updates no longer stores base and quote entries")
    # base: truncated to the base precision
    bval = base_st[-1].node.value
    if isinstance(bval, ast.Name):
        defs = [s.node.value for s in A.stores(fn) if isinstance(s.target, ast.Name) and s.target.id == bval.id and hasattr(s.node, "value")]
        tname = bval.id
        bval = defs[0] if defs else bval
    else:
        tname = None
    okb = isinstance(bval, ast.Call) and (A.call_name(bval) or "").endswith("truncate_decimal") and len(bval.args) == 2 \
        and (A.dotted(bval.args[1]) or "").endswith("base_precision")
    ctx.check(okb, rule, "base amount is truncated (toward zero) to the base precision", fn, base_st[-1].stmt,
              "truncate_decimal(base, base_precision)", f"base amount stored as {ast.unparse(bval)[:60]}", key_text="base truncated")
    orig = A.dotted(bval.args[0]) if okb else None
    # quote: last store is round_decimal(q, quote_precision) and q was re-derived from the truncated base
    last = sorted(quote_st, key=lambda s: A.seq(s.stmt))[-1]
    qv = last.node.value if not isinstance(last.node, ast.AugAssign) else None
    okq = isinstance(qv, ast.Call) and (A.call_name(qv) or "").endswith("round_decimal") and len(qv.args) >= 2 \
        and (A.dotted(qv.args[1]) or "").endswith("quote_precision") and not qv.keywords
    ctx.check(okq, rule, "the quote amount is rounded to the quote precision by its last write", fn, last.stmt,
              "round_decimal(quote, quote_precision) is the final store", "the final value stored for the quote symbol is not "
              "rounded to the quote precision (sub-precision dust in balances)", key_text="quote rounded last")
    rederived = False
    if okq and isinstance(qv.args[0], ast.Name) and tname and orig:
        qn = qv.args[0].id
        for s in A.stores(fn):
            if isinstance(s.target, ast.Name) and s.target.id == qn and hasattr(s.node, "value") and A.seq(s.stmt) < A.seq(last.stmt):
                names = {x.id for x in ast.walk(s.node.value) if isinstance(x, ast.Name)}
                ops = {type(x.op) for x in ast.walk(s.node.value) if isinstance(x, ast.BinOp)}
                if {qn, tname, orig} <= names and ast.Mult in ops and ast.Div in ops:
                    rederived = True
    ctx.check(rederived, rule, "quote amount is re-derived from the truncated base amount (fill price unchanged by truncation)", fn,
              last.stmt, "quote * truncated / original before rounding",
              "the base amount of a fill is truncated but the quote amount computed for the untruncated amount is kept: a "
              "liquidity-capped limit order pays more per unit than its limit price", key_text="quote re-derived from truncated base")


# -- C04.3 ------------------------------------------------------------------------------------------------------
def rule_validation(ctx: Ctx) -> None:
    req = "basana.backtesting.requests"
    base = ctx.func(f"{req}.ExchangeOrder.validate")
    carries = {"MarketOrder": [], "LimitOrder": ["limit_price"], "StopOrder": ["stop_price"], "StopLimitOrder": ["stop_price", "limit_price"]}

    def checks_in(fn: loader.Func) -> Tuple[Dict[str, Dict[str, Any]], Dict[str, str]]:
        """attr -> truth table of the '<= 0' style raise guard; attr -> precision used in the grid test."""
        pos: Dict[str, Dict[str, Any]] = {}
        grid: Dict[str, str] = {}
        for n in C.walk_shallow(fn.node):
            if not (isinstance(n, ast.If) and any(isinstance(b, ast.Raise) for b in n.body)):
                continue
            t = n.test
            if isinstance(t, ast.Compare) and len(t.ops) == 1 and K.const_num(t.comparators[0]) is not None \
                    and (A.dotted(t.left) or "").startswith("self."):
                attr = (A.dotted(t.left) or "")[5:]
                g = ast.Compare(left=ast.Name(id="x", ctx=ast.Load()), ops=t.ops, comparators=t.comparators)
                pos[attr] = K.truth_table(ast.fix_missing_locations(g), "x", extra=[0.0])
            if isinstance(t, ast.Compare) and len(t.ops) == 1 and isinstance(t.ops[0], ast.NotEq) \
                    and isinstance(t.comparators[0], ast.Call) and (A.call_name(t.comparators[0]) or "").endswith("truncate_decimal"):
                call = t.comparators[0]
                subj = A.dotted(t.left)
                if subj == A.dotted(call.args[0]) and len(call.args) == 2:
                    prec = (A.dotted(call.args[1]) or "").split(".")[-1]
                    if subj and subj.startswith("self."):
                        grid[subj[5:]] = prec
                    elif subj:   # loop variable over [self.a, self.b]
                        loop = next((a for a in A.ancestors(n) if isinstance(a, ast.For)), None)
                        if loop is not None and isinstance(loop.iter, (ast.List, ast.Tuple)):
                            for e in loop.iter.elts:
                                d = A.dotted(e) or ""
                                if d.startswith("self."):
                                    grid[d[5:]] = prec
        return pos, grid
    bpos, bgrid = checks_in(base)
    tt = bpos.get("amount")
    ctx.check(tt is not None and tt["(-inf,0)"] and tt["{0}"] and not tt["(0,+inf)"], "C04.3", "amount must be > 0 (threshold cells)",
              base, base.node, str(tt), f"amount positivity guard has truth table {tt}", key_text="amount > 0")
    ctx.check(bgrid.get("amount") == "base_precision", "C04.3", "amount must be on the base precision grid", base, base.node,
              "amount != truncate(amount, base_precision) -> error", f"amount grid test uses {bgrid.get('amount')}", key_text="amount grid")
    for cname, prices in carries.items():
        fn = ctx.repo.funcs.get(f"{req}.{cname}.validate")
        ctx.require(fn is not None, f"C04.3: {cname}.validate not found")
        ctx.analysed_funcs.add(fn.qualname)
        sup = any((A.call_name(c) or "") == "super().validate" for c in A.func_calls(fn))
        ctx.check(sup, "C04.3", f"{cname}.validate extends the base validation", fn, fn.node, "super().validate(pair_info)",
                  "amount validation is skipped for this request type", key_text=f"{cname} super")
        pos, grid = checks_in(fn)
        for p in prices:
            tt = pos.get(p)
            ctx.check(tt is not None and tt["(-inf,0)"] and tt["{0}"] and not tt["(0,+inf)"], "C04.3",
                      f"{cname}: {p} must be > 0 (threshold cells)", fn, fn.node, str(tt), f"{p} positivity guard: {tt}",
                      key_text=f"{cname} {p} > 0")
            ctx.check(grid.get(p) == "quote_precision", "C04.3", f"{cname}: {p} must be on the quote precision grid", fn, fn.node,
                      "price != truncate(price, quote_precision) -> error", f"{p} grid test uses {grid.get(p)}",
                      key_text=f"{cname} {p} grid")
        # the order is created from the validated attributes
        co = ctx.func(f"{req}.{cname}.create_order")
        src = ast.unparse(co.node)
        ok = "self.amount" in src and all((f"self._{p}" in src or f"self.{p}" in src) for p in prices)
        ctx.check(ok, "C04.3", f"{cname}.create_order builds the order from the validated values", co, co.node, "ok",
                  "created order does not use the validated amount/prices", key_text=f"{cname} create uses validated")
    ex = ctx.func("basana.backtesting.exchange.Exchange.create_order")
    g = ctx.cfg(ex)
    val = [c for c in A.func_calls(ex) if (A.call_name(c) or "").endswith(".validate")]
    mk = [c for c in A.func_calls(ex) if (A.call_name(c) or "").endswith(".create_order") or (A.call_name(c) or "").endswith(".add_order")]
    ctx.floor("C04.3", "validate calls in Exchange.create_order", len(val), 1)
    ctx.floor("C04.3", "create/add order calls in Exchange.create_order", len(mk), 2)
    vn = [n for c in val for n in g.nodes_for(c)]
    for c in mk:
        for n in g.nodes_for(c):
            p = g.path_avoiding(g.entry, lambda x: x is n, lambda x: x in vn)
            ctx.check(p is None, "C04.3", "validation precedes order creation and acceptance", ex, c, "validate dominates",
                      "an order can be created/accepted without validation", detail={"path": C.fmt_path(p) if p else []})
    # order constructors assert positivity (stated beliefs the interpreter relies on)
    for cname, (kind, extra) in CLASSES.items():
        init = ctx.repo.funcs.get(f"{ORD}.{cname}.__init__")
        if init is None:
            continue
        asserts = [ast.unparse(n.test) for n in C.walk_shallow(init.node) if isinstance(n, ast.Assert)]
        need = [{"LIM": "limit_price > Decimal(0)", "STP": "stop_price > Decimal(0)"}[e] for e in extra]
        ctx.check(all(x in asserts for x in need), "C04.3", f"{cname} asserts its prices are positive", init, init.node,
                  str(need), f"missing positivity assertion(s): {[x for x in need if x not in asserts]}", key_text=f"{cname} asserts")


def _nonneg_returns(ctx: Ctx, cls: str, fn, why: List[str], seen: Set[str]) -> bool:
    """Sign analysis: every value the function returns is >= 0.  Domain {>=0, unknown}; constants, products and quotients of
    non-negatives, even powers, locals (every definition), ``self._h(...)`` helpers of the same class (every return) and attributes
    whose only definition in ``__init__`` is non-negative under the constructor's own assertions."""
    if fn.qualname in seen:
        return False
    seen = seen | {fn.qualname}
    ctx.analysed_funcs.add(fn.qualname)
    rets = [r for r in C.walk_shallow(fn.node) if isinstance(r, ast.Return) and r.value is not None]
    if not rets:
        why.append(f"{fn.name}: no return")
        return False
    facts: Set[str] = set()
    if fn.name == "__init__":
        facts = {ast.unparse(n.test) for n in C.walk_shallow(fn.node) if isinstance(n, ast.Assert)}
    return all(_nonneg(ctx, cls, fn, r.value, why, seen, facts) for r in rets)


def _nonneg(ctx: Ctx, cls: str, fn, e: ast.AST, why: List[str], seen: Set[str], facts: Set[str], depth: int = 0) -> bool:
    from .. import norm as N
    if depth > 12:
        return False
    c = K.const_num(e)
    if c is not None:
        why.append(ast.unparse(e))
        return c >= 0
    if isinstance(e, ast.BinOp):
        if isinstance(e.op, ast.Pow):
            ex = K.const_num(e.right)
            if ex is not None and ex == int(ex) and int(ex) % 2 == 0:
                why.append("even power")
                return True
            return False
        if isinstance(e.op, (ast.Mult, ast.Div, ast.Add)):
            return _nonneg(ctx, cls, fn, e.left, why, seen, facts, depth + 1) and _nonneg(ctx, cls, fn, e.right, why, seen, facts, depth + 1)
        return False
    if isinstance(e, ast.IfExp):
        return _nonneg(ctx, cls, fn, e.body, why, seen, facts, depth + 1) and _nonneg(ctx, cls, fn, e.orelse, why, seen, facts, depth + 1)
    if isinstance(e, ast.Name):
        if e.id in fn.params:
            ok = any(f.replace(" ", "") in (f"{e.id}>=Decimal(0)", f"{e.id}>Decimal(0)", f"{e.id}>=0", f"{e.id}>0") for f in facts)
            why.append(f"{e.id} asserted non-negative" if ok else f"parameter {e.id} of unknown sign")
            return ok
        ds = N.defs(fn).get(e.id, [])
        return bool(ds) and all(not isinstance(d, ast.AugAssign) and _nonneg(ctx, cls, fn, d, why, seen, facts, depth + 1) for d in ds)
    if isinstance(e, ast.Call) and (A.call_name(e) or "").startswith("self.") and (A.call_name(e) or "").count(".") == 1:
        h = ctx.repo.funcs.get(f"{cls}.{A.call_name(e).split('.')[1]}")
        return h is not None and _nonneg_returns(ctx, cls, h, why, seen)
    if isinstance(e, ast.Call) and A.call_name(e) in ("abs",):
        return True
    if isinstance(e, ast.Call) and A.call_name(e) in ("max",) and e.args:
        return any(_nonneg(ctx, cls, fn, a, why, seen, facts, depth + 1) for a in e.args)
    if isinstance(e, ast.Attribute) and A.dotted(e) and A.dotted(e).startswith("self.") and A.dotted(e).count(".") == 1:
        init = ctx.repo.funcs.get(f"{cls}.__init__")
        if init is None:
            return False
        writers = [(f2, s_) for f2 in ctx.repo.methods_of(cls).values() for s_ in A.stores(f2) if A.dotted(s_.target) == A.dotted(e)]
        if not writers or any(f2 is not init or not isinstance(s_.node, (ast.Assign, ast.AnnAssign)) for f2, s_ in writers):
            why.append(f"{A.dotted(e)} is written outside __init__")
            return False
        ifacts = {ast.unparse(n.test) for n in C.walk_shallow(init.node) if isinstance(n, ast.Assert)}
        return all(_nonneg(ctx, cls, init, s_.node.value, why, seen, ifacts, depth + 1) for _, s_ in writers)
    why.append(f"unrecognised {ast.unparse(e)[:40]}")
    return False


def rule_impact_sign(ctx: Ctx) -> None:
    """Discharges the interpreter's assumption 'price impact >= 0' for every LiquidityStrategy in basana."""
    base = "basana.backtesting.liquidity.LiquidityStrategy"
    impls = [c for c in ctx.facts.subclasses(base) if c != base and c in ctx.repo.classes]
    ctx.floor("C04.4", "liquidity strategies", len(impls), 2)
    for cls in impls:
        fn = ctx.repo.funcs.get(f"{cls}.calculate_price_impact")
        ctx.require(fn is not None, f"C04.4: {cls}.calculate_price_impact not found")
        ctx.analysed_funcs.add(fn.qualname)
        why: List[str] = []
        ok = _nonneg_returns(ctx, cls, fn, why, set())
        ctx.check(ok, "C04.4", f"{cls.rsplit('.', 1)[-1]}: price impact is never negative (premise of the slippage bounds)", fn, fn.node, str(why),
                  f"cannot establish impact >= 0 ({why}): a negative impact would move a buy below / a sell above the reference price",
                  key_text=f"impact sign {cls}")


def run(ctx: Ctx) -> None:
    rule_impact_sign(ctx)
    t = evaluate_obligations(ctx)
    ctx.exhaustive = True
    report(ctx, t, rules_for={"C04.1"})
    sample = [c for c in explore_orders(ctx) if c.fill is not None][:3]
    for c in sample:
        ctx.sample({"rule": "C04.1", "case": _desc(c), "fill": repr(c.fill), "latch_after": repr(c.outcome.state.get("_stop_price_hit"))})
    ctx.note(f"abstract cases explored: {len(explore_orders(ctx))}")
    rule_round(ctx)
    rule_validation(ctx)
    # the guarantees are stated against the bar that arrived: _process_order hands exactly that bar to the order's matching code
    from .. import norm as N
    po_ = ctx.func("basana.backtesting.order_mgr.OrderManager._process_order")
    gbu = [c for c in A.func_calls(po_, shallow=False) if (A.call_name(c) or "") == "order.get_balance_updates"]
    ctx.floor("C04.1", "get_balance_updates call sites in _process_order", len(gbu), 1)
    for c in gbu:
        a0 = N.canon(N.expand(po_, c.args[0])) if c.args else ""
        ctx.check(a0 == f"{po_.params[2]}.bar", "C04.1", "orders are matched against the bar that arrived, as it arrived", po_, c, a0,
                  f"get_balance_updates is given '{a0[:60]}', not the event's own bar: prices that were rounded, shifted or rebuilt can reach (or pass) a "
                  "stop or limit the real bar never touched, and fills can be priced outside the real bar's range", key_text="matched against the event's bar")
    # 'filled by the first bar that reaches it' needs every open order of the bar's pair to be processed on every bar: the open-order
    # index must not lose orders (shared with C05.5, reported here as C04.5)
    from . import c05
    ctx.rule_map = {"C05.5": "C04.5", "C05.2": "C04.5"}
    try:
        c05.rule_fill_or_kill(ctx)
        c05.rule_listings(ctx)
    finally:
        ctx.rule_map = {}
    ctx.assume("prices > 0 (validated by requests, asserted by the order constructors)")
    ctx.assume("price impact >= 0 (asserted by the liquidity strategies)")
    ctx.assume("bars satisfy low <= open, close <= high (C19.1)")
