"""C18 -- websocket channels stay subscribed across faults and route correctly."""
from __future__ import annotations

import ast
from typing import List, Optional

from .. import astutil as A
from .. import norm as N
from .. import cfg as C
from ..core import Ctx
from .c13 import isolated

PROP = "C18"
EXPLANATION = (
    "Static analysis of basana/core/websockets.py and the Binance/Bitstamp websocket clients. C18.1 lost-wake-up rule: "
    "every addition to WebSocketClient._pending_subscriptions (in the base class and every subclass found by class-"
    "hierarchy analysis) is followed on every normal path of the same function by _subscribe_request.set(); the "
    "consumer clears the event before reading the set and swaps the set without a suspension point. C18.2 reconnect "
    "loop shape (while True, try inside, no break/return, except Exception without re-raise, all channels marked pending "
    "and wake-up set after the connection is established and before the tasks start, message loop wakes both waiters "
    "when it ends). C18.3 back-off: attempt time stored on every iteration before ws_connect, sleep test dominates the "
    "connect. C18.4 routing by the message's own stream/channel, the stream table filled from the channels that are "
    "subscribed; keep-alive scheduled for every subscribed channel and re-armed in a finally; sibling cross-check of "
    "listen-key channels. Convergence after arbitrary fault sequences and timing are liveness and are not claimed."
    " C18.4 also: the stream routing table accumulates, it is never replaced by one call's channels."
)
TRUSTED = ["CPython ast parser", "sa.cfg statement CFG", "mypy class hierarchy", "asyncio.Event semantics"]

WS = "basana.core.websockets.WebSocketClient"
BWS = "basana.external.binance.websockets.WebSocketClient"
TWS = "basana.external.bitstamp.websockets.WebSocketClient"


def _is_set_call(n, attr: str) -> bool:
    return any(isinstance(x, ast.Call) and (A.call_name(x) or "") == f"self.{attr}.set"
               for e in C.exprs_of(n) for x in C.walk_shallow(e))


def rule_wakeup(ctx: Ctx) -> None:
    classes = [c for c in ctx.facts.subclasses(WS) if c in ctx.repo.classes]
    ctx.floor("C18.1", "WebSocketClient classes", len(classes), 4)
    n = 0
    for cls in classes:
        for name, fn in sorted(ctx.repo.methods_of(cls).items()):
            for s in A.stores(fn):
                d = A.dotted(s.target)
                if d != "self._pending_subscriptions":
                    continue
                if s.kind == "mutcall" and s.node.func.attr not in ("add", "update"):  # type: ignore[attr-defined]
                    continue
                if s.kind == "assign":
                    v = getattr(s.node, "value", None)
                    empty = isinstance(v, ast.Call) and A.call_name(v) == "set" and not v.args
                    if empty or name == "__init__":
                        continue
                n += 1
                g = ctx.cfg(fn)
                for sn in g.nodes_for(s.stmt):
                    path = g.always_followed_by(sn, lambda x: _is_set_call(x, "_subscribe_request"), labels=C.NO_EXC)
                    ctx.check(path is None, "C18.1", "marking channels pending is followed by the wake-up", fn, s.stmt,
                              "_subscribe_request.set() follows on every path",
                              "channels are added to _pending_subscriptions but _subscribe_loop is never woken: the "
                              "(re-)subscription waits for an unrelated registration or a reconnect",
                              detail={"path": C.fmt_path(path) if path else []})
    ctx.floor("C18.1", "additions to _pending_subscriptions", n, 2)
    # consumer side
    sl = ctx.func(f"{WS}._subscribe_loop")
    g = ctx.cfg(sl)
    clears = [c for c in A.func_calls(sl) if (A.call_name(c) or "") == "self._subscribe_request.clear"]
    waits = [c for c in A.func_calls(sl) if (A.call_name(c) or "") == "self._subscribe_request.wait"]
    reads = [x for x in A.body_nodes(sl) if isinstance(x, ast.Attribute) and x.attr == "_pending_subscriptions"
             and isinstance(x.ctx, ast.Load) and isinstance(x.parent, ast.Call)]  # type: ignore[attr-defined]
    resets = [s for s in A.stores(sl) if A.dotted(s.target) == "self._pending_subscriptions" and s.kind == "assign"]
    subs = [c for c in A.func_calls(sl) if (A.call_name(c) or "") == "self.subscribe_to_channels"]
    ctx.require(clears and waits and reads and resets and subs, "C18.1: _subscribe_loop lost its wait/clear/read/reset/"
                                                                "subscribe shape")
    rn = g.nodes_for(reads[0])[0]
    cn = g.nodes_for(clears[0])[0]
    zn = g.nodes_for(resets[0].stmt)[0]
    un = g.nodes_for(subs[0])[0]
    p = g.path_avoiding(g.entry, lambda x: x is rn, lambda x: x is cn)
    ctx.check(p is None, "C18.1", "event cleared before the pending set is read", sl, clears[0],
              "clear() dominates the read", "the pending set is read before the event is cleared: a registration in "
              "between is lost", detail={"path": C.fmt_path(p) if p else []})
    between = g.reach([rn], stop=lambda x: x is zn, labels=C.NO_EXC)
    susp = [x for x in between if C.contains_await(x)] + ([rn] if C.contains_await(rn) else [])
    ctx.check(not susp and g.path_avoiding(rn, lambda x: x is un, lambda x: x is zn, C.NO_EXC) is None, "C18.1",
              "pending set is swapped atomically before subscribing", sl, resets[0].stmt,
              "read and reset without a suspension point, reset before the subscribe await",
              "a suspension point separates reading the pending channels from resetting the set: channels registered "
              "meanwhile are dropped")
    wn = g.nodes_for(waits[0])[0]
    ctx.check(g.path_avoiding(g.entry, lambda x: x is cn, lambda x: x is wn) is None, "C18.1",
              "loop blocks on the wake-up event", sl, waits[0], "wait() dominates clear()",
              "subscribe loop does not wait for the wake-up event")


def rule_reconnect(ctx: Ctx) -> None:
    main = ctx.func(f"{WS}.main")
    loops = [n for n in C.walk_shallow(main.node) if isinstance(n, ast.While)]
    ctx.require(loops, "C18.2: no while loop in WebSocketClient.main")
    lp = loops[0]
    forever = isinstance(lp.test, ast.Constant) and lp.test.value is True
    ctx.check(forever, "C18.2", "connection loop runs forever", main, lp.test, "while True",
              "the connection loop has an exit condition: after it the producer never reconnects", key_text="while True")
    exits = [n for s in lp.body for n in C.walk_shallow(s) if isinstance(n, (ast.Break, ast.Return))]
    ctx.check(not exits, "C18.2", "no break/return inside the connection loop", main, exits[0] if exits else lp,
              "none", "the connection loop can be left: no reconnection afterwards", key_text="no loop exit")
    conns = [c for c in A.func_calls(main) if (A.call_name(c) or "").endswith(".ws_connect")]
    ctx.floor("C18.2", "ws_connect sites", len(conns), 1)
    for c in conns:
        ok, why = isolated(c)
        inside = any(a is lp for a in A.ancestors(c))
        t = next((a for a in A.ancestors(c) if isinstance(a, ast.Try)), None)
        try_in_loop = t is not None and any(a is lp for a in A.ancestors(t))
        ctx.check(ok and inside and try_in_loop, "C18.2", "a failed/closed connection is caught inside the loop", main, c,
                  "try/except Exception (no re-raise) inside the while", f"{why}; try inside loop: {try_in_loop}")
    w = next((a for c in conns for a in A.ancestors(c) if isinstance(a, ast.AsyncWith)), None)
    ctx.require(w is not None, "C18.2: ws_connect is not an async-with item")
    body = w.body
    upd = [s for s in body if any(
        isinstance(x, ast.Call) and (A.call_name(x) or "") == "self._pending_subscriptions.update"
        and x.args and "self._event_sources" in ast.unparse(x.args[0]) for x in ast.walk(s))]
    sets = [s for s in body if any(isinstance(x, ast.Call) and (A.call_name(x) or "") == "self._subscribe_request.set"
                                   for x in ast.walk(s))]
    tasks = [s for s in body if any(isinstance(x, ast.Call) and (A.call_name(x) or "").endswith(".create_task")
                                    for x in ast.walk(s))]
    ctx.floor("C18.2", "tasks started per connection", len(tasks), 3)
    ctx.check(bool(upd) and bool(sets) and body.index(upd[0]) < body.index(tasks[0]) and body.index(sets[0]) < body.index(tasks[0]),
              "C18.2", "after each connection all registered channels are marked pending and the subscriber is woken",
              main, upd[0] if upd else w, "update(all channels); set(); then start tasks (inside the connection block)",
              "channels are not all re-marked pending (or the wake-up is not set) after a connection is established",
              key_text="resubscribe all on connect")
    started = {(A.call_name(x.args[0]) or "") for s in tasks for x in ast.walk(s)
               if isinstance(x, ast.Call) and (A.call_name(x) or "").endswith(".create_task") and x.args
               and isinstance(x.args[0], ast.Call)}
    ctx.check({"self._msg_loop", "self._subscribe_loop", "self._reconnect"} <= started, "C18.2",
              "message, subscribe and reconnect tasks run for every connection", main, tasks[0],
              f"starts {sorted(started)}", f"a per-connection task is missing (started: {sorted(started)})",
              key_text="three tasks")
    rc = [s for s in body if any(isinstance(x, ast.Call) and (A.call_name(x) or "") == "self._reconnect_request.clear"
                                 for x in ast.walk(s))]
    ctx.check(bool(rc) and body.index(rc[0]) < body.index(tasks[0]), "C18.2",
              "stale reconnect request cleared before the tasks start", main, rc[0] if rc else w, "cleared",
              "a reconnect request left from the previous connection closes the new one at once", key_text="clear reconnect")
    # message loop end wakes both waiters
    ml = ctx.func(f"{WS}._msg_loop")
    g = ctx.cfg(ml)
    fors = [n for n in g.nodes if n.kind == "for"]
    ctx.require(fors, "C18.2: _msg_loop has no async for")
    for attr in ("_subscribe_request", "_reconnect_request"):
        p = g.path_avoiding(fors[0], lambda x: x is g.exit, lambda x: _is_set_call(x, attr), {"false", "next"})
        ctx.check(p is None, "C18.2", f"end of the message stream wakes {attr}", ml, fors[0].ast.iter,
                  "set() after the async for", f"when the server closes the stream, {attr} is not set: the sibling task "
                  "never finishes and the client does not reconnect", key_text=f"msg loop sets {attr}")
    # reconnect task closes the socket
    rcn = ctx.func(f"{WS}._reconnect")
    ctx.check(any((A.call_name(c) or "").endswith(".close") for c in A.func_calls(rcn))
              and any((A.call_name(c) or "") == "self._reconnect_request.wait" for c in A.func_calls(rcn)), "C18.2",
              "a reconnect request closes the live socket", rcn, rcn.node, "wait(); close()",
              "reconnect request does not close the connection", key_text="reconnect closes")
    sr = ctx.func(f"{WS}.schedule_reconnection")
    ctx.check(any((A.call_name(c) or "") == "self._reconnect_request.set" for c in A.func_calls(sr)), "C18.2",
              "schedule_reconnection sets the request", sr, sr.node, "set()", "does not set the reconnect request",
              key_text="schedule_reconnection sets")


def rule_backoff(ctx: Ctx) -> None:
    main = ctx.func(f"{WS}.main")
    g = ctx.cfg(main)
    conns = [c for c in A.func_calls(main) if (A.call_name(c) or "").endswith(".ws_connect")]
    stamp = [s for s in A.stores(main) if isinstance(s.target, ast.Name) and isinstance(s.node, ast.Assign)
             and isinstance(s.node.value, ast.Call) and A.call_name(s.node.value) == "time.time"]
    ctx.require(stamp, "C18.3: attempt timestamp (x = time.time()) not found in main")
    var = stamp[0].target.id
    lp = next(n for n in C.walk_shallow(main.node) if isinstance(n, ast.While))
    in_loop = [s for s in stamp if any(a is lp for a in A.ancestors(s.stmt))]
    for c in conns:
        for cn in g.nodes_for(c):
            sn = [n for s in in_loop for n in g.nodes_for(s.stmt)]
            head = g.nodes_for(lp.test)[0] if g.nodes_for(lp.test) else None
            # within one iteration: from the loop head to the connect, the stamp must be passed
            p = g.path_avoiding(head, lambda x: x is cn, lambda x: x in sn) if head is not None else [cn]
            ctx.check(p is None and bool(sn), "C18.3", "attempt time recorded on every iteration before connecting", main, c,
                      f"{var} = time.time() dominates ws_connect in each iteration",
                      "the attempt time is not recorded before every connection attempt (failed attempts are not backed "
                      "off)", detail={"path": C.fmt_path(p) if p else []})
            # back-off test + sleep dominate the connect in each iteration
            def is_backoff_test(n):
                return n.kind == "test" and "backoff_secs" in ast.unparse(n.ast) and any(
                    isinstance(x, ast.Compare) and isinstance(x.ops[0], (ast.Lt, ast.LtE, ast.Gt, ast.GtE))
                    for x in ast.walk(n.ast))
            tests = [n for n in g.nodes if is_backoff_test(n)]
            p2 = g.path_avoiding(head, lambda x: x is cn, lambda x: x in tests) if head is not None else [cn]
            ctx.check(p2 is None and bool(tests), "C18.3", "back-off test precedes every connection attempt", main, c,
                      "age < backoff test dominates ws_connect", "a connection attempt can skip the back-off test",
                      detail={"path": C.fmt_path(p2) if p2 else []})
            for t in tests:
                tb = [m for (m, l) in t.succ if l == "true"]
                sleeps = [n for n in g.reach(tb, include_sources=True, stop=lambda x: x is cn)
                          if any(isinstance(x, ast.Await) and isinstance(x.value, ast.Call)
                                 and A.call_name(x.value) == "asyncio.sleep" and "backoff_secs" in ast.unparse(x.value)
                                 for e in C.exprs_of(n) for x in C.walk_shallow(e))]
                ctx.check(bool(sleeps), "C18.3", "too-early attempt sleeps the remaining back-off", main, t.ast,
                          "await asyncio.sleep(backoff - age)", "no sleep of the remaining back-off on the early branch")
    # age is measured against the recorded stamp
    ages = [s for s in A.stores(main) if isinstance(s.node, ast.Assign) and "time.time()" in ast.unparse(s.node.value)
            and var in ast.unparse(s.node.value) and isinstance(s.node.value, ast.BinOp)]
    ctx.check(bool(ages), "C18.3", "attempt age = now - last attempt", main, ages[0].stmt if ages else main.node,
              "time.time() - last", "age is not computed from the recorded attempt time", key_text="age computed")


def rule_routing(ctx: Ctx) -> None:
    # Binance
    hm = ctx.func(f"{BWS}.handle_message")
    src = ast.unparse(hm.node)
    pushes = [c for c in A.func_calls(hm) if (A.call_name(c) or "").endswith(".push_from_message")]
    ctx.floor("C18.4", "push_from_message sites (binance)", len(pushes), 1)
    for c in pushes:
        es = c.func.value  # type: ignore[attr-defined]
        d = _def(hm, es)
        okk = d is not None and "get_channel_event_source" in ast.unparse(d) and "channel.alias" in ast.unparse(d)
        chd = _def(hm, ast.Name(id="channel"))
        okc = chd is not None and (
            (isinstance(chd, ast.Call) and A.call_name(chd) == "self._stream_to_channel.get" and chd.args
             and A.dotted(chd.args[0]) == "stream")
            or (isinstance(chd, ast.Subscript) and A.dotted(chd.value) == "self._stream_to_channel"
                and A.dotted(chd.slice) == "stream"))
        std = _def(hm, ast.Name(id="stream"))
        oks = std is not None and ast.unparse(std).replace('"', "'") == "message.get('stream')"
        ctx.check(okk and okc and oks and c.args and A.dotted(c.args[0]) == "message", "C18.4",
                  "binance: message routed to the source of the channel owning the message's own stream", hm, c,
                  "message['stream'] -> _stream_to_channel -> alias -> event source",
                  "routing does not go from the message's own stream to that channel's registered event source")
    sub = ctx.func(f"{BWS}.subscribe_to_channels")
    ups = [c for c in A.func_calls(sub) if (A.call_name(c) or "") == "self._stream_to_channel.update"]
    sends = [c for c in A.func_calls(sub) if (A.call_name(c) or "").endswith(".send_str")]
    # the routing table accumulates: subscribe_to_channels is called with *some* aliases (a late registration, one expired listen key), so
    # replacing the table by the current batch drops the routes of every other live channel
    rebinds = [s_ for s_ in A.stores(sub) if A.dotted(s_.target) == "self._stream_to_channel" and isinstance(s_.node, (ast.Assign, ast.AnnAssign))]
    ctx.check(bool(ups) and not rebinds, "C18.4", "the stream routing table is added to, never replaced by the current batch", sub,
              rebinds[0].stmt if rebinds else (ups[0] if ups else sub.node), "self._stream_to_channel.update(...)",
              "the stream -> channel table is rebuilt from the channels of this call only: channels subscribed earlier keep receiving messages that can no "
              "longer be routed, so they silently stop producing events until the next reconnection", key_text="routing table accumulates")
    if not ups:
        return
    ctx.floor("C18.4", "SUBSCRIBE sends", len(sends), 1)
    up_src = ast.unparse(ups[0])
    send_src = ast.unparse(sends[0])
    ctx.check("channel.stream: channel for channel in channels" in up_src and "channel.stream for channel in channels" in send_src
              and "SUBSCRIBE" in send_src, "C18.4", "stream table is filled from exactly the channels that are subscribed", sub,
              ups[0], "both comprehensions range over the same 'channels'", "the stream->channel table and the SUBSCRIBE "
              "request are built from different channel lists", key_text="table and subscribe agree")
    chs = _def(sub, ast.Name(id="channels"))
    ctx.check(chs is not None and "_alias_to_channel" in ast.unparse(chs) and sub.params[1] in ast.unparse(chs), "C18.4",
              "channels resolved from the pending aliases", sub, chs if chs is not None else sub.node, "alias -> channel",
              "channels are not derived from the aliases handed to subscribe_to_channels", key_text="aliases resolved")
    g = ctx.cfg(sub)
    ups_n = g.nodes_for(ups[0])[0]
    res = [c for c in A.func_calls(sub, shallow=False) if (A.call_name(c) or "").endswith(".resolve_stream_name")]
    ctx.floor("C18.4", "resolve_stream_name sites", len(res), 1)
    rn = g.nodes_for(res[0])[0]
    ctx.check(g.path_avoiding(g.entry, lambda x: x is ups_n, lambda x: x is rn) is None, "C18.4",
              "dynamic stream names are resolved before they are used", sub, res[0], "resolve dominates table update/send",
              "stream names used before resolve_stream_name ran")
    # keep-alive
    ka = [c for c in A.func_calls(sub) if (A.call_name(c) or "") == "self._schedule_keep_alive"]
    ok_ka = bool(ka) and any(isinstance(a, ast.For) and A.dotted(a.iter) == "channels" for a in A.ancestors(ka[0]))
    ctx.check(ok_ka, "C18.4", "keep-alive scheduled for every subscribed channel", sub, ka[0] if ka else sub.node,
              "for channel in channels: _schedule_keep_alive(channel)", "keep-alive is not scheduled for every subscribed "
              "channel", key_text="keep alive per channel")
    kj = ctx.func(f"{BWS}._keep_alive_channel.scheduler_job")
    kcalls = [c for c in A.func_calls(kj) if (A.call_name(c) or "").endswith(".keep_alive")]
    ctx.floor("C18.4", "channel.keep_alive calls", len(kcalls), 1)
    t = next((a for a in A.ancestors(kcalls[0]) if isinstance(a, ast.Try) and a.finalbody), None)
    rearm = t is not None and any((A.call_name(x) or "") == "self._schedule_keep_alive" for s in t.finalbody for x in A.calls(s))
    ctx.check(rearm, "C18.4", "keep-alive job re-arms itself even when the refresh fails", kj, kcalls[0],
              "finally: _schedule_keep_alive(channel)", "a failing keep_alive ends the refresh chain: the listen key "
              "expires for good")
    sk = ctx.func(f"{BWS}._schedule_keep_alive")
    sched = [c for c in A.func_calls(sk) if (A.call_name(c) or "") == "self._dispatcher.schedule"]
    ctx.check(bool(sched) and "period" in ast.unparse(sched[0].args[0] if sched[0].args else sk.node)
              or bool(sched) and "schedule_dt" in ast.unparse(sched[0]), "C18.4",
              "next refresh is scheduled one period from now", sk, sched[0] if sched else sk.node, "now() + period",
              "keep-alive not scheduled at now + period", key_text="schedule period")
    sd = _def(sk, ast.Name(id="schedule_dt"))

    def _resolves_to_now(e) -> bool:
        if "self._dispatcher.now()" in ast.unparse(e):
            return True
        if isinstance(e, ast.Name):
            d = _def(sk, e)
            return d is not None and d is not e and "self._dispatcher.now()" in ast.unparse(d)
        return False
    okd = sd is not None and isinstance(sd, ast.BinOp) and isinstance(sd.op, ast.Add) and (
        (_resolves_to_now(sd.left) and A.dotted(sd.right) == "period") or (_resolves_to_now(sd.right) and A.dotted(sd.left) == "period"))
    ctx.check(okd, "C18.4", "refresh time = now + keep_alive_period", sk,
              sd if sd is not None else sk.node, "now() + period", "refresh time is not now() + period", key_text="now+period")
    # pairing: every stored deadline has a job scheduled for it
    gk = ctx.cfg(sk)
    dl = [s_ for s_ in A.stores(sk) if isinstance(s_.target, ast.Subscript) and A.dotted(s_.target.value) == "self._next_keep_alive"]
    ctx.require(dl and sched, "C18.4: _schedule_keep_alive lost its deadline store / schedule call")
    dn = gk.nodes_for(dl[0].stmt)[0]
    sn = gk.nodes_for(sched[0])[0]
    p1 = gk.always_followed_by(dn, lambda n: n is sn, labels=C.NO_EXC) if dn is not sn else None
    p2 = gk.path_avoiding(gk.entry, lambda n: n is dn, lambda n: n is sn) if False else None
    same = A.dotted(dl[0].node.value) == A.dotted(sched[0].args[0]) if sched[0].args else False
    ctx.check(p1 is None and same, "C18.4", "every stored refresh deadline has a job scheduled for that very time", sk, sched[0],
              "deadline store is post-dominated by schedule(deadline, job)", "a refresh deadline can be stored without scheduling a job for "
              "it: the pending job of the previous deadline finds the deadline moved and does nothing, so the refresh chain ends and the "
              "listen key expires", detail={"path": C.fmt_path(p1) if p1 else []})
    tests = [n for n in gk.nodes if n.kind == "test"]
    ctx.check(all(ast.unparse(t.ast) == "period" for t in tests), "C18.4", "scheduling depends only on the channel having a keep-alive period", sk,
              tests[0].ast if tests else sk.node, "if period", f"extra conditions on scheduling: {[ast.unparse(t.ast) for t in tests]}")
    # the job refreshes iff its deadline is due, and re-arms
    gj = [n for n in C.walk_shallow(kj.node) if isinstance(n, ast.If)]
    ctx.check(bool(gj) and ast.unparse(gj[0].test) == "self._next_keep_alive[channel.alias] <= self._dispatcher.now()", "C18.4",
              "a job refreshes when the current deadline is due", kj, gj[0].test if gj else kj.node, "deadline <= now", "job guard changed")
    # listenKeyExpired -> resubscription
    exp = [c for c in A.func_calls(hm) if (A.call_name(c) or "") == "self.schedule_resubscription"]
    ctx.check(bool(exp) and "listenKeyExpired" in src and "channel.alias" in ast.unparse(exp[0]), "C18.4",
              "expired listen key schedules a resubscription of that channel", hm, exp[0] if exp else hm.node,
              "schedule_resubscription([channel.alias])", "listenKeyExpired is not turned into a resubscription of the channel",
              key_text="listenKeyExpired handled")
    # sibling cross-check of listen-key channels
    chan = "basana.external.binance.websockets.Channel"
    n_dyn = 0
    for cls in ctx.facts.subclasses(chan):
        if cls == chan or cls not in ctx.repo.classes:
            continue
        ms = ctx.repo.methods_of(cls)
        if "resolve_stream_name" not in ms:
            continue
        n_dyn += 1
        fn = ms["resolve_stream_name"]
        created = [A.call_name(c) or "" for c in A.func_calls(fn) if (A.call_name(c) or "").endswith(".create_listen_key")]
        kal = ms.get("keep_alive")
        kap = ms.get("keep_alive_period")
        okk = kal is not None and kap is not None and created
        if okk:
            kept = [A.call_name(c) or "" for c in A.func_calls(kal) if (A.call_name(c) or "").endswith(".keep_alive_listen_key")]
            same_acct = bool(kept) and kept[0].rsplit(".", 1)[0] == created[0].rsplit(".", 1)[0]
            key_attr = next((A.dotted(s_.target) for s_ in A.stores(fn) if (A.dotted(s_.target) or "").startswith("self.")
                             and hasattr(s_.node, "value") and "create_listen_key" in N.canon(N.expand(fn, s_.node.value))), None)
            passes_key = bool(kept) and key_attr is not None and any(
                N.canon(N.through_properties(ctx.repo, kal, N.expand(kal, a))) == key_attr
                for c in A.func_calls(kal) if (A.call_name(c) or "").endswith(".keep_alive_listen_key") for a in c.args)
            # a (re)subscription always gets a fresh key: after `listenKeyExpired` the old one is dead, re-sending it subscribes nothing
            gk_ = ctx.cfg(fn)
            kstores = [s_ for s_ in A.stores(fn) if A.dotted(s_.target) == key_attr]
            fresh = bool(kstores) and gk_.always_followed_by(gk_.entry, lambda n, ks=kstores: any(n in gk_.nodes_for(s_.stmt) for s_ in ks), labels=C.NO_EXC) is None
            ctx.check(fresh, "C18.4", f"{cls.rsplit('.', 1)[-1]}.resolve_stream_name obtains a new listen key every time", fn, kstores[0].stmt if kstores else fn.node,
                      "create_listen_key on every path", "the listen key is only created when none is cached: after the key expires the channel re-subscribes with "
                      "the dead key (and keeps refreshing it), so it never receives events again", key_text=f"fresh key {cls}")
            nonnull = not any(isinstance(r, ast.Return) and (r.value is None or A.const_value(r.value) is None
                                                             and isinstance(r.value, ast.Constant))
                              for r in C.walk_shallow(kap.node))
            okk = same_acct and passes_key and nonnull
        ctx.check(bool(okk), "C18.4", f"listen-key channel {cls.rsplit('.', 1)[-1]} refreshes the key it created", fn, fn.node,
                  "create/keep-alive on the same account client with the stored key, period not None",
                  "a channel that creates a listen key does not refresh that key on the same account (or has no period)",
                  key_text=f"sibling {cls}")
    ctx.floor("C18.4", "listen-key channels", n_dyn, 3)
    # Bitstamp
    bh = ctx.func(f"{TWS}.handle_message")
    pushes = [c for c in A.func_calls(bh) if (A.call_name(c) or "").endswith(".push_from_message")]
    ctx.floor("C18.4", "push_from_message sites (bitstamp)", len(pushes), 1)
    bsrc = ast.unparse(bh.node).replace('"', "'")
    ctx.check("channel := message.get('channel')" in bsrc and "event_source := self.get_channel_event_source(channel)" in bsrc
              and A.dotted(pushes[0].args[0]) == "message", "C18.4",
              "bitstamp: message routed to the source registered for the message's own channel", bh, pushes[0],
              "message['channel'] -> event source", "bitstamp routing does not use the message's own channel")
    rr = [k for k in ast.walk(bh.node) if isinstance(k, ast.Dict)]
    keys = {A.const_value(k): ast.unparse(v) for d in rr for k, v in zip(d.keys, d.values) if k is not None}
    ctx.check(keys.get("bts:request_reconnect", "").endswith("_on_bts_request_reconnect"), "C18.4",
              "bitstamp reconnect request is handled", bh, bh.node, "mapped", "bts:request_reconnect not handled",
              key_text="bts reconnect")
    rq = ctx.func(f"{TWS}._on_bts_request_reconnect")
    ctx.check(any((A.call_name(c) or "") == "self.schedule_reconnection" for c in A.func_calls(rq)), "C18.4",
              "bitstamp reconnect request schedules a reconnection", rq, rq.node, "schedule_reconnection()",
              "reconnect request ignored", key_text="bts reconnect schedules")
    # base registration API
    sc = ctx.func(f"{WS}.set_channel_event_source")
    ctx.check(any(isinstance(s.target, ast.Subscript) and A.dotted(s.target.value) == "self._event_sources" for s in A.stores(sc)),
              "C18.4", "registration records the channel's event source", sc, sc.node, "_event_sources[channel] = source",
              "registration does not record the event source", key_text="registration stores")
    gc = ctx.func(f"{WS}.get_channel_event_source")
    ctx.check("self._event_sources.get(channel)" in ast.unparse(gc.node), "C18.4", "lookup is by channel name", gc, gc.node,
              "get(channel)", "lookup not keyed by channel", key_text="lookup keyed")


def _def(fn, name_or_expr) -> Optional[ast.AST]:
    if not isinstance(name_or_expr, ast.Name):
        return name_or_expr
    nm = name_or_expr.id
    out = []
    for n in A.body_nodes(fn, shallow=False):
        if isinstance(n, ast.NamedExpr) and n.target.id == nm:
            out.append(n.value)
        elif isinstance(n, ast.Assign) and any(isinstance(t, ast.Name) and t.id == nm for t in n.targets):
            out.append(n.value)
        elif isinstance(n, ast.AnnAssign) and isinstance(n.target, ast.Name) and n.target.id == nm and n.value is not None:
            out.append(n.value)
    return out[0] if len(out) == 1 else None


def run(ctx: Ctx) -> None:
    rule_wakeup(ctx)
    rule_reconnect(ctx)
    rule_backoff(ctx)
    rule_routing(ctx)
    ctx.assume("aiohttp's async-for over a websocket ends when the connection closes")
    ctx.assume("asyncio.Event.set() wakes every waiter; no await => atomic")
