"""C03 -- no look-ahead; backtest results independent of dispatcher concurrency."""
from __future__ import annotations

import ast
from typing import List, Optional

from .. import astutil as A
from .. import cfg as C
from .. import loader
from ..core import Ctx

PROP = "C03"
EXPLANATION = (
    "Static analysis of the only schedule-dependent choice in a backtest -- which events share a dispatch pass -- and of "
    "the order inside the exchange's bar handler. C03.1: in BacktestingDispatcher the loop that draws events from the "
    "lazily re-polling generator EventMultiplexer.pop_while must not contain a suspension point unless the generator "
    "was materialised first (otherwise a derived bar published by a running handler joins the pass of its own "
    "timestamp, ahead of primary bars still to be matched). C03.2: Exchange._on_bar_event does prices -> order matching "
    "-> forward, with no suspension point before the forward. C03.3: who-may-call over mypy-resolved callees: "
    "_process_order only from on_bar_event, fills and fill-time events carry the bar's 'when', strategies are subscribed "
    "to the derived per-pair source only. C03.4: barrier -- every pool push of a pass is followed by an un-timed "
    "pool.wait() before the pass ends. C03.5: the containers that fix handler start order are order-preserving by "
    "declared type and no set is iterated on the dispatch path."
    " C03.7 (shared with C12.3): the multiplexer hands out every due event; a source is polled whenever its slot is empty."
    " C03.5 also: no ordering on the dispatch / matching path is keyed by a per-run identifier (uuid ids, id(), hash())."
)
TRUSTED = ["CPython ast parser", "sa.cfg statement CFG", "mypy types/callees", "asyncio: only await suspends"]

DISP = "basana.core.dispatcher"
EXCH = "basana.backtesting.exchange.Exchange"
OMGR = "basana.backtesting.order_mgr.OrderManager"


def _is_generator(fn: loader.Func) -> bool:
    return any(isinstance(n, (ast.Yield, ast.YieldFrom)) for n in C.walk_shallow(fn.node))


def _names_in(node, nm: str) -> bool:
    return any(isinstance(x, ast.Name) and x.id == nm and isinstance(x.ctx, ast.Load)
               for e in C.exprs_of(node) for x in C.walk_shallow(e))


def rule_snapshot(ctx: Ctx) -> None:
    """A lazily re-polling generator of the multiplexer is 'drawn' wherever it (or the name it is bound to) is
    iterated, sliced, next()-ed ...  The events of a pass are fixed before handlers can run iff no suspension point
    lies between two draws.  list()/tuple()/sorted() applied directly to the generator exhaust it in one step."""
    ci = A.call_index(ctx)
    cls = f"{DISP}.BacktestingDispatcher"
    n_sites = 0
    for name, fn in sorted(ctx.repo.methods_of(cls).items()):
        g = None
        for c in A.func_calls(fn):
            gens = [q for q in ci.callees(fn.module, c)
                    if q.startswith(f"{DISP}.EventMultiplexer.") and q in ctx.repo.funcs and _is_generator(ctx.repo.funcs[q])]
            if not gens:
                continue
            n_sites += 1
            ctx.analysed_funcs.update(gens)
            gname = gens[0].rsplit(".", 1)[-1]
            inst = f"pass over {gname}() in {name}"
            g = g or ctx.cfg(fn)
            par = c.parent  # type: ignore[attr-defined]
            if isinstance(par, ast.Call) and c in par.args and A.call_name(par) in ("list", "tuple", "sorted"):
                ctx.ok("C03.1", inst, fn, c, "events of the pass are materialised in one step, before any suspension point")
                continue
            bound: Optional[str] = None
            if isinstance(par, ast.Assign) and len(par.targets) == 1 and isinstance(par.targets[0], ast.Name) and par.value is c:
                bound = par.targets[0].id
            elif isinstance(par, ast.NamedExpr) and par.value is c:
                bound = par.target.id
            home = g.nodes_for(c)
            ctx.require(home, f"C03.1: call site of {gname}() in {name} has no CFG node")
            if bound is None:
                draws = [(n, False) for n in home]
            else:
                draws = []
                for n in g.nodes:
                    if n in home or not _names_in(n, bound):
                        continue
                    exhaust = any(isinstance(x, ast.Call) and A.call_name(x) in ("list", "tuple", "sorted") and len(x.args) >= 1
                                  and isinstance(x.args[0], ast.Name) and x.args[0].id == bound
                                  for e in C.exprs_of(n) for x in C.walk_shallow(e))
                    draws.append((n, exhaust))
                ctx.require(draws, f"C03.1: generator bound to '{bound}' in {name} is never consumed")
            alld = {n for n, _ in draws}
            bad = None
            for d1, exhaust in draws:
                if exhaust:
                    continue
                r1 = g.reach([d1])
                ws = [n for n in r1 if C.contains_await(n)]
                if C.contains_await(d1):
                    ws.append(d1)
                for w in ws:
                    r2 = g.reach([w])
                    hit = [d for d in alld if d in r2]
                    if hit:
                        bad = (d1, w, hit[0])
                        break
                if bad:
                    break
            if bad is None:
                ctx.ok("C03.1", inst, fn, c, "no suspension point between two draws from the lazy generator")
            else:
                d1, w, d2 = bad
                ctx.bad("C03.1", inst, fn, c,
                        f"events are drawn lazily from {gname}() (which re-polls every source on each step) at line {d1.line} "
                        f"and again at line {d2.line} after the suspension point at line {w.line} ({w.text()[:60]}): when the "
                        "pool is full a handler already running can publish a derived bar event that is drawn in this same "
                        "pass, before primary bars of the same timestamp are matched -> an order is filled by the bar of "
                        "its own timestamp and results depend on max_concurrent",
                        detail={"draw": d1.text(), "suspension": w.text(), "next_draw": d2.text(), "generator": gens[0]})
    ctx.floor("C03.1", "lazy event-draw sites in BacktestingDispatcher", n_sites, 1)
    # pop_while re-polls on every step: it is a generator around pop()
    pw = ctx.func(f"{DISP}.EventMultiplexer.pop_while")
    ctx.check(_is_generator(pw) and any((A.call_name(c) or "") == "self.pop" for c in A.func_calls(pw)), "C03.1",
              "pop_while is the lazy generator the rule is about", pw, pw.node, "generator around self.pop()",
              "EventMultiplexer.pop_while changed shape: rule anchor must be re-confirmed", key_text="pop_while lazy")


def rule_exchange_handler(ctx: Ctx) -> None:
    fn = ctx.func(f"{EXCH}._on_bar_event")
    g = ctx.cfg(fn)
    calls = A.func_calls(fn)
    pr = [c for c in calls if (A.call_name(c) or "") == "self._prices.on_bar_event"]
    om = [c for c in calls if (A.call_name(c) or "") == "self._order_mgr.on_bar_event"]
    fw = [c for c in calls if (A.call_name(c) or "").endswith(".push") and c.args
          and isinstance(c.args[0], ast.Name) and c.args[0].id in fn.params]
    ctx.floor("C03.2", "prices.on_bar_event in _on_bar_event", len(pr), 1)
    ctx.floor("C03.2", "order_mgr.on_bar_event in _on_bar_event", len(om), 1)
    ctx.floor("C03.2", "forward push in _on_bar_event", len(fw), 1)
    for f in fw:
        for fnode in g.nodes_for(f):
            omn = [n for c in om for n in g.nodes_for(c)]
            prn = [n for c in pr for n in g.nodes_for(c)]
            p1 = g.path_avoiding(g.entry, lambda n: n is fnode, lambda n: n in omn)
            ctx.check(p1 is None, "C03.2", "orders are matched against the bar before it is forwarded to strategies", fn, f,
                      "order_mgr.on_bar_event dominates the forward", "the bar can reach strategies before open orders "
                      "were matched against it", detail={"path": C.fmt_path(p1) if p1 else []})
            for on in omn:
                p2 = g.path_avoiding(g.entry, lambda n: n is on, lambda n: n in prn)
                ctx.check(p2 is None, "C03.2", "last prices are updated before matching", fn, om[0],
                          "prices.on_bar_event dominates order matching", "orders are matched before prices are updated",
                          detail={"path": C.fmt_path(p2) if p2 else []})
            # no suspension point before the forward
            before = [n for n in g.nodes if n is not fnode and g.path_avoiding(n, lambda x: x is fnode, lambda x: False)]
            susp = [n for n in before if C.contains_await(n)]
            ctx.check(not susp, "C03.2", "matching and forwarding are atomic with respect to strategies", fn, f,
                      "no suspension point before the forward", f"suspension point at line "
                      f"{susp[0].line if susp else 0} before the bar is forwarded")
            # the forwarded object is the handler's own event parameter
            ctx.ok("C03.2", "the event forwarded is the one received", fn, f, f"pushes parameter {f.args[0].id}")
    # the source pushed to is looked up by the bar's pair
    for f in fw:
        src = f.func.value if isinstance(f.func, ast.Attribute) else None
        d = None
        if isinstance(src, ast.Name):
            for s in A.stores(fn):
                if isinstance(s.target, ast.Name) and s.target.id == src.id and isinstance(s.node, ast.Assign):
                    d = s.node.value
        okk = d is not None and "_bar_event_source" in ast.unparse(d) and ".bar.pair" in ast.unparse(d)
        ctx.check(okk, "C03.2", "forward goes to the derived source of the bar's own pair", fn, f,
                  "looked up in _bar_event_source by event.bar.pair", "forward target is not the per-pair derived source")


def rule_callers(ctx: Ctx) -> None:
    ci = A.call_index(ctx)
    po = f"{OMGR}._process_order"
    callers = ci.callers_of(po)
    ctx.floor("C03.3", "call sites of _process_order", len(callers), 1)
    for fn, m, c in callers:
        ctx.check(fn is not None and fn.qualname == f"{OMGR}.on_bar_event", "C03.3",
                  "_process_order is reached only from on_bar_event", fn, c, "called from on_bar_event",
                  "orders can be matched outside the handling of a bar event")
        if fn is not None and len(c.args) >= 2:
            ctx.check(isinstance(c.args[1], ast.Name) and c.args[1].id in fn.params, "C03.3",
                      "the bar matched is the one being handled", fn, c, f"passes parameter {ast.unparse(c.args[1])}",
                      "order matched against something other than the bar event being handled")
    obe = ci.callers_of(f"{OMGR}.on_bar_event")
    ctx.floor("C03.3", "call sites of OrderManager.on_bar_event", len(obe), 1)
    for fn, m, c in obe:
        ctx.check(fn is not None and fn.qualname == f"{EXCH}._on_bar_event", "C03.3",
                  "OrderManager.on_bar_event is reached only from Exchange._on_bar_event", fn, c, "ok",
                  "order matching is triggered from outside the exchange's bar handler")
    # fills and fill-time order events carry the bar's time
    pfn = ctx.func(po)
    bar_param = pfn.params[2] if len(pfn.params) >= 3 else "bar_event"
    fills = [c for c in A.func_calls(pfn, shallow=False) if (A.call_name(c) or "").endswith(".add_fill")]
    ctx.floor("C03.3", "add_fill sites in _process_order", len(fills), 1)
    for c in fills:
        a0 = c.args[0] if c.args else A.kw(c, "when")
        ctx.check(a0 is not None and A.dotted(a0) == f"{bar_param}.when", "C03.3",
                  "a fill is stamped with the time of the bar that produced it", pfn, c, f"when={bar_param}.when",
                  f"fill stamped with {ast.unparse(a0) if a0 is not None else None}, not the bar event's time")
    pushes = [c for c in A.func_calls(pfn, shallow=False) if (A.call_name(c) or "") == "self._push_order_update"]
    ctx.floor("C03.3", "_push_order_update sites in _process_order", len(pushes), 2)
    for c in pushes:
        w = A.kw(c, "when") or (c.args[1] if len(c.args) > 1 else None)
        ctx.check(w is not None and A.dotted(w) == f"{bar_param}.when", "C03.3",
                  "fill-time order event carries the bar's time", pfn, c, f"when={bar_param}.when",
                  "order event pushed during matching does not carry the bar's time")
    # who calls add_fill at all
    for fn, m, c in ci.callers_of("basana.backtesting.orders.Order.add_fill"):
        ctx.check(fn is not None and fn.qualname.startswith(po), "C03.3", "add_fill only from _process_order", fn, c,
                  "ok", "an order is filled outside _process_order")
    # subscriptions
    sub = ctx.func(f"{EXCH}.subscribe_to_bar_events")
    subs = [c for c in A.func_calls(sub) if (A.call_name(c) or "").endswith("_dispatcher.subscribe")]
    ctx.floor("C03.3", "dispatcher.subscribe in subscribe_to_bar_events", len(subs), 1)
    for c in subs:
        src = c.args[0] if c.args else None
        defs = []
        if isinstance(src, ast.Name):
            for s in A.stores(sub):
                if isinstance(s.target, ast.Name) and s.target.id == src.id and isinstance(s.node, ast.Assign):
                    defs.append(ast.unparse(s.node.value))
        okd = bool(defs) and all("_bar_event_source" in d or "FifoQueueEventSource()" in d for d in defs)
        if not isinstance(src, ast.Name) and src is not None:
            # subscribed straight to an entry of the per-pair table
            okd = (A.dotted(src.value) if isinstance(src, ast.Subscript) else "") == "self._bar_event_source" or \
                (isinstance(src, ast.Call) and (A.call_name(src) or "") in ("self._bar_event_source.get", "self._bar_event_source.setdefault"))
        ctx.check(okd, "C03.3", "strategy bar handlers are subscribed to the derived per-pair source only", sub, c,
                  f"source defined by {defs}", "a strategy handler is subscribed to something other than the derived "
                  "source: it would see a bar before/while the exchange matches it")
    abs_ = ctx.func(f"{EXCH}.add_bar_source")
    subs2 = [c for c in A.func_calls(abs_) if (A.call_name(c) or "").endswith("_dispatcher.subscribe")]
    ctx.floor("C03.3", "dispatcher.subscribe in add_bar_source", len(subs2), 1)
    for c in subs2:
        ctx.check(len(c.args) == 2 and A.dotted(c.args[1]) == "self._on_bar_event"
                  and isinstance(c.args[0], ast.Name) and c.args[0].id in abs_.params, "C03.3",
                  "primary bar sources are handled by the exchange itself", abs_, c, "subscribe(bar_source, self._on_bar_event)",
                  "primary bar source is not wired to Exchange._on_bar_event")


def rule_barrier(ctx: Ctx) -> None:
    for name in ("_dispatch_events", "_dispatch_scheduled"):
        fn = ctx.func(f"{DISP}.BacktestingDispatcher.{name}")
        g = ctx.cfg(fn)
        pushes = [c for c in A.func_calls(fn) if (A.call_name(c) or "").endswith("_handlers_task_pool.push")]
        ctx.floor("C03.4", f"pool pushes in {name}", len(pushes), 1)

        def is_wait(n):
            return any(isinstance(x, ast.Await) and isinstance(x.value, ast.Call)
                       and (A.call_name(x.value) or "").endswith("_handlers_task_pool.wait")
                       and not x.value.args and not x.value.keywords
                       for e in C.exprs_of(n) for x in C.walk_shallow(e))
        for pu in pushes:
            for pn in g.nodes_for(pu):
                path = g.always_followed_by(pn, is_wait, labels=C.NO_EXC)
                ctx.check(path is None, "C03.4", "all handlers of a pass finish before the pass ends", fn, pu,
                          "await pool.wait() (no timeout) post-dominates the push",
                          "the pass can end (and the clock move on) while handlers of this time are still running",
                          detail={"path": C.fmt_path(path) if path else []})
    # TaskPool.wait without timeout waits for ALL tasks
    w = ctx.func("basana.core.helpers.TaskPool.wait")
    okw = any(A.kw(c, "return_when") is not None and (A.dotted(A.kw(c, "return_when")) or "").endswith("ALL_COMPLETED")
              for c in A.func_calls(w))
    ctx.check(okw, "C03.4", "TaskPool.wait waits for all tasks", w, w.node, "return_when=ALL_COMPLETED",
              "TaskPool.wait no longer waits for all tasks", key_text="wait all")


ORDERED = {
    f"{DISP}.EventDispatcher.__init__": {"_event_handlers": "dict", "_sniffers_pre": "list", "_sniffers_post": "list"},
    f"{DISP}.EventMultiplexer.__init__": {"_prefetched_events": "dict"},
    "basana.core.event.FifoQueueEventSource.__init__": {"_queue": "list"},
    "basana.backtesting.helpers.ExchangeObjectContainer.__init__": {"_items": "dict", "_open_items": "list"},
}
NO_SET_ITER = [
    f"{DISP}.EventMultiplexer.pop", f"{DISP}.EventMultiplexer.pop_while", f"{DISP}.EventMultiplexer._prefetch",
    f"{DISP}.EventMultiplexer.peek_next_event_dt", f"{DISP}.BacktestingDispatcher._dispatch_events",
    f"{DISP}.BacktestingDispatcher._dispatch_scheduled", f"{DISP}.BacktestingDispatcher._dispatch_loop",
    f"{DISP}.EventDispatcher._dispatch_event", f"{OMGR}.on_bar_event", f"{OMGR}._process_order",
    "basana.backtesting.helpers.ExchangeObjectContainer.get_open", f"{EXCH}._on_bar_event",
]


def rule_ordered(ctx: Ctx) -> None:
    for q, attrs in ORDERED.items():
        fn = ctx.func(q)
        for s in A.stores(fn):
            d = A.dotted(s.target) or ""
            if not d.startswith("self."):
                continue
            a = d[5:]
            if a in attrs and s.kind == "assign":
                t = A.type_of(ctx, fn.module, s.target) or ""
                base = t.split("[")[0].lower()
                ok = base.endswith(attrs[a])
                ctx.check(ok, "C03.5", f"{a} is an order-preserving {attrs[a]}", fn, s.stmt, f"declared type {t}",
                          f"{a} has type {t}: iteration order (and so handler start order) is not insertion order")
    n = 0
    for q in NO_SET_ITER:
        if q.rsplit(".", 1)[-1].startswith("_") and q not in ctx.repo.funcs:
            continue        # a private helper that was inlined into its caller (the caller is in the list)
        fn = ctx.func(q)
        for node in A.body_nodes(fn, shallow=False):
            it = None
            if isinstance(node, (ast.For, ast.AsyncFor)):
                it = node.iter
            elif isinstance(node, ast.comprehension):
                it = node.iter
            if it is None:
                continue
            n += 1
            t = (A.type_of(ctx, fn.module, it) or "")
            is_set = t.lower().startswith("builtins.set[") or t.lower().startswith("set[") or \
                t.lower().startswith("builtins.frozenset[")
            ctx.check(not is_set, "C03.5", "no set is iterated on the dispatch/matching path", fn, it,
                      f"iterates {ast.unparse(it)[:50]} : {t or 'untyped'}",
                      f"iteration over a set ({t}) decides an order on the dispatch path: results depend on the hash seed")
    ctx.floor("C03.5", "iterations on the dispatch path", n, 6)
    # no ordering decision on the dispatch / matching path is keyed by a per-run random identifier (order and loan ids are uuid4, id() and
    # hash() vary between runs): competing orders would be matched in a different order on every run
    n_sorts = 0
    for q in NO_SET_ITER:
        if q.rsplit(".", 1)[-1].startswith("_") and q not in ctx.repo.funcs:
            continue
        fn = ctx.func(q)
        for c in A.func_calls(fn, shallow=False):
            nm = A.call_name(c) or ""
            if not (nm in ("sorted", "min", "max") or nm.endswith(".sort")):
                continue
            key = A.kw(c, "key")
            if key is None:
                continue
            n_sorts += 1
            body = key.body if isinstance(key, ast.Lambda) else key
            rnd = [x for x in ast.walk(body) if (isinstance(x, ast.Attribute) and (x.attr in ("id", "_id") or x.attr.endswith("_id")))
                   or (isinstance(x, ast.Call) and A.call_name(x) in ("id", "hash", "uuid.uuid4", "random.random"))]
            ctx.check(not rnd, "C03.5", "no ordering on the dispatch/matching path is keyed by a per-run identifier", fn, c,
                      f"key {ast.unparse(key)[:50]}", f"'{ast.unparse(c)[:70]}' orders by {ast.unparse(rnd[0]) if rnd else ''}: ids are uuid4 values, so the order in which "
                      "competing orders are matched (and who gets the limited liquidity or funds) changes from run to run")
    ctx.count("C03.5:keyed orderings on the dispatch path", n_sorts)


def rule_uniform_start(ctx: Ctx) -> None:
    from .c12 import stage_analysis
    fn, order, invocations = stage_analysis(ctx)
    ctx.floor("C03.6", "handler invocations in _dispatch_event", len(invocations), 1)
    prims = sorted({p for _, p, _, _ in invocations})
    ctx.check(prims == ["gather"], "C03.6", "handlers of every event start through the same primitive, whatever their number", fn, fn.node,
              "all via asyncio.gather", f"handlers are started via {prims}: an event with one handler runs it at once while an event with several "
              "starts them as tasks on a later loop iteration, so with max_concurrent >= 2 the lone handler of a later same-time event overtakes "
              "the handlers of an earlier one (fills and balances depend on max_concurrent)")


def run(ctx: Ctx) -> None:
    rule_uniform_start(ctx)
    rule_snapshot(ctx)
    rule_exchange_handler(ctx)
    rule_callers(ctx)
    rule_barrier(ctx)
    rule_ordered(ctx)
    # no look-ahead needs the whole batch of a timestamp to be drawn before any of its handlers runs: the multiplexer must hand out
    # every event that is due (shared with C12.3, reported here as C03.7)
    from . import c12
    # the simulated clock (which the exchange reads for fills, interest, order events) shows the pass's time before any handler of the
    # pass can start -- also when the pool is full and the push suspends (shared with C12.1, reported as C03.4)
    ctx.rule_map = {"C12.3": "C03.7", "C12.1": "C03.4"}
    try:
        c12.rule_clock(ctx)
        c12.rule_mux(ctx)
    finally:
        ctx.rule_map = {}
    ctx.assume("strategy handlers covered by the determinism clause do not suspend (the property's own premise)")
    ctx.assume("bar sources yield events in non-decreasing time order")
