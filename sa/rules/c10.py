"""C10 -- borrowing is refused when the margin requirement is not met."""
from __future__ import annotations

import ast
from typing import Any, Dict, List, Optional, Tuple

from .. import astutil as A
from .. import cells as K
from .. import cfg as C
from ..core import Ctx
from .common import margin_rule_early_exits

PROP = "C10"
EXPLANATION = (
    "Static analysis of basana/backtesting/lending/{base,margin}.py, loan_mgr.py and account_balances.py. C10.1: every "
    "path of NoLoans.create_loan ends in raise; LoanManager.create_loan consults the lending strategy before it touches "
    "balances. C10.2: MarginLoans.set_exchange_context unconditionally installs CheckMarginLevel on the account it is "
    "given; AccountBalances.update runs every installed rule on the three updated maps (same order) before the commit, "
    "with no break/continue/condition; positive borrowed updates exist only in LoanManager.create_loan and auto-borrow "
    "goes through it. C10.3 (threshold cells + sign analysis): the margin level computed for a borrowing account ranges "
    "over [0, inf) (equity is a sum of strictly positive terms, initialised 0); the raise guard of _check_margin_level "
    "is evaluated on every cell of that range and on the 'nothing borrowed' sentinel: every computed cell below the "
    "requirement must raise, the sentinel must not. C10.4: the threshold compared with equals the scale factor. "
    "C10.7 'at the last prices' (freshness, structural part only): every bar event unconditionally replaces the last "
    "bar of its pair, the price readers read that bar's close, and any derived state written by a reader (a memo) is "
    "invalidated by every bar event, wholesale or in both orientations of the pair. That equity and used margin are "
    "summed correctly from those prices is arithmetic and is not claimed."
)
TRUSTED = ["CPython ast parser", "sa.cfg statement CFG", "sa.cells guard evaluator", "mypy callee resolution"]

MARGIN = "basana.backtesting.lending.margin"
BASE = "basana.backtesting.lending.base"
LM = "basana.backtesting.loan_mgr.LoanManager"
AB = "basana.backtesting.account_balances.AccountBalances"


def rule_noloans(ctx: Ctx) -> None:
    fn = ctx.func(f"{BASE}.NoLoans.create_loan")
    g = ctx.cfg(fn)
    # every path from entry reaches the raise exit, none reaches the normal exit
    p = g.path_avoiding(g.entry, lambda n: n is g.exit, lambda n: False)
    ctx.check(p is None, "C10.1", "without a lending strategy every borrow request fails", fn, fn.node,
              "every path of NoLoans.create_loan raises", "NoLoans.create_loan can return normally: a loan is granted "
              "without a lending strategy", detail={"path": C.fmt_path(p) if p else []}, key_text="NoLoans raises")
    cl = ctx.func(f"{LM}.create_loan")
    g = ctx.cfg(cl)
    strat = [c for c in A.func_calls(cl) if (A.call_name(c) or "") == "self._lending_strategy.create_loan"]
    upd = [c for c in A.func_calls(cl) if (A.call_name(c) or "").endswith("account_balances.update")]
    ctx.floor("C10.1", "lending strategy consulted in LoanManager.create_loan", len(strat), 1)
    ctx.floor("C10.1", "ledger updates in LoanManager.create_loan", len(upd), 1)
    sn = [n for c in strat for n in g.nodes_for(c)]
    for u in upd:
        for un in g.nodes_for(u):
            p = g.path_avoiding(g.entry, lambda n: n is un, lambda n: n in sn)
            ctx.check(p is None, "C10.1", "the lending strategy decides before balances are touched", cl, u,
                      "strategy.create_loan dominates account_balances.update", "balances can be updated without asking the "
                      "lending strategy", detail={"path": C.fmt_path(p) if p else []})
    # the strategy default in Exchange is NoLoans
    ex = ctx.func("basana.backtesting.exchange.Exchange.__init__")
    a = ex.node.args
    names = [x.arg for x in a.args]
    dflt = dict(zip(names[len(names) - len(a.defaults):], a.defaults))
    d = dflt.get("lending_strategy")
    ctx.check(d is not None and "NoLoans" in ast.unparse(d), "C10.1", "exchange without lending strategy uses NoLoans", ex,
              ex.node, "lending_strategy=NoLoans()", "default lending strategy is not NoLoans", key_text="default NoLoans")


def rule_installed(ctx: Ctx) -> None:
    sec = ctx.func(f"{MARGIN}.MarginLoans.set_exchange_context")
    g = ctx.cfg(sec)
    push = [c for c in A.func_calls(sec) if (A.call_name(c) or "").endswith("account_balances.push_update_rule")]
    ctx.floor("C10.2", "push_update_rule in set_exchange_context", len(push), 1)
    for c in push:
        arg = c.args[0] if c.args else None
        okarg = isinstance(arg, ast.Call) and (A.call_name(arg) or "").endswith("CheckMarginLevel") and arg.args \
            and A.dotted(arg.args[0]) == "self"
        pn = g.nodes_for(c)[0]
        p = g.path_avoiding(g.entry, lambda n: n is g.exit, lambda n: n is pn, C.NO_EXC)
        recv = A.dotted(c.func.value)  # type: ignore[attr-defined]
        ctx_param = sec.params[2] if len(sec.params) > 2 else ""
        same_acct = recv in (f"{ctx_param}.account_balances", "self._exchange_ctx.account_balances")
        ctx.check(okarg and p is None and same_acct, "C10.2", "margin rule installed unconditionally on the exchange's account",
                  sec, c, "push_update_rule(CheckMarginLevel(self)) on every path", "the margin rule is not (always) installed "
                  "on the account of the exchange context", detail={"path": C.fmt_path(p) if p else []})
    lm_init = ctx.func(f"{LM}.__init__")
    okc = any((A.call_name(c) or "") == "self._lending_strategy.set_exchange_context" for c in A.func_calls(lm_init))
    ctx.check(okc, "C10.2", "LoanManager hands the exchange context to the lending strategy", lm_init, lm_init.node,
              "set_exchange_context called in __init__", "lending strategy never receives the exchange context",
              key_text="context handed over")
    from .common import margin_check_fn
    chk = ctx.func(f"{MARGIN}.CheckMarginLevel.check")
    calls = [c for c in A.func_calls(chk) if (A.call_name(c) or "").endswith("._check_margin_level") or (A.call_name(c) or "").endswith("._calculate_margin_level")]
    okp = bool(calls) and [A.dotted(a) for a in calls[0].args] == chk.params[1:4]
    ctx.check(okp, "C10.2", "the rule forwards the three updated maps in order", chk, calls[0] if calls else chk.node,
              "check(b, h, r) -> _check_margin_level(b, h, r)", "CheckMarginLevel.check does not forward its arguments in order")
    # AccountBalances.update runs every rule before committing
    up = ctx.func(f"{AB}.update")
    g = ctx.cfg(up)
    loops = [n for n in C.walk_shallow(up.node) if isinstance(n, ast.For) and A.dotted(n.iter) == "self._update_rules"]
    ctx.floor("C10.2", "rule loops in AccountBalances.update", len(loops), 1)
    lp = loops[0]
    simple = len(lp.body) == 1 and isinstance(lp.body[0], ast.Expr) and isinstance(lp.body[0].value, ast.Call) \
        and (A.call_name(lp.body[0].value) or "").endswith(".check") and not lp.orelse
    ctx.check(simple, "C10.2", "every installed rule is evaluated (no break/continue/condition)", up, lp,
              "for rule in self._update_rules: rule.check(...)", "the rule loop can skip a rule")
    if simple:
        call = lp.body[0].value
        args = [A.dotted(a) for a in call.args]
        defs = {}
        for s in A.stores(up):
            if isinstance(s.target, ast.Name) and isinstance(s.node, ast.Assign):
                defs[s.target.id] = ast.unparse(s.node.value)
        okm = len(args) == 3 and all(a in defs for a in args) and "self.balances" in defs[args[0]] \
            and "self.holds" in defs[args[1]] and "self.borrowed" in defs[args[2]]
        ctx.check(okm, "C10.2", "rules see (balances, holds, borrowed) after the update, in that order", up, call,
                  f"check({', '.join(args)})", f"rules are given {args} built from {[defs.get(a) for a in args]}")
    commits = [s for s in A.stores(up) if A.dotted(s.target) in ("self.balances", "self.holds", "self.borrowed")
               and s.kind == "assign"]
    ctx.floor("C10.2", "commit stores in update", len(commits), 3)
    ln = g.nodes_for(lp)[0] if g.nodes_for(lp) else None
    for s in commits:
        for sn in g.nodes_for(s.stmt):
            # the store is reached only through the loop's exit (false) edge
            p = _path_without_edge(g, sn, ln, "false")
            ctx.check(p is None, "C10.2", "commit happens only after all rules passed", up, s.stmt,
                      "store dominated by the exit of the rule loop", "a balance map is committed before the rules ran",
                      detail={"path": C.fmt_path(p) if p else []})
    # writers of _update_rules
    for name, fn in sorted(ctx.repo.methods_of(AB).items()):
        for s in A.stores(fn):
            if A.dotted(s.target) == "self._update_rules":
                ok = (name == "__init__" and s.kind == "assign") or (s.kind == "mutcall" and s.node.func.attr == "append")  # type: ignore
                ctx.check(ok, "C10.2", "installed rules are only ever appended to", fn, s.stmt, "append / initial list",
                          "the rule list can lose a rule (remove/pop/clear/reassign)")
    # positive borrowed updates only in LoanManager.create_loan; auto-borrow goes through it
    ci = A.call_index(ctx)
    sites = ci.callers_of(f"{AB}.update")
    ctx.floor("C10.2", "call sites of AccountBalances.update", len(sites), 5)
    for fn, m, c in sites:
        bu = A.kw(c, "borrowed_updates")
        if bu is None:
            continue
        positive = not ast.unparse(bu).startswith("{") or "-" not in ast.unparse(bu)
        if isinstance(bu, ast.Name):
            d = [s for s in A.stores(fn) if isinstance(s.target, ast.Name) and s.target.id == bu.id]
            positive = not (d and "-" in ast.unparse(d[0].node.value))
        if positive:
            ctx.check(fn is not None and fn.qualname == f"{LM}.create_loan", "C10.2",
                      "borrowed balances grow only in LoanManager.create_loan", fn, c, "create_loan",
                      "a positive borrowed update exists outside LoanManager.create_loan (borrowing that bypasses the "
                      "lending strategy)")
    bo = ctx.func("basana.backtesting.order_mgr.OrderManager._borrow")
    okb = any(ci.resolves_to(ci.callees(bo.module, c), f"{LM}.create_loan") for c in A.func_calls(bo))
    ctx.check(okb, "C10.2", "auto-borrow goes through LoanManager.create_loan", bo, bo.node, "loan_mgr.create_loan",
              "auto-borrow does not use LoanManager.create_loan", key_text="auto-borrow path")
    exl = ctx.func("basana.backtesting.exchange.Exchange.create_loan")
    okx = any(ci.resolves_to(ci.callees(exl.module, c), f"{LM}.create_loan") for c in A.func_calls(exl))
    ctx.check(okx, "C10.2", "Exchange.create_loan goes through LoanManager.create_loan", exl, exl.node, "loan_mgr.create_loan",
              "explicit loans do not use LoanManager.create_loan", key_text="explicit path")


def _path_without_edge(g, target, via, label):
    """Path entry -> target that never takes edge (via, label); None if every path takes it."""
    from collections import deque
    prev = {g.entry: None}
    dq = deque([g.entry])
    while dq:
        n = dq.popleft()
        if n is target:
            p = [n]
            while prev[p[-1]] is not None:
                p.append(prev[p[-1]])
            return list(reversed(p))
        for (m, lab) in n.succ:
            if m in prev or (n is via and lab == label):
                continue
            prev[m] = n
            dq.append(m)
    return None


def rule_sentinel(ctx: Ctx) -> None:
    calc = ctx.func(f"{MARGIN}.MarginLoans._calculate_margin_level")
    from .common import margin_check_fn
    chk = margin_check_fn(ctx)
    # 1. sentinel: the return under the 'nothing borrowed' test
    sent: Any = "missing"
    sent_node = None
    for n in C.walk_shallow(calc.node):
        if isinstance(n, ast.If) and "used_margin" in ast.unparse(n.test) and any(isinstance(b, ast.Return) for b in n.body):
            r = next(b for b in n.body if isinstance(b, ast.Return))
            sent_node = r
            if r.value is None or (isinstance(r.value, ast.Constant) and r.value.value is None):
                sent = None
            else:
                sent = K.const_num(r.value)
    ctx.require(sent != "missing", "C10.3: 'nothing borrowed' early return not found in _calculate_margin_level")
    ctx.require(sent is None or isinstance(sent, float), "C10.3: sentinel is neither None nor a numeric constant")
    # 2. computed path: equity / (...) * SCALE with equity >= 0
    rets = [n for n in C.walk_shallow(calc.node) if isinstance(n, ast.Return) and n is not sent_node and n.value is not None]
    ctx.require(len(rets) == 1, "C10.3: expected one computed return in _calculate_margin_level")
    rv = rets[0].value
    scale = None
    numer = None
    if isinstance(rv, ast.BinOp) and isinstance(rv.op, ast.Mult):
        scale = K.const_num(rv.right)
        if isinstance(rv.left, ast.BinOp) and isinstance(rv.left.op, ast.Div):
            numer = rv.left.left
    ctx.require(scale is not None and isinstance(numer, ast.Name),
                "C10.3: computed margin level is not of the form <name> / (...) * <const> (unrecognised idiom)")
    # sign of the numerator: initialised to 0, only '+= x' where x > 0 is established on the path
    g = ctx.cfg(calc)
    nonneg = True
    init_ok = False
    for s in A.stores(calc):
        if isinstance(s.target, ast.Name) and s.target.id == numer.id:
            if isinstance(s.node, ast.Assign):
                init_ok = K.const_num(s.node.value) == 0.0
                nonneg &= init_ok
            elif isinstance(s.node, ast.AugAssign) and isinstance(s.node.op, ast.Add):
                sn = g.nodes_for(s.stmt)[0]
                loop = next((a for a in A.ancestors(s.stmt) if isinstance(a, ast.For)), None)

                def guarded_positive(term: str) -> bool:
                    # a test 'term <= 0 -> continue' (or 'term > 0') must separate the loop head from this statement
                    if loop is None:
                        return False
                    for t in [n for n in g.nodes if n.kind == "test"]:
                        tt = K.truth_table(t.ast, term) if _only_var(t.ast, term) else None
                        if tt is None:
                            continue
                        # which edge excludes term <= 0 ?
                        nonpos_true = tt.get("(-inf,0)") and tt.get("{0}")
                        nonpos_false = (tt.get("(-inf,0)") is False) and (tt.get("{0}") is False)
                        lab = "true" if nonpos_true else ("false" if nonpos_false else None)
                        if lab is None:
                            continue
                        head = g.nodes_for(loop)[0]
                        # every path head -> sn must avoid edge (t, lab)
                        if _reaches_only_without(g, head, sn, t, lab):
                            return True
                    return False

                def positive(e: ast.AST, depth: int = 0) -> bool:
                    """strictly positive on every path to the accumulation (conversion at a positive price preserves the sign)"""
                    if depth > 4:
                        return False
                    if isinstance(e, ast.Name):
                        return guarded_positive(e.id)
                    if isinstance(e, ast.IfExp):
                        return positive(e.body, depth + 1) and positive(e.orelse, depth + 1)
                    if isinstance(e, ast.Call) and isinstance(e.func, ast.Attribute) and e.func.attr == "convert" and e.args:
                        return positive(e.args[0], depth + 1)
                    return False
                nonneg &= positive(s.node.value)
            else:
                nonneg = False
    ctx.check(nonneg and init_ok, "C10.3", "equity is a sum of strictly positive terms starting at 0 (range [0, inf))", calc,
              numer, "sign analysis: equity >= 0", "cannot establish equity >= 0; the computed level ranges over all reals",
              key_text="equity sign")
    lo_cells = ["{0}"] if nonneg else ["(-inf,0)", "{0}"]
    # 3. the raise guard
    g2 = ctx.cfg(chk)
    raises = [n for n in C.walk_shallow(chk.node) if isinstance(n, ast.Raise)]
    ctx.require(len(raises) == 1 and isinstance(raises[0].parent, ast.If),  # type: ignore[attr-defined]
                "C10.3: _check_margin_level is not 'if <guard>: raise' (unrecognised idiom)")
    raise_guard = raises[0].parent.test  # type: ignore[attr-defined]
    var = None
    for s in A.stores(chk):
        if isinstance(s.target, ast.Name) and isinstance(s.node, ast.Assign) and isinstance(s.node.value, ast.Call) \
                and (A.call_name(s.node.value) or "").endswith("._calculate_margin_level"):
            var = s.target.id
    ctx.require(var is not None and _only_var(raise_guard, var), "C10.3: guard is not a predicate over the computed margin level only")
    # early 'if <test over the level>: return' statements before the raise are part of the guard: the request is refused iff
    # none of them fires and the raise guard holds
    pre = [n.test for n in C.walk_shallow(chk.node) if isinstance(n, ast.If) and n is not raises[0].parent  # type: ignore
           and A.seq(n) < A.seq(raises[0]) and _only_var(n.test, var) and any(isinstance(b, ast.Return) for b in n.body)]
    guard = raise_guard
    for t in reversed(pre):
        guard = ast.BoolOp(op=ast.And(), values=[ast.UnaryOp(op=ast.Not(), operand=t), guard])
    ast.fix_missing_locations(guard)
    exc = raises[0].exc
    excname = (A.dotted(exc.func) if isinstance(exc, ast.Call) else A.dotted(exc)) or ""
    ctx.check(excname.endswith("NotEnoughBalance"), "C10.3", "refusal is reported as NotEnoughBalance", chk, raises[0],
              excname, f"refusal raises {excname}: auto-borrow rollback and order rejection paths expect NotEnoughBalance")
    tt = K.truth_table(guard, var, extra=[0.0, scale], with_none=True)
    ctx.sample({"rule": "C10.3", "guard": ast.unparse(guard), "truth_table": tt, "sentinel": sent, "scale": scale})
    ctx.exhaustive = True
    below = [lab for lab, rep in K.cells(sorted(set(K.thresholds(guard)) | {0.0, scale})) if rep < scale and (rep >= 0 or not nonneg)]
    above = [lab for lab, rep in K.cells(sorted(set(K.thresholds(guard)) | {0.0, scale})) if rep >= scale]
    ctx.count("eval:C10.3 cells", len(tt))
    for lab in below:
        ctx.check(tt[lab] is True, "C10.3", f"computed margin level in cell {lab} (< requirement) is refused", chk, guard,
                  "guard raises", f"a borrowing account whose margin level falls in {lab} is NOT refused: "
                  + ("zero equity gives level 0, which the guard exempts because 0 doubles as the 'nothing borrowed' sentinel "
                     "-- an empty account can borrow without limit" if lab == "{0}" else "the guard has a hole below the requirement"),
                  key_text=f"cell {lab} refused")
    for lab in above:
        ctx.check(tt[lab] is False, "C10.3", f"margin level in cell {lab} (>= requirement) is accepted", chk, guard,
                  "guard does not raise", f"a sufficient margin level in {lab} is refused", key_text=f"cell {lab} accepted")
    # sentinel must be accepted and must not collide with the computed range
    if sent is None:
        ctx.check(tt["None"] is False, "C10.3", "'nothing borrowed' (None) passes the rule without a type error", chk, guard,
                  "guard is False on None", f"guard evaluates to {tt['None']} on the None sentinel", key_text="sentinel passes")
    else:
        lab = next(l for l, rep in K.cells(sorted(set(K.thresholds(guard)) | {0.0, scale, sent})) if rep == sent)
        collides = sent >= 0 or not nonneg
        ctx.check(not (collides and sent < scale), "C10.3", "sentinel lies outside the range of computed levels", calc, sent_node,
                  "disjoint", f"the 'nothing borrowed' sentinel {sent:g} is also a value the computation produces (zero equity) "
                  "and lies below the requirement: the guard cannot refuse one and accept the other", key_text="sentinel disjoint")
    # C10.4 threshold == scale
    ts = [t for t in K.thresholds(guard) if t != 0.0]
    ctx.check(ts == [scale], "C10.4", "requirement threshold equals the scale factor of the level", chk, guard,
              f"compared with {scale:g}, level scaled by {scale:g}", f"level is scaled by {scale:g} but compared with {ts}",
              key_text="threshold=scale")
    # margin requirement enters the denominator
    src = ast.unparse(calc.node)
    ctx.check("margin_requirement" in src and "margin_requirements * updated_borrowed" in src.replace("\n", " "), "C10.4",
              "margin requirement weights the borrowed amounts", calc, calc.node, "used margin = requirement * borrowed",
              "used margin no longer weights borrowed amounts by the margin requirement", key_text="requirement weights")
    # the updated (post-loan) maps are what is valued
    pnames = calc.params[1:4]
    uses_b = any(isinstance(n, ast.Name) and n.id == pnames[0] for n in ast.walk(calc.node))
    uses_r = sum(1 for n in ast.walk(calc.node) if isinstance(n, ast.Name) and n.id == pnames[2]) >= 2
    ctx.check(uses_b and uses_r, "C10.4", "the level is computed from the post-update balances and borrowed maps", calc, calc.node,
              "uses updated_balances and updated_borrowed", "the level ignores the updated maps it is given (checks the state "
              "before the loan)", key_text="uses updated maps")


def rule_early_exit(ctx: Ctx) -> None:
    exits = margin_rule_early_exits(ctx)
    ctx.count("eval:C10.5 early exits", len(exits))
    for ent in exits:
        fn, n, tbl = ent["fn"], ent["node"], ent["table"]
        if tbl is None:
            ctx.require(False, f"C10.5: early return at line {n.lineno} of _check_margin_level uses an idiom the rule does "
                               "not recognise (cannot tell whether a borrowing update can skip the margin check)")
        ctx.sample({"rule": "C10.5", "early_exit": ast.unparse(n.test), "truth_table": tbl})
        if ent.get("quantifier") == "any":
            ctx.bad("C10.5", "no update that increases a borrowed balance skips the margin check", fn, n.test,
                    "the early exit is taken as soon as ANY borrowed amount does not grow: an update that borrows one symbol "
                    "while another stays put skips the margin check")
            continue
        ctx.check(tbl["new>old"] is False, "C10.5", "no update that increases a borrowed balance skips the margin check", fn,
                  n.test, f"early exit only when no borrowed amount grows {tbl}",
                  f"the early exit is taken when a borrowed amount grows ({tbl}): a loan is granted without the margin check")
    if not exits:
        from .common import margin_check_fn
        fn = margin_check_fn(ctx)
        ctx.ok("C10.5", "no early exit before the margin check", fn, fn.node, "every update reaches the guard",
               key_text="no early exit")


def rule_dependence(ctx: Ctx) -> None:
    from .c06 import _param_deps
    fn = ctx.func(f"{MARGIN}.CheckMarginLevel.check")
    deps = _param_deps(ctx, fn)
    names = ["balances", "holds", "borrowed"]
    ctx.sample({"rule": "C10.6", "margin rule depends on": [names[i] for i in sorted(deps)]})
    ctx.check(deps == {0, 2}, "C10.6", "the margin level is a function of the updated balances and borrowed maps only", fn, fn.node,
              f"reads {[names[i] for i in sorted(deps)]}", f"the margin rule reads {[names[i] for i in sorted(deps)]}: "
              + ("funds on hold are part of the balance already; counting them again overstates equity and grants loans the "
                 "requirement forbids" if 1 in deps else "it ignores a map the requirement is defined on"), key_text="margin deps")


def _only_var(e: ast.AST, var: str) -> bool:
    names = {n.id for n in ast.walk(e) if isinstance(n, ast.Name)}
    return names <= {var, "Decimal", "ZERO"} and var in names and not any(isinstance(n, ast.Attribute) for n in ast.walk(e))


def _reaches_only_without(g, src, dst, t, lab) -> bool:
    """True iff every path src -> dst (within the graph) avoids edge (t, lab) and at least one path passes t."""
    from collections import deque
    # is there a path src -> dst using edge (t,lab)?  reach t from src, then from lab-successor reach dst w/o src
    succ_lab = [m for (m, l) in t.succ if l == lab]
    def reach(a, targets, avoid=None):
        seen = {a}
        dq = deque([a])
        while dq:
            n = dq.popleft()
            if n in targets:
                return True
            for (m, l) in n.succ:
                if m in seen or m is avoid:
                    continue
                seen.add(m)
                dq.append(m)
        return False
    through_bad = any(reach(m, {dst}, avoid=src) for m in succ_lab) and reach(src, {t})
    other = [m for (m, l) in t.succ if l != lab and l != "exc"]
    through_good = any(reach(m, {dst}, avoid=src) for m in other) and reach(src, {t})
    # and no path bypassing t entirely
    bypass = _reach_avoiding(src, dst, t)
    return through_good and not through_bad and not bypass


def _reach_avoiding(src, dst, avoid) -> bool:
    from collections import deque
    seen = {src}
    dq = deque([src])
    first = True
    while dq:
        n = dq.popleft()
        for (m, l) in n.succ:
            if m is avoid or m in seen:
                continue
            if m is dst:
                return True
            if m is src:
                continue
            seen.add(m)
            dq.append(m)
    return False


PRICES = "basana.backtesting.prices.Prices"


def _self_attr_root(e: ast.AST):
    """self.X for a target like self.X, self.X[k], self.X.y"""
    cur = e
    while isinstance(cur, (ast.Subscript, ast.Attribute)):
        if isinstance(cur, ast.Attribute) and isinstance(cur.value, ast.Name) and cur.value.id == "self":
            return cur.attr
        cur = cur.value
    return None


def rule_price_freshness(ctx: Ctx) -> None:
    """'valued at the last prices': what the price readers return is a function of the last bar per pair.  Any *derived* state
    (an attribute of Prices written by a reader: a memo / cache) must be invalidated by every bar event -- wholesale, or by key in
    both orientations of the pair, since convert() serves (a, b) from Pair(a, b) and from Pair(b, a)."""
    from .. import norm as N
    methods = ctx.repo.methods_of(PRICES)
    ctx.require("on_bar_event" in methods and "convert" in methods and "get_price" in methods, "C10.7: Prices lost on_bar_event/convert/get_price")
    obe = methods["on_bar_event"]
    ctx.analysed_funcs.update(m.qualname for m in methods.values())
    ev = obe.params[1]
    prim = [s for s in A.stores(obe) if isinstance(s.target, ast.Subscript) and _self_attr_root(s.target) is not None and isinstance(s.node, ast.Assign)
            and N.canon(N.expand(obe, s.target.slice)) == f"{ev}.bar.pair" and N.canon(N.expand(obe, s.node.value)) == f"{ev}.bar"]
    ctx.check(len(prim) == 1 and not any(isinstance(a, (ast.If, ast.Try, ast.For, ast.While)) for a in A.ancestors(prim[0].stmt)), "C10.7",
              "every bar event replaces the last bar of its pair, unconditionally", obe, prim[0].stmt if prim else obe.node,
              "self._last_bars[event.bar.pair] = event.bar", "the last bar is not recorded for every bar event: prices used for the margin "
              "check can lag behind the last price", key_text="last bar recorded")
    primary = _self_attr_root(prim[0].target) if prim else None
    for nm in ("get_price", "convert", "get_bid_ask"):
        fn = methods.get(nm)
        if fn is None:
            continue
        reads = [c for c in A.func_calls(fn) if (A.call_name(c) or "") == f"self.{primary}.get"] + \
                [x for x in C.walk_shallow(fn.node) if isinstance(x, ast.Subscript) and A.dotted(x.value) == f"self.{primary}" and isinstance(x.ctx, ast.Load)]
        closes = [x for x in C.walk_shallow(fn.node) if isinstance(x, ast.Attribute) and x.attr == "close"]
        ctx.check(bool(reads) and bool(closes), "C10.7", f"Prices.{nm} reads the close of the last bar", fn, fn.node, f"self.{primary}.get(pair).close",
                  f"Prices.{nm} no longer reads the last bar's close", key_text=f"{nm} reads last bar")
    # derived state
    derived = {}
    for nm, fn in methods.items():
        if nm in ("__init__", "on_bar_event"):
            continue
        for s in A.stores(fn):
            a = _self_attr_root(s.target)
            if a is not None:
                derived.setdefault(a, []).append((fn, s))
    ctx.count("C10.7:derived attributes of Prices", len(derived))
    for attr, writers in sorted(derived.items()):
        fnw, sw = writers[0]
        inval = [s for s in A.stores(obe) if _self_attr_root(s.target) == attr]
        top = [s for s in inval if not any(isinstance(a, (ast.If, ast.Try, ast.For, ast.While)) for a in A.ancestors(s.stmt))]
        wholesale = [s for s in top if (s.kind == "mutcall" and isinstance(s.node, ast.Call) and isinstance(s.node.func, ast.Attribute) and s.node.func.attr == "clear")
                     or (isinstance(s.node, (ast.Assign, ast.AnnAssign)) and A.dotted(s.target) == f"self.{attr}"
                         and ast.unparse(s.node.value) in ("{}", "dict()", "[]", "None", "set()"))]
        if wholesale:
            ctx.ok("C10.7", f"derived state self.{attr} is dropped on every bar event", obe, wholesale[0].stmt, "wholesale invalidation")
            continue
        keys = []
        for s in top:
            if s.kind == "mutcall" and isinstance(s.node, ast.Call) and isinstance(s.node.func, ast.Attribute) and s.node.func.attr == "pop" and s.node.args:
                keys.append(N.expand(obe, s.node.args[0]))
            elif s.kind == "delete" and isinstance(s.target, ast.Subscript):
                keys.append(N.expand(obe, s.target.slice))
        ktxt = [N.canon(k) for k in keys]
        pair_key = f"{ev}.bar.pair" in ktxt
        both = any(isinstance(k, ast.Tuple) and len(k.elts) == 2 and N.canon(ast.Tuple(elts=[k.elts[1], k.elts[0]], ctx=ast.Load())) in ktxt for k in keys)
        wkeys = [N.canon(N.expand(f2, s2.target.slice)) for f2, s2 in writers if isinstance(s2.target, ast.Subscript)]
        if pair_key and all(any(isinstance(x, ast.Call) and (A.call_name(x) or "").endswith(f"self.{primary}.get") and N.canon(x.args[0]) == wk
                                for x in C.walk_shallow(f2.node)) for wk in wkeys for f2, _ in writers[:1]):
            ctx.ok("C10.7", f"derived state self.{attr} is keyed by the pair it was computed from and dropped with it", obe, obe.node, "by-pair invalidation")
        elif both:
            ctx.ok("C10.7", f"derived state self.{attr} is dropped in both orientations of the pair", obe, obe.node, "by-key invalidation, both orientations")
        else:
            ctx.bad("C10.7", f"derived state self.{attr} (written by Prices.{fnw.name}) is invalidated by every bar event", obe, sw.stmt,
                    f"self.{attr} is filled in {fnw.name} under key(s) {wkeys} but on_bar_event invalidates {ktxt or 'nothing'}: a conversion served "
                    "through the inverted pair (or any key not dropped) keeps the price of an earlier bar, so the margin check values "
                    "collateral at a stale price instead of the last price", key_text=f"stale {attr}")


def rule_no_swallowed_price(ctx: Ctx) -> None:
    """C10.7 (second half): what cannot be valued refuses the request.  In every function the margin level computation reaches inside
    basana.backtesting, no handler catches NoPrice (or a base of it) without re-raising: a position without a price would silently be
    valued at zero and the loan granted."""
    from .. import summaries as S
    sm = S.get(ctx)
    roots = [q_ for q_ in (f"{MARGIN}.MarginLoans._calculate_margin_level", f"{MARGIN}.MarginLoans._check_margin_level", f"{MARGIN}.CheckMarginLevel.check")
             if q_ in ctx.repo.funcs]
    reach = sorted(q for q in A.reachable(ctx, roots) if q.startswith("basana.backtesting."))
    ctx.floor("C10.7", "functions on the valuation path", len(reach), 8)
    n_h = 0
    for q in reach:
        fn = ctx.repo.funcs[q]
        ctx.analysed_funcs.add(q)
        for t in [n for n in C.walk_shallow(fn.node) if isinstance(n, ast.Try)]:
            for h in t.handlers:
                names = sm.handler_names(h)
                if not any(sm.is_sub("NoPrice", hn) for hn in names):
                    continue
                n_h += 1
                reraises = bool(h.body) and all(_always_raises(h.body))
                ctx.check(reraises, "C10.7", "a missing price is never swallowed on the valuation path", fn, h,
                          f"handler {names} re-raises", f"{fn.name} catches {names} and carries on: a borrowed or held symbol that has no price is "
                          "valued at zero (or skipped), so used margin / interest are understated and a loan that does not meet the requirement is granted",
                          key_text=f"swallow {q} {','.join(names)}")
    ctx.ok("C10.7", f"{len(reach)} functions reachable from the margin level computation inspected: {n_h} handler(s) for NoPrice", None, None,
           "none swallows", key_text="valuation handlers scanned")


def _always_raises(body) -> List[bool]:
    last = body[-1]
    if isinstance(last, ast.Raise):
        return [True]
    if isinstance(last, ast.If) and last.orelse:
        return _always_raises(last.body) + _always_raises(last.orelse)
    return [False]


def rule_conditions_precedence(ctx: Ctx) -> None:
    """C10.4: the margin requirement applied to a symbol is the one configured for that symbol; the default conditions are only the
    fallback.  get_conditions must consult the per-symbol table first (`table.get(symbol, default)` or `table.get(symbol) or default`)."""
    from .. import norm as N
    gc = ctx.func(f"{MARGIN}.MarginLoans.get_conditions")
    rets = [r.value for r in C.walk_shallow(gc.node) if isinstance(r, ast.Return) and r.value is not None]
    sym = gc.params[1]
    ok = bool(rets)
    why = ""
    for r in rets:
        e = N.expand(gc, r)
        txt = N.canon(e).replace(" ", "")
        first = e.values[0] if isinstance(e, ast.BoolOp) and isinstance(e.op, ast.Or) else (e.body if isinstance(e, ast.IfExp) else e)
        ftxt = N.canon(first).replace(" ", "")
        good = ftxt.startswith(f"self._conditions.get({sym}") or ftxt.startswith(f"self._conditions[{sym}]")
        if isinstance(e, ast.IfExp):
            good = good or f"{sym}inself._conditions" in N.canon(e.test).replace(" ", "")
        ok &= good
        why = txt[:80]
    ctx.check(ok, "C10.4", "conditions set for a symbol take precedence over the default conditions", gc, rets[0] if rets else gc.node,
              "self._conditions.get(symbol, default)", f"get_conditions returns '{why}': the default conditions win over (or replace) the ones configured for "
              "the symbol, so a symbol with a stricter margin requirement is checked against the laxer default and loans that do not meet its requirement "
              "are granted", key_text="conditions precedence")


def run(ctx: Ctx) -> None:
    rule_conditions_precedence(ctx)
    rule_price_freshness(ctx)
    rule_no_swallowed_price(ctx)
    rule_noloans(ctx)
    rule_installed(ctx)
    rule_sentinel(ctx)
    rule_early_exit(ctx)
    rule_dependence(ctx)
    ctx.assume("prices are positive, so converting a positive net balance yields a positive amount")
    ctx.assume("the denominator (used margin + interest) is positive whenever something is borrowed")
