"""C12 -- backtesting dispatcher: global time order and exactly-once delivery."""
from __future__ import annotations

import ast
from typing import Any, Dict, List, Optional

from .. import astutil as A
from .. import cfg as C
from ..core import Ctx
from . import c03

PROP = "C12"
EXPLANATION = (
    "C12.1 clock: who-may-write _last_dt (three writers: _set_now asserted monotone, _dispatch_scheduled guarded by '>', "
    "_dispatch_events whose only caller dominates the call with the next_dt >= _last_dt assertion and passes that same "
    "next_dt); in _dispatch_events the clock store dominates every pool push, so a handler never runs with a stale clock. "
    "C12.2 barrier: an un-timed pool.wait() post-dominates every push of a pass (shared with C03.4). C12.3 multiplexer: a "
    "slot is refilled only when empty, only the returned event's slot is cleared, the candidate test contains when <= max_dt "
    "and the replacement test is strict (ties keep the earlier source in insertion order); _dispatch_loop hands the same "
    "next_dt to the scheduled-jobs and the events step; each popped event is pushed exactly once with the handlers of its "
    "own source. C12.4 staging: three awaited gathers in the order pre-sniffers, source handlers, post-sniffers, each over "
    "its own list and through _call_event_handler; subscribe/subscribe_all append only under a 'not in' guard. Global time "
    "order under every interleaving follows from these plus the premise on sources; it is argued, not explored."
    " C12.3 also: every event pop_while takes out of the multiplexer is yielded."
)
TRUSTED = ["CPython ast parser", "sa.cfg statement CFG", "dict preserves insertion order"]

D = "basana.core.dispatcher"
BD = f"{D}.BacktestingDispatcher"
MX = f"{D}.EventMultiplexer"


def rule_clock(ctx: Ctx) -> None:
    writers = {}
    for fn in ctx.repo.all_funcs():
        if not fn.module.modname.startswith("basana."):
            continue
        for s in A.stores(fn):
            if isinstance(s.target, ast.Attribute) and s.target.attr == "_last_dt":
                writers.setdefault(fn.qualname, []).append(s)
    ctx.floor("C12.1", "functions writing _last_dt", len(writers), 3)
    allowed = {f"{BD}.__init__", f"{BD}._set_now", f"{BD}._dispatch_scheduled", f"{BD}._dispatch_events"}
    for q, ss in sorted(writers.items()):
        fn = ctx.repo.funcs[q]
        for s in ss:
            ctx.check(q in allowed, "C12.1", "the dispatcher clock has exactly three writers besides the constructor", fn, s.stmt, q.split(".")[-1],
                      f"_last_dt is also written in {q}")
    sn = ctx.func(f"{BD}._set_now")
    ctx.check(any(isinstance(n, ast.Assert) and "now >= self._last_dt" in ast.unparse(n.test) for n in C.walk_shallow(sn.node)), "C12.1",
              "_set_now states monotonicity", sn, sn.node, "assert now >= last", "_set_now no longer asserts monotonicity", key_text="set_now")
    ds = ctx.func(f"{BD}._dispatch_scheduled")
    for s in writers.get(ds.qualname, []):
        par = s.stmt.parent  # type: ignore[attr-defined]
        ok = isinstance(par, ast.If) and any(isinstance(x, ast.Compare) and isinstance(x.ops[0], (ast.Gt, ast.GtE)) and "_last_dt" in ast.unparse(x)
                                             for x in ast.walk(par.test)) and A.dotted(s.node.value) is not None
        ctx.check(ok, "C12.1", "scheduled jobs never move the clock backwards", ds, s.stmt, "store guarded by '> self._last_dt'",
                  "the clock is set to a job's time without checking it is later")
    de = ctx.func(f"{BD}._dispatch_events")
    g = ctx.cfg(de)
    st = list(writers.get(de.qualname, []))
    # a call of self._set_now(x) is a clock store of x as well
    class _CS:
        pass
    for c_ in A.func_calls(de, shallow=False):
        if (A.call_name(c_) or "") == "self._set_now" and c_.args:
            cs = _CS()
            cs.stmt = A.stmt_of(c_)
            cs.node = _CS()
            cs.node.value = c_.args[0]
            st.append(cs)
    ctx.require(len(st) == 1, "C12.1: _dispatch_events should store the clock exactly once")
    ctx.check(A.dotted(st[0].node.value) == de.params[1], "C12.1", "the clock is set to the time of the pass", de, st[0].stmt, f"= {de.params[1]}",
              "the clock is set to something other than the pass time")
    sn_ = g.nodes_for(st[0].stmt)[0]
    pushes = [c for c in A.func_calls(de) if (A.call_name(c) or "").endswith("_handlers_task_pool.push")]
    ctx.floor("C12.1", "pool pushes in _dispatch_events", len(pushes), 1)
    for pu in pushes:
        pn = g.nodes_for(pu)[0]
        p = g.path_avoiding(g.entry, lambda n: n is pn, lambda n: n is sn_)
        ctx.check(p is None, "C12.1", "the clock shows the event's time before any handler of the pass can start", de, pu,
                  "clock store dominates the push", "handlers are pushed before the clock is advanced: when the pool is full the push "
                  "suspends and handlers run while the clock still shows the previous time (or none)", detail={"path": C.fmt_path(p) if p else []})
    susp = [n for n in g.nodes if C.contains_await(n) and g.path_avoiding(n, lambda x: x is sn_, lambda x: False) is not None and n is not sn_]
    ctx.check(not susp, "C12.1", "nothing suspends between entering the pass and setting the clock", de, st[0].stmt, "no await before the store",
              "a suspension point precedes the clock store")
    dl = ctx.func(f"{BD}._dispatch_loop")
    gl = ctx.cfg(dl)
    ev = [c for c in A.func_calls(dl) if (A.call_name(c) or "") == "self._dispatch_events"]
    ctx.floor("C12.1", "_dispatch_events call sites", len(ev), 1)
    asserts = [n for n in gl.nodes if n.kind == "stmt" and isinstance(n.ast, ast.Assert) and "next_dt >= self._last_dt" in ast.unparse(n.ast.test)]
    for c in ev:
        cn = gl.nodes_for(c)[0]
        p = gl.path_avoiding(gl.entry, lambda n: n is cn, lambda n: n in asserts) if asserts else [gl.entry]
        ctx.check(p is None and A.dotted(c.args[0]) == "next_dt", "C12.1", "the events step is entered only with a time >= the clock", dl, c,
                  "assert next_dt >= _last_dt dominates _dispatch_events(next_dt)", "the unguarded clock store in _dispatch_events can move "
                  "the clock backwards")
    callers = A.call_index(ctx).callers_of(f"{BD}._dispatch_events")
    for fn, m, c in callers:
        ctx.check(fn is not None and fn.qualname == f"{BD}._dispatch_loop", "C12.1", "_dispatch_events is called only from the dispatch loop", fn, c,
                  "ok", "another caller can set the clock")
    nd = [s for s in A.stores(dl) if isinstance(s.target, ast.Name) and s.target.id == "next_dt"]
    ctx.check(len(nd) == 1 and "self._event_mux.peek_next_event_dt()" in ast.unparse(nd[0].node.value), "C12.1",
              "the time of a pass is the earliest prefetched event time", dl, nd[0].stmt if nd else dl.node, "peek_next_event_dt()",
              "next_dt is not the multiplexer's earliest time")
    now = ctx.func(f"{BD}.now")
    ctx.check("return self._last_dt" in ast.unparse(now.node), "C12.1", "now() reports the clock", now, now.node, "ok", "now() changed", key_text="now")


def rule_mux(ctx: Ctx) -> None:
    pop = ctx.func(f"{MX}.pop")
    g = ctx.cfg(pop)
    stores = [s for s in A.stores(pop) if isinstance(s.target, ast.Subscript) and A.dotted(s.target.value) == "self._prefetched_events"]
    refill = [s for s in stores if not (isinstance(s.node.value, ast.Constant) and s.node.value.value is None)]
    clear = [s for s in stores if isinstance(s.node.value, ast.Constant) and s.node.value.value is None]
    ctx.require(len(refill) == 1 and len(clear) == 1, "C12.3: EventMultiplexer.pop should refill one slot and clear one slot")
    rg = next((a for a in A.ancestors(refill[0].stmt) if isinstance(a, ast.If)), None)
    okr = rg is not None and ast.unparse(rg.test) in ("evnt is None",) and "source.pop()" in ast.unparse(rg)
    ctx.check(okr, "C12.3", "a source is polled only when its slot is empty (no event is overwritten)", pop, refill[0].stmt,
              "if evnt is None: evnt = source.pop(); slot = evnt", "a prefetched event can be overwritten by a fresh poll (event lost)")
    cg = next((a for a in A.ancestors(clear[0].stmt) if isinstance(a, ast.If)), None)
    okc = cg is not None and ast.unparse(cg.test) == "ret_source" and A.dotted(clear[0].target.slice) == "ret_source" \
        and not any(isinstance(a, (ast.For, ast.While)) for a in A.ancestors(clear[0].stmt))
    ctx.check(okc, "C12.3", "exactly the returned event's slot is cleared", pop, clear[0].stmt, "slots[ret_source] = None after the scan",
              "a slot other than the returned event's is cleared, or it is cleared inside the scan (events delivered twice or dropped)")
    sel = [n for n in C.walk_shallow(pop.node) if isinstance(n, ast.If) and "max_dt" in ast.unparse(n.test)]
    ok_sel = False
    if sel:
        t = ast.unparse(sel[0].test)
        ok_sel = "evnt.when <= max_dt" in t and "evnt.when < ret_event.when" in t and "ret_event is None" in t and t.startswith("evnt and")
        body = ast.unparse(sel[0])
        ok_sel = ok_sel and "ret_source = source" in body and "ret_event = evnt" in body
    ctx.check(ok_sel, "C12.3", "the event returned is the oldest one with when <= max_dt; ties keep the earlier source", pop,
              sel[0].test if sel else pop.node, "when <= max_dt and (first or strictly older)",
              "the selection test changed: an event later than the pass time can be delivered, or ties are reordered")
    ret = [n for n in C.walk_shallow(pop.node) if isinstance(n, ast.Return)]
    ctx.check(len(ret) == 1 and ast.unparse(ret[0].value) == "(ret_source, ret_event)", "C12.3", "pop returns the selected source and event", pop,
              ret[0] if ret else pop.node, "ok", "pop returns something else")
    loops = [n for n in C.walk_shallow(pop.node) if isinstance(n, ast.For)]
    ctx.check(bool(loops) and ast.unparse(loops[0].iter) == "self._prefetched_events.items()", "C12.3", "sources are scanned in insertion order",
              pop, loops[0].iter if loops else pop.node, "dict.items()", "scan order is not the dict's insertion order")
    # pop() removes the event from its slot: whatever pop_while takes out it must hand on.  Every pop() call in pop_while is the last
    # thing its loop test evaluates (no later operand can end the loop after an event was taken), and the test's true edge leads to a yield
    pw = ctx.func(f"{MX}.pop_while")
    gpw = ctx.cfg(pw)
    pops = [c for c in A.func_calls(pw, shallow=False) if (A.call_name(c) or "") == "self.pop"]
    ctx.floor("C12.3", "pop() calls in pop_while", len(pops), 1)
    for c in pops:
        tn = [n for n in gpw.nodes_for(c) if n.kind == "test"]
        last_operand = True
        if tn:
            t_ = tn[0].ast
            if isinstance(t_, ast.BoolOp):
                idx = [i for i, v in enumerate(t_.values) if any(x is c for x in ast.walk(v))]
                last_operand = bool(idx) and idx[0] == len(t_.values) - 1
            ynodes = [n for n in gpw.nodes if n.ast is not None and any(isinstance(x, ast.Yield) for e in C.exprs_of(n) for x in C.walk_shallow(e))]
            true_succ = [m for (m, l) in tn[0].succ if l == "true"]
            reach_y = bool(true_succ) and any(y in gpw.reach(true_succ, include_sources=True, labels=C.NO_EXC) for y in ynodes)
        else:
            reach_y = False
        ctx.check(bool(tn) and last_operand and reach_y, "C12.3", "every event pop_while takes out of the multiplexer is yielded", pw, c,
                  "pop() is the last operand of the loop test and the loop body yields", "an event can be removed from its source's slot and then not "
                  "be handed on (the loop test can still fail after pop() returned an event): that event is delivered zero times",
                  key_text="popped events are yielded")
    # the multiplexer tells "an event" from "nothing" by truth value (`if event := source.pop()`, `if evnt and ...`): every Event class must
    # be always-true, i.e. define neither __bool__ nor __len__ (an 'empty' event would be dropped, or would wedge its source's slot)
    base_ev = "basana.core.event.Event"
    offenders = []
    for cq in sorted(ctx.facts.subclasses(base_ev)):
        ci_ = ctx.repo.classes.get(cq)
        if ci_ is None:
            continue
        offenders += [(cq, m.name, m) for m in ci_.node.body if isinstance(m, (ast.FunctionDef, ast.AsyncFunctionDef)) and m.name in ("__bool__", "__len__")]
    ctx.count("C12.3:event classes inspected for truthiness", len(list(ctx.facts.subclasses(base_ev))))
    if offenders:
        cq, mname, mnode = offenders[0]
        cfn = ctx.repo.funcs.get(f"{cq}.{mname}")
        ctx.bad("C12.3", "events are always true (the multiplexer separates 'an event' from 'nothing' by truth value)", cfn, mnode,
                f"{cq.rsplit('.', 1)[-1]} defines {mname}: an instance can be falsy, so EventMultiplexer drops it in _prefetch (`if event := source.pop()`) or never "
                "returns nor clears it in pop (`if evnt and ...`): the event is delivered zero times and its source can stop being polled",
                key_text=f"event truthiness {cq}.{mname}")
    else:
        ctx.ok("C12.3", "events are always true (the multiplexer separates 'an event' from 'nothing' by truth value)", pop, pop.node,
               "no Event subclass defines __bool__ / __len__", key_text="event truthiness")
    add = ctx.func(f"{MX}.add")
    ctx.check("self._prefetched_events.setdefault(source)" in ast.unparse(add.node), "C12.3", "adding a source twice keeps its slot", add, add.node,
              "setdefault", "re-adding a source can drop its prefetched event", key_text="mux add")
    pk = ctx.func(f"{MX}.peek_next_event_dt")
    src = ast.unparse(pk.node)
    mins = [c for c in A.func_calls(pk, shallow=False) if A.call_name(c) == "min"]
    from .. import norm as N
    min_ok = any(".when" in N.canon(N.expand(pk, c)) and "_prefetched_events" in N.canon(N.expand(pk, c)) for c in mins)
    # polling the empty slots happens before the minimum is taken: through _prefetch(), or in place when that helper was inlined
    polls = [c for c in A.func_calls(pk) if (A.call_name(c) or "") == "self._prefetch"] or \
            [s_.stmt for s_ in A.stores(pk, shallow=False) if isinstance(s_.target, ast.Subscript) and A.dotted(s_.target.value) == "self._prefetched_events"]
    pf_first = bool(polls) and (not mins or min(A.seq(c) for c in polls) < min(A.seq(c) for c in mins))
    ctx.check(pf_first and min_ok, "C12.3",
              "the next time is the minimum over freshly prefetched events", pk, pk.node, "prefetch; min(when)", "peek_next_event_dt changed",
              key_text="peek min")
    pf = ctx.repo.funcs.get(f"{MX}._prefetch") or pk
    ctx.analysed_funcs.add(pf.qualname)
    comps = [n for n in ast.walk(pf.node) if isinstance(n, (ast.ListComp, ast.GeneratorExp, ast.SetComp))
             and "_prefetched_events.items()" in ast.unparse(n.generators[0].iter)]
    only_empty = False
    if comps and isinstance(comps[0].generators[0].target, ast.Tuple):
        valvar = comps[0].generators[0].target.elts[1].id
        only_empty = [ast.unparse(i) for i in comps[0].generators[0].ifs] == [f"{valvar} is None"]
    sts = [s_ for s_ in A.stores(pf) if isinstance(s_.target, ast.Subscript) and A.dotted(s_.target.value) == "self._prefetched_events"]
    from_pop = bool(sts) and all(".pop()" in N.canon(N.expand(pf, s_.node.value)) and A.dotted(s_.target.slice) is not None for s_ in sts)
    ctx.check(only_empty and from_pop, "C12.3", "prefetch polls only empty slots", pf, pf.node,
              "sources with an empty slot are polled; the slot receives what the source returned", "_prefetch can overwrite a slot", key_text="prefetch")
    # each popped event is pushed exactly once with the handlers of its own source
    de = ctx.func(f"{BD}._dispatch_events")
    loops = [n for n in C.walk_shallow(de.node) if isinstance(n, ast.For)]
    ctx.require(loops and isinstance(loops[0].target, ast.Tuple), "C12.3: _dispatch_events loop shape changed")
    lp = loops[0]
    sv, ev = [e.id for e in lp.target.elts]
    pushes = [c for s in lp.body for c in A.calls(s) if (A.call_name(c) or "").endswith("_handlers_task_pool.push")]
    ok1 = len(pushes) == 1 and len(lp.body) == 1
    ctx.check(ok1, "C12.3", "each event of the pass is handed to the pool exactly once", de, pushes[0] if pushes else lp, "one push per event",
              f"{len(pushes)} pushes per event")
    if pushes:
        from .. import norm as N
        txt = N.canon(N.expand(de, pushes[0]))
        ctx.check(f"event={ev}" in txt and f"self._event_handlers.get({sv}, [])" in txt and "self._dispatch_event(EventDispatch(" in txt, "C12.3",
                  "an event is dispatched to the handlers subscribed to its own source", de, pushes[0], "EventDispatch(event, handlers of its source)",
                  "event/handlers pairing changed")


def stage_analysis(ctx: Ctx):
    """(function, ordered list of stage iterables, list of handler invocations with the primitive that runs them)."""
    fn = ctx.func(f"{D}.EventDispatcher._dispatch_event")
    invocations = []   # (call node, primitive, stage iterable text, awaited?)
    for c in A.func_calls(fn, shallow=False):
        if (A.call_name(c) or "") != "self._call_event_handler":
            continue
        prim, stage, awaited = "direct", None, False
        for a in A.ancestors(c):
            if isinstance(a, (ast.ListComp, ast.GeneratorExp)) and stage is None:
                stage = ast.unparse(a.generators[0].iter)
            if isinstance(a, ast.Call) and (A.call_name(a) or "").split(".")[-1] == "gather":
                prim = "gather"
                awaited = isinstance(a.parent, ast.Await)  # type: ignore[attr-defined]
                break
            if isinstance(a, ast.Await) and prim == "direct":
                awaited = True
            if isinstance(a, ast.stmt):
                break
        invocations.append((c, prim, stage, awaited))
    # stage order: explicit sequence of statements, or a loop over a literal tuple/list of the handler lists
    order: List[str] = []
    loopvars = {}
    for n in C.walk_shallow(fn.node):
        if isinstance(n, ast.For) and isinstance(n.iter, (ast.Tuple, ast.List)) and isinstance(n.target, ast.Name):
            loopvars[n.target.id] = [ast.unparse(e) for e in n.iter.elts]
    g = ctx.cfg(fn)
    order_idx = g.rpo()

    def pos(c):
        ns = g.nodes_for(c)
        return min((order_idx.get(n, 10 ** 6) for n in ns), default=10 ** 6)
    seq = sorted([(pos(c), c.col_offset, stage) for c, prim, stage, aw in invocations])
    for _, _, stage in seq:
        if stage in loopvars:
            for x in loopvars[stage]:
                if x not in order:
                    order.append(x)
        elif stage is not None and stage not in order:
            order.append(stage)
    return fn, order, invocations


def rule_staging(ctx: Ctx, rule: str = "C12.4") -> None:
    fn, lists, invocations = stage_analysis(ctx)
    ctx.floor(rule, "handler invocations in _dispatch_event", len(invocations), 1)
    for c, prim, stage, awaited in invocations:
        okc = len(c.args) == 2 and ast.unparse(c.args[0]).endswith(".event")
        ctx.check(okc, rule, f"handlers of stage '{stage}' are called with the event", fn, c, "ok", "a stage calls handlers with a different event")
        ctx.check(prim == "gather" and awaited, rule, f"stage '{stage}': every handler starts through the same awaited gather", fn, c,
                  "awaited asyncio.gather(*[... for handler in stage])",
                  f"handler invoked via '{prim}' (awaited={awaited}): handlers of some events start synchronously while others start as gathered "
                  "tasks, so the relative order of handlers of same-time events depends on how the pool schedules them (results depend on "
                  "max_concurrent), or a stage is not awaited and stages overlap")
    ctx.check(lists == ["self._sniffers_pre", "event_dispatch.handlers", "self._sniffers_post"], rule,
              "stages run in the order front-running catch-alls, source handlers, other catch-alls, each completed before the next", fn, fn.node,
              str(lists), f"stage order is {lists}")
    n_gather = len({id(next(a for a in A.ancestors(c) if isinstance(a, ast.Call) and (A.call_name(a) or "").split(".")[-1] == "gather"))
                    for c, prim, st, aw in invocations if prim == "gather"})
    in_loop = any(isinstance(a, ast.For) for c, prim, st, aw in invocations for a in A.ancestors(c) if not isinstance(a, (ast.ListComp,)))
    ctx.check(n_gather == 3 or (n_gather >= 1 and in_loop), rule, "each stage has its own gather (a stage completes before the next starts)", fn, fn.node,
              f"{n_gather} gather(s){' in a loop over the stages' if in_loop else ''}", f"{n_gather} gather(s) for three stages: handlers of different "
              "stages run interleaved once a front-running handler suspends")
    sub = ctx.func(f"{D}.EventDispatcher.subscribe")
    src = ast.unparse(sub.node)
    ctx.check("if event_handler not in handlers:" in src and "handlers.append(event_handler)" in src and "self._event_handlers.setdefault(source, [])" in src
              and "self._event_mux.add(source)" in src, "C12.4", "a handler is subscribed once per source, in subscription order", sub, sub.node,
              "append under 'not in'", "duplicate subscriptions are not ignored / order is not append order")
    sa = ctx.func(f"{D}.EventDispatcher.subscribe_all")
    src = ast.unparse(sa.node)
    ctx.check("self._sniffers_pre if front_run else self._sniffers_post" in src and "if event_handler not in sniffers:" in src
              and "sniffers.append(event_handler)" in src, "C12.4", "catch-all handlers go to the front-running or trailing list, once", sa, sa.node,
              "ok", "subscribe_all changed")
    ceh = ctx.func(f"{D}.EventDispatcher._call_event_handler")
    aw = [n for n in C.walk_shallow(ceh.node) if isinstance(n, ast.Await) and isinstance(n.value, ast.Call)]
    ctx.check(len(aw) == 1 and ast.unparse(aw[0].value) == "handler(event)", "C12.4", "a handler is called once with the event", ceh,
              aw[0] if aw else ceh.node, "await handler(event)", "handler invocation changed")


def run(ctx: Ctx) -> None:
    rule_clock(ctx)
    c03.rule_barrier(ctx) if False else _barrier(ctx)
    rule_mux(ctx)
    rule_staging(ctx)
    ctx.assume("every source yields its events in non-decreasing time order (the property's premise)")


def _barrier(ctx: Ctx) -> None:
    n0 = len(ctx.obs)
    c03.rule_barrier(ctx)
    for o in ctx.obs[n0:]:
        o.rule = "C12.2"
        o.key = o.key.replace("C03.4", "C12.2", 1)
