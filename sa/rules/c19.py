"""C19 -- bars built from CSV rows and live trades are faithful."""
from __future__ import annotations

import ast
import codecs
from typing import Dict, List, Optional, Tuple

from .. import absint as AI
from .. import astutil as A
from .. import norm as N
from .. import cfg as C
from ..core import Ctx

PROP = "C19"
EXPLANATION = (
    "Static analysis of basana/core/bar.py, core/event_sources/csv.py and the CSV row parsers. C19.1: Bar.__init__ is "
    "abstractly interpreted over all 75 weak orderings of {open, high, low, close}: the attribute stores are reached "
    "exactly by the orderings with low <= open, close <= high and store the parameter of the same name; nothing else "
    "assigns those attributes. C19.2: window tiling of RealTimeTradesToBar decided with affine time forms a*D + c us "
    "from the timedelta constructor calls in main() and the membership comparisons in _flush(): consecutive windows "
    "must neither overlap nor leave a gap on a microsecond clock. C19.3: every RowParser feeds each Bar parameter "
    "from the row key of the same name through Decimal, the event time is the bar time plus the parser's period, the "
    "period tables are derived from the download step tables, sorting selects the sorting loader and sorts by 'when'. "
    "C19.4: the BOM table is evaluated as constants: no entry is shadowed by an earlier prefix, each BOM decodes to "
    "U+FEFF (or nothing) under its paired codec. OHLCV aggregation arithmetic is not claimed."
    " C19.2 also: every flush consumes the skip-first-bar flag."
    " C19.2 also: every feeder of push_trade passes the trade's own timestamp."
    " C19.2 also: both window edges advance by increments of the bar duration (a window re-derived from the clock each iteration skips windows after a late flush)."
)
TRUSTED = ["CPython ast parser", "sa.absint weak-ordering interpreter", "stdlib codecs constants",
           "datetime has microsecond resolution"]

BAR = "basana.core.bar"


# -- C19.1 ------------------------------------------------------------------------------------------------------
def rule_bar_invariant(ctx: Ctx) -> None:
    init = ctx.func(f"{BAR}.Bar.__init__")
    syms = ["open", "high", "low", "close"]
    params = init.params
    ctx.require(all(s in params for s in syms), "C19.1: Bar.__init__ parameters changed")
    n_eval = 0
    n_valid = 0
    bad_accept: List[str] = []
    bad_reject: List[str] = []
    bad_store: List[str] = []
    for order in AI.weak_orderings(syms):
        valid = order["low"] <= order["open"] <= order["high"] and order["low"] <= order["close"] <= order["high"]
        n_valid += valid

        def make_self():
            return AI.Obj("self", {})

        def run(it: AI.Interp):
            env = {p: AI.OPAQUE for p in params}
            env["self"] = it.globals["__self__"]
            for s in syms:
                env[s] = AI.Num(order[s], order[s], "price")
            it.exec_block(init.node.body, env)
            return AI.NONE
        glb = {"__zero__": {"price": -1}, "InvalidBar": AI.OPAQUE}
        try:
            outs = AI.explore(run, {}, glb, make_self)
        except AI.Unsupported as e:
            ctx.require(False, f"C19.1: Bar.__init__ uses a construct the interpreter does not model: {e}")
        for o in outs:
            n_eval += 1
            if o.kind == "return":
                if not valid:
                    bad_accept.append(AI.describe(order))
                else:
                    for s in syms:
                        v = o.state.get(s)
                        if not (isinstance(v, AI.Num) and v.lo == v.hi == order[s]):
                            bad_store.append(f"{AI.describe(order)}: self.{s} = {v!r}")
            else:
                if valid:
                    bad_reject.append(f"{AI.describe(order)} -> {o.value}")
    ctx.count("eval:C19.1 abstract runs", n_eval)
    ctx.exhaustive = True
    ctx.sample({"rule": "C19.1", "orderings": 75, "valid": n_valid, "example": "low < open=close < high -> accepted"})
    ctx.check(not bad_accept, "C19.1", "no invalid bar is accepted (75 weak orderings)", init, init.node,
              f"every ordering violating low <= open, close <= high raises ({75 - n_valid} orderings)",
              f"invalid bar accepted for ordering(s): {bad_accept[:3]}", key_text="no invalid accepted",
              detail={"orderings": bad_accept[:10]})
    ctx.check(not bad_reject, "C19.1", "no valid bar is rejected", init, init.node,
              f"all {n_valid} valid orderings reach the attribute stores",
              f"valid bar rejected for ordering(s): {bad_reject[:3]}", key_text="no valid rejected",
              detail={"orderings": bad_reject[:10]})
    ctx.check(not bad_store, "C19.1", "each attribute stores the parameter of the same name", init, init.node,
              "open/high/low/close stored unchanged", f"attribute stored from the wrong value: {bad_store[:3]}",
              key_text="stores same name")
    # WRITERS: nothing else assigns Bar.open/high/low/close
    n = 0
    for fn in ctx.repo.all_funcs():
        for s in A.stores(fn):
            t = s.target
            if isinstance(t, ast.Attribute) and t.attr in syms and s.kind in ("assign", "augassign", "delete"):
                rc = A.recv_class(ctx, fn.module, t)
                is_bar = rc is not None and ctx.facts.is_subclass(rc, f"{BAR}.Bar")
                if not is_bar and not (isinstance(t.value, ast.Name) and t.value.id == "self" and fn.cls is not None
                                       and ctx.facts.is_subclass(fn.cls.qualname, f"{BAR}.Bar")):
                    continue
                n += 1
                ctx.check(fn.qualname == f"{BAR}.Bar.__init__", "C19.1", "OHLC attributes are written only by Bar.__init__",
                          fn, s.stmt, "constructor store", f"{ast.unparse(t)} written outside Bar.__init__: the invariant "
                          "checked at construction no longer holds")
    ctx.floor("C19.1", "stores to Bar OHLC attributes", n, 4)
    # subclasses go through super().__init__
    for sub in ctx.facts.subclasses(f"{BAR}.Bar"):
        if sub == f"{BAR}.Bar" or sub not in ctx.repo.classes:
            continue
        ms = ctx.repo.methods_of(sub)
        if "__init__" in ms:
            f2 = ms["__init__"]
            ok = any((A.call_name(c) or "") == "super().__init__" for c in A.func_calls(f2))
            ctx.check(ok, "C19.1", f"{sub.rsplit('.', 2)[-2]}.{sub.rsplit('.', 1)[-1]} constructs through Bar.__init__", f2,
                      f2.node, "super().__init__", "subclass bypasses Bar.__init__ validation", key_text=f"super init {sub}")


# -- C19.2 ------------------------------------------------------------------------------------------------------
UNIT_US = {"days": 86400_000_000, "hours": 3600_000_000, "minutes": 60_000_000, "seconds": 1_000_000,
           "milliseconds": 1000, "microseconds": 1}


def _affine(e: ast.AST, dur_attr: str = "_bar_duration") -> Optional[Tuple[float, float]]:
    """``datetime.timedelta(...)`` as (a, c): a * D seconds + c microseconds, D = self._bar_duration."""
    if not (isinstance(e, ast.Call) and (A.call_name(e) or "").endswith("timedelta")):
        return None
    a = 0.0
    c = 0.0
    if e.args:
        return None
    for k in e.keywords:
        if k.arg not in UNIT_US:
            return None
        v = k.value
        neg = False
        if isinstance(v, ast.UnaryOp) and isinstance(v.op, ast.USub):
            neg, v = True, v.operand
        if isinstance(v, ast.Constant) and isinstance(v.value, (int, float)):
            c += (-v.value if neg else v.value) * UNIT_US[k.arg]
        elif A.dotted(v) == f"self.{dur_attr}":
            a += (-1 if neg else 1) * UNIT_US[k.arg] / UNIT_US["seconds"]
        else:
            return None
    return a, c


def rule_window_tiling(ctx: Ctx) -> None:
    cls = f"{BAR}.RealTimeTradesToBar"
    main = ctx.func(f"{cls}.main")
    flush = ctx.func(f"{cls}._flush")
    # main: end = begin + td ; begin += td ; end += td
    end_def = None
    incs: Dict[str, Tuple[float, float]] = {}
    for s in A.stores(main):
        if isinstance(s.target, ast.Name) and s.target.id == "end" and isinstance(s.node, ast.Assign):
            v = s.node.value
            if isinstance(v, ast.BinOp) and isinstance(v.op, ast.Add) and isinstance(v.left, ast.Name) and v.left.id == "begin":
                end_def = (_affine(N.expand(main, v.right)), s.stmt)
        if isinstance(s.node, ast.AugAssign) and isinstance(s.target, ast.Name) and s.target.id in ("begin", "end") \
                and isinstance(s.node.op, ast.Add):
            af = _affine(N.expand(main, s.node.value))
            ctx.require(af is not None, f"C19.2: step of '{s.target.id}' is not a timedelta constructor the affine domain models")
            incs[s.target.id] = af
    ctx.require(end_def is not None and end_def[0] is not None, "C19.2: 'end = begin + timedelta(...)' not found in main "
                                                                 "(unrecognised window idiom)")
    if not ("begin" in incs and "end" in incs):
        loops_ = [n for n in C.walk_shallow(main.node) if isinstance(n, ast.While)]
        reassigned = [s_ for s_ in A.stores(main) if isinstance(s_.target, ast.Name) and s_.target.id in ("begin", "end") and loops_
                      and A.is_within(s_.stmt, loops_[0])]
        ctx.require(reassigned, "C19.2: 'begin += ...' / 'end += ...' not found in main")
        ctx.bad("C19.2", "both window edges advance by one bar duration", main, reassigned[0].stmt,
                f"the next window is not the previous one shifted by the bar duration ('{ast.unparse(reassigned[0].stmt)[:60]}' recomputes it inside the loop): "
                "when a flush runs late the windows in between are never flushed and their trades end up in no bar", key_text="advance by D")
        return
    (a, c), stmt = end_def
    ctx.check(incs["begin"] == (1.0, 0.0) and incs["end"] == (1.0, 0.0), "C19.2", "both window edges advance by one bar duration",
              main, stmt, "begin += D; end += D", f"window edges advance by {incs}: windows drift", key_text="advance by D")
    # begin is aligned to a multiple of D
    # _flush: membership test on the trade time
    tname = None
    lower_incl = upper_incl = None
    for n in C.walk_shallow(flush.node):
        if isinstance(n, ast.Compare) and len(n.ops) == 1 and isinstance(n.left, ast.Name) \
                and isinstance(n.comparators[0], ast.Name):
            l, r, op = n.left.id, n.comparators[0].id, n.ops[0]
            if r == flush.params[1]:      # begin
                if isinstance(op, ast.Lt):
                    lower_incl, tname = True, l
                elif isinstance(op, ast.LtE):
                    lower_incl, tname = False, l
            elif r == flush.params[2]:    # end
                if isinstance(op, ast.Gt):
                    upper_incl = True
                elif isinstance(op, ast.GtE):
                    upper_incl = False
    if lower_incl is None or upper_incl is None:
        # is the missing bound tested in any other form?  then the idiom is unknown; otherwise the window is unbounded
        bound_name = flush.params[1] if lower_incl is None else flush.params[2]
        other = [n for n in C.walk_shallow(flush.node) if isinstance(n, ast.Compare)
                 and any(isinstance(x, ast.Name) and x.id == bound_name for x in ast.walk(n))
                 and not {x.id for x in ast.walk(n) if isinstance(x, ast.Name)} <= {flush.params[1], flush.params[2]}
                 and not isinstance(getattr(n, "parent", None), ast.Assert)]
        ctx.require(not other, "C19.2: window membership is tested with an idiom the rule does not recognise")
        side = "lower" if lower_incl is None else "upper"
        ctx.bad("C19.2", f"window membership has a {side} bound", flush, flush.node,
                f"_flush never compares the trade time with the window's {'begin' if side == 'lower' else 'end'}: trades "
                f"{'older than the window are folded into its bar' if side == 'lower' else 'of later windows are folded into this bar'}"
                " (a trade is counted in a bar it does not belong to)", key_text=f"{side} bound present")
        return
    # gap between consecutive windows on a 1 us clock: next.begin - this.end, in microseconds, as a*D + c
    gap_a = 1.0 - a
    gap_c = -c
    need = (1.0 if upper_incl else 0.0) - (0.0 if lower_incl else 1.0)
    # exclusive lower bound would lose the first instant: fold into 'need'
    inst = f"windows [{'begin' if lower_incl else 'begin+'}, end{']' if upper_incl else ')'} with end = begin + {a:g}*D {c:+g}us"
    ok = gap_a == 0.0 and gap_c == need
    ctx.sample({"rule": "C19.2", "end_minus_begin": f"{a:g}*D {c:+g}us", "upper_inclusive": upper_incl,
                "lower_inclusive": lower_incl, "gap_between_windows_us": gap_c if gap_a == 0 else f"{gap_a:g}*D {gap_c:+g}"})
    if ok:
        ctx.ok("C19.2", inst, main, stmt, "consecutive windows tile a microsecond clock exactly (no gap, no overlap)",
               key_text="window tiling")
    else:
        if gap_a != 0:
            what = f"window length is {a:g} bar durations"
        elif gap_c > need:
            what = (f"consecutive windows leave a gap of {gap_c - need:g} us: a trade whose timestamp falls in the gap "
                    "(e.g. hh:mm:59.999500 with 1-minute bars) belongs to no bar and its volume is lost")
        else:
            what = f"consecutive windows overlap by {need - gap_c:g} us: a trade can be counted in two bars"
        ctx.bad("C19.2", inst, main, stmt, what, key_text="window tiling")
    # flush emits the bar at the window end, built from the window begin
    bars = [c_ for c_ in A.func_calls(flush) if (A.call_name(c_) or "").split(".")[-1] == "Bar"]
    evs = [c_ for c_ in A.func_calls(flush) if (A.call_name(c_) or "").split(".")[-1] == "BarEvent"]
    ctx.require(bars and evs, "C19.2: _flush no longer builds Bar/BarEvent")
    ctx.check(A.dotted(bars[0].args[0]) == flush.params[1] and A.dotted(evs[0].args[0]) == flush.params[2], "C19.2",
              "bar starts at the window begin and is emitted at the window end", flush, evs[0],
              "Bar(begin, ...), BarEvent(end, bar)", "bar/event timestamps are not the window's begin/end",
              key_text="bar times")
    names = [A.dotted(x) for x in bars[0].args[2:7]]
    # the five aggregates are five distinct locals, in Bar's parameter order; each is then checked to be computed the way its parameter
    # needs (first / max / min / last / sum) -- their names do not matter
    ctx.check(len(names) == 5 and all(nm and "." not in nm for nm in names) and len(set(names)) == 5, "C19.2",
              "Bar's open, high, low, close, volume come from five distinct aggregates", flush, bars[0], str(names), f"Bar built from {names}",
              key_text="aggregate mapping")
    AGG = dict(zip(["open", "high", "low", "close", "volume"], [nm or "?" for nm in names] + ["?"] * 5))
    # aggregates: open first, high max, low min, close last, volume sum
    def update_table(name: str):
        """(value when the aggregate is still unset (falsy), value once it is set) for the in-loop update of ``name``"""
        falsy = truthy = None
        for s_ in A.stores(flush):
            if not (isinstance(s_.target, ast.Name) and s_.target.id == name and any(isinstance(a_, ast.For) for a_ in A.ancestors(s_.stmt))):
                continue
            if isinstance(s_.node, ast.AugAssign):
                return ("aug", ast.unparse(s_.node).replace(" ", ""))
        for t, pol, v in N.guarded_values(flush, name):
            if v is None or not any(isinstance(a_, ast.For) for a_ in A.ancestors(v)):
                continue
            tt = N.canon(t) if t is not None else None
            vv = N.canon(v).replace(" ", "")
            if tt is None:
                falsy = truthy = vv
            elif tt == f"not {name}":
                falsy, truthy = (vv, truthy) if pol else (falsy, vv)
            elif tt == name:
                falsy, truthy = (falsy, vv) if pol else (vv, truthy)
            else:
                return ("?", tt)
        return (falsy if falsy is not None else name, truthy if truthy is not None else name)
    # names of the trade's price and amount: positions 1 and 2 of the (when, price, amount) records the loop iterates
    P, Q = "price", "amount"
    for lp_ in [n for n in C.walk_shallow(flush.node) if isinstance(n, ast.For) and "self._trades" in ast.unparse(n.iter)]:
        rec = lp_.target
        if isinstance(rec, ast.Tuple) and len(rec.elts) == 2 and isinstance(rec.elts[1], ast.Tuple) and "enumerate" in ast.unparse(lp_.iter):
            rec = rec.elts[1]
        if isinstance(rec, ast.Tuple) and len(rec.elts) == 3 and all(isinstance(e, ast.Name) for e in rec.elts):
            P, Q = rec.elts[1].id, rec.elts[2].id
    O_, H_, L_, C_, V_ = (AGG[k_] for k_ in ("open", "high", "low", "close", "volume"))
    want = {"open": [(P, O_)], "high": [(P, f"max({H_},{P})"), (P, f"max({P},{H_})")],
            "low": [(P, f"min({L_},{P})"), (P, f"min({P},{L_})")], "close": [(P, P)],
            "volume": [("aug", f"{V_}+={Q}")]}
    for k, accepted in want.items():
        got = update_table(AGG[k])
        ctx.check(got in accepted, "C19.2", f"{k} aggregates the window's trades correctly", flush, flush.node,
                  f"(first trade, later trades) -> {got}", f"{k} is updated as (first trade, later trades) -> {got}, expected {accepted[0]}",
                  key_text=f"aggregate {k}")
    # the skip-first-bar flag is consumed by the first flush, whatever that window contained
    gf = ctx.cfg(flush)
    clr = [s_ for s_ in A.stores(flush) if A.dotted(s_.target) == "self._skip_first_bar" and isinstance(s_.node, ast.Assign) and A.const_value(s_.node.value) is False]
    if clr:
        cn_ = gf.nodes_for(clr[0].stmt)[0]
        pth = gf.always_followed_by(gf.entry, lambda n: n is cn_, labels=C.NO_EXC)
        ctx.check(pth is None, "C19.2", "every flush consumes the skip-first-bar flag", flush, clr[0].stmt, "self._skip_first_bar = False on every path",
                  "a flush can return without clearing the skip-first-bar flag (e.g. an early return for an empty window): the flag then swallows "
                  "a later, complete window and its trades end up in no bar", detail={"path": C.fmt_path(pth) if pth else []}, key_text="skip flag consumed")
        reads = [n for n in gf.nodes if n.ast is not None and n is not cn_ and any(isinstance(x, ast.Attribute) and x.attr == "_skip_first_bar"
                 and isinstance(x.ctx, ast.Load) for e in C.exprs_of(n) for x in C.walk_shallow(e))]
        ctx.check(bool(reads) and all(gf.path_avoiding(gf.entry, lambda n, r=r: n is r, lambda n: n is cn_) is not None for r in reads), "C19.2",
                  "only the first flush is affected by the flag", flush, clr[0].stmt, "flag read before it is cleared", "flag is cleared before it is read",
                  key_text="skip flag read first")
    else:
        ctx.bad("C19.2", "every flush consumes the skip-first-bar flag", flush, flush.node, "self._skip_first_bar is never cleared in _flush: every bar is skipped",
                key_text="skip flag consumed")
    # who feeds the aggregator, and with which time: the trade's own timestamp (an event's `when` can be the time the message was
    # received: bucketing by it moves trades that arrive late into the next window)
    ci_ = A.call_index(ctx)
    feeders = ci_.callers_of(f"{cls}.push_trade")
    ctx.count("C19.2:push_trade call sites", len(feeders))
    for f_, m_, c_ in feeders:
        if f_ is None or not c_.args:
            continue
        ctx.analysed_funcs.add(f_.qualname)
        a0 = N.canon(N.expand(f_, c_.args[0]))
        ctx.check(a0.endswith(".datetime") and ".trade" in a0, "C19.2", "trades are bucketed by their own timestamp", f_, c_, a0,
                  f"push_trade is given '{a0}' as the trade time, not the trade's own datetime: a trade executed at the end of a window but received after "
                  "the next one began is counted in the wrong bar", key_text=f"trade time {f_.qualname}")
    # in-order guard of push_trade
    pt = ctx.func(f"{cls}.push_trade")
    cmp_ = [n for n in C.walk_shallow(pt.node) if isinstance(n, ast.Compare) and isinstance(n.ops[0], ast.Lt)
            and "_next_trade_ge" in ast.unparse(n.comparators[0])]
    ctx.check(bool(cmp_), "C19.2", "late trades are rejected with a strict comparison (ties are in order)", pt,
              cmp_[0] if cmp_ else pt.node, "when < next_trade_ge", "in-order guard changed", key_text="push guard")


# -- C19.3 ------------------------------------------------------------------------------------------------------
def _row_keys(e: ast.AST, rowvar: str) -> List[str]:
    out = []
    for n in ast.walk(e):
        if isinstance(n, ast.Subscript) and isinstance(n.value, ast.Name) and n.value.id == rowvar \
                and isinstance(n.slice, ast.Constant):
            out.append(str(n.slice.value))
    return out


def rule_row_mapping(ctx: Ctx) -> None:
    base = "basana.core.event_sources.csv.RowParser"
    parsers = [c for c in ctx.facts.subclasses(base) if c != base and c in ctx.repo.classes]
    ctx.floor("C19.3", "RowParser implementations", len(parsers), 2)
    bar_init = ctx.func(f"{BAR}.Bar.__init__")
    bparams = bar_init.params[1:]   # datetime, pair, open, high, low, close, volume
    for cls in parsers:
        fn = ctx.repo.methods_of(cls).get("parse_row")
        if fn is None:
            continue
        ctx.analysed_funcs.add(fn.qualname)
        rowvar = fn.params[1]
        bars = [c for c in A.func_calls(fn) if (A.call_name(c) or "").split(".")[-1] == "Bar"]
        evs = [c for c in A.func_calls(fn) if (A.call_name(c) or "").split(".")[-1] == "BarEvent"]
        ctx.require(bars and evs, f"C19.3: {cls}.parse_row no longer builds Bar/BarEvent")
        # local name -> row keys (element-wise for tuple assignments)
        loc: Dict[str, List[str]] = {}
        reassigned: Dict[str, List[ast.AST]] = {}
        for s in sorted(A.stores(fn), key=lambda s: A.seq(s.stmt)):
            n = s.node
            if isinstance(n, ast.Assign) and len(n.targets) == 1:
                t = n.targets[0]
                if isinstance(t, ast.Name):
                    ks = _row_keys(n.value, rowvar)
                    if t.id not in loc:
                        loc[t.id] = ks
                elif isinstance(t, ast.Tuple) and isinstance(n.value, ast.Tuple) and len(t.elts) == len(n.value.elts):
                    for te, ve in zip(t.elts, n.value.elts):
                        if isinstance(te, ast.Name) and te.id not in loc:
                            loc[te.id] = _row_keys(ve, rowvar)
                elif isinstance(t, ast.Tuple) and isinstance(n.value, ast.Call):
                    # x, y = f(x, y, ...): position-preserving helper; checked below
                    tn = [e.id for e in t.elts if isinstance(e, ast.Name)]
                    an = [a.id for a in n.value.args[:len(tn)] if isinstance(a, ast.Name)]
                    okpos = tn == an
                    callee = ctx.repo.funcs.get(f"{fn.module.modname}.{A.call_name(n.value)}")
                    okret = False
                    if callee is not None:
                        ctx.analysed_funcs.add(callee.qualname)
                        rets = [r for r in C.walk_shallow(callee.node) if isinstance(r, ast.Return)]
                        okret = bool(rets) and all(
                            isinstance(r.value, ast.Tuple) and [A.dotted(e) for e in r.value.elts] == callee.params[:len(tn)]
                            for r in rets)
                    ctx.check(okpos and okret, "C19.3", f"helper {A.call_name(n.value)} keeps open/high/low/close positions", fn, n,
                              "targets = first arguments, helper returns its parameters in order",
                              "a helper call permutes open/high/low/close")
        short = cls.split(".")[-3] + "." + cls.split(".")[-1] if cls.count(".") >= 3 else cls
        for i, arg in enumerate(bars[0].args):
            if i >= len(bparams):
                break
            p = bparams[i]
            if p not in ("open", "high", "low", "close", "volume"):
                continue
            keys = _row_keys(arg, rowvar)
            if not keys and isinstance(arg, ast.Name):
                keys = loc.get(arg.id, [])
            through_dec = "Decimal(" in ast.unparse(arg) or (isinstance(arg, ast.Name) and any(
                isinstance(s.node, ast.Assign) and "Decimal(" in ast.unparse(s.node.value)
                for s in A.stores(fn) if any(isinstance(x, ast.Name) and x.id == arg.id for x in ast.walk(s.target))))
            ok = [k.lower() for k in keys] == [p] and through_dec
            ctx.check(ok, "C19.3", f"{short}: Bar.{p} comes from row['{p}'] through Decimal", fn, bars[0],
                      f"fed from row key(s) {keys}", f"Bar.{p} is fed from row key(s) {keys} "
                      f"({'via Decimal' if through_dec else 'not via Decimal'})", key_text=f"{cls} {p}")
        # event time = bar time + self.timedelta
        w = evs[0].args[0] if evs[0].args else None
        b0 = bars[0].args[0] if bars[0].args else None
        okw = isinstance(w, ast.BinOp) and isinstance(w.op, ast.Add) and A.dotted(w.right) == "self.timedelta" \
            and A.dotted(w.left) is not None and A.dotted(w.left) == A.dotted(b0)
        ctx.check(okw, "C19.3", f"{short}: event time = bar start + period", fn, evs[0], "BarEvent(dt + self.timedelta, Bar(dt, ...))",
                  "event time is not the bar's start plus the period", key_text=f"{cls} when")
        zero_skip = any(isinstance(n, ast.If) and "volume" in ast.unparse(n.test) and "== 0" in ast.unparse(n.test)
                        for n in C.walk_shallow(fn.node))
        ctx.note(f"C19.3 sibling cross-check: {cls} {'skips' if zero_skip else 'does not skip'} zero-volume rows (not armed)")
    # period tables derived from the step tables
    for mod in ("basana.external.binance.csv.bars", "basana.external.bitstamp.csv.bars"):
        m = ctx.repo.module(mod)
        tbl = [n for n in m.tree.body if isinstance(n, ast.Assign) and any(
            isinstance(t, ast.Name) and t.id == "period_to_timedelta" for t in n.targets)]
        ctx.require(tbl, f"C19.3: period_to_timedelta not found in {mod}")
        v = tbl[0].value
        ok = isinstance(v, ast.DictComp) and "period_to_step.items()" in ast.unparse(v.generators[0].iter) \
            and ast.unparse(v.value).replace(" ", "") == f"datetime.timedelta(seconds={ast.unparse(v.generators[0].target.elts[1])})" \
            and ast.unparse(v.key) == ast.unparse(v.generators[0].target.elts[0])

        class _F:
            qualname = mod + ".period_to_timedelta"

            @staticmethod
            def loc(node=None):
                return f"{m.relpath}:{tbl[0].lineno}"
        ctx.check(ok, "C19.3", f"{mod.split('.')[2]}: period table derived from the download step table", _F, tbl[0],
                  "{p: timedelta(seconds=s) for p, s in period_to_step.items()}", "period table no longer derived from "
                  "period_to_step", key_text=f"{mod} period table")
    # sorting
    es = ctx.func("basana.core.event_sources.csv.EventSource.initialize")
    sel: Dict[Any, str] = {}

    def pol_of(test: ast.AST, pol: bool):
        t = N.canon(N.expand(es, test))
        return pol if t == "self._sort" else ((not pol) if t in ("not self._sort", "self._sort is False") else "?")

    def loader_of(e: ast.AST, pol) -> None:
        if isinstance(e, ast.IfExp):
            for br, p2 in ((e.body, True), (e.orelse, False)):
                loader_of(br, pol_of(e.test, p2) if pol is None else "?")
            return
        f = e.func if isinstance(e, ast.Call) else e
        if isinstance(f, ast.IfExp):
            loader_of(f, pol)
            return
        if isinstance(f, ast.Name) and f.id in ("load_sort_and_yield", "load_and_yield"):
            sel[pol] = f.id if sel.get(pol, f.id) == f.id else "?"
        elif isinstance(f, ast.Name):
            for t, p2, v in N.guarded_values(es, f.id):
                if v is None:
                    sel["?"] = "?"
                elif t is None:
                    loader_of(v, pol)
                else:
                    loader_of(v, pol_of(t, p2) if pol is None else "?")
        else:
            sel["?"] = N.canon(f)
    for s_ in A.stores(es):
        if A.dotted(s_.target) == "self._row_it" and isinstance(s_.node, (ast.Assign, ast.AnnAssign)):
            gi = [a for a in A.ancestors(s_.stmt) if isinstance(a, ast.If)]
            pol = None
            if gi:
                pol = pol_of(gi[0].test, any(A.is_within(s_.stmt, b) for b in gi[0].body))
            loader_of(s_.node.value, pol)
    ok = sel == {True: "load_sort_and_yield", False: "load_and_yield"}
    ctx.check(ok, "C19.3", "sorting loader selected iff sort was requested", es, es.node, "if self._sort: load_sort_and_yield",
              "sort flag does not select the sorting loader", key_text="sort selects")
    ls = ctx.func("basana.core.event_sources.csv.load_sort_and_yield")
    srt = [c for c in A.func_calls(ls) if A.call_name(c) in ("sorted",) or (A.call_name(c) or "").endswith(".sort")]
    key = A.kw(srt[0], "key") if srt else None
    okk = key is not None and isinstance(key, ast.Lambda) and ast.unparse(key.body).endswith(".when") \
        and not (A.kw(srt[0], "reverse") is not None and A.const_value(A.kw(srt[0], "reverse")) is True)
    ctx.check(okk, "C19.3", "events are sorted by their time, ascending", ls, srt[0] if srt else ls.node,
              "sorted(events, key=lambda ev: ev.when)", "sorted loader does not sort ascending by 'when'", key_text="sort key")
    for q in ("load_sort_and_yield", "load_and_yield"):
        f2 = ctx.func(f"basana.core.event_sources.csv.{q}")
        # directly, or by consuming the other loader of this module (which does)
        reach_ = {f2.qualname} | {f"basana.core.event_sources.csv.{A.call_name(c)}" for c in A.func_calls(f2)
                                  if A.call_name(c) in ("load_and_yield", "load_sort_and_yield") and A.call_name(c) != q}
        fs_ = [ctx.repo.funcs[x] for x in reach_ if x in ctx.repo.funcs]
        ok2 = any((A.call_name(c) or "").endswith("parse_row") for f_ in fs_ for c in A.func_calls(f_)) and \
            any((A.call_name(c) or "") == "open_file_with_detected_encoding" for f_ in fs_ for c in A.func_calls(f_))
        ctx.check(ok2, "C19.3", f"{q} parses every row of the detected-encoding file", f2, f2.node, "DictReader rows -> parse_row",
                  "loader does not parse rows of the encoding-detected file", key_text=f"{q} shape")


# -- C19.4 ------------------------------------------------------------------------------------------------------
def rule_bom_table(ctx: Ctx) -> None:
    fn = ctx.func("basana.core.event_sources.csv.open_file_with_detected_encoding")
    # the table is whatever the detection loop (the one that calls raw.startswith) iterates: a literal, or a local / module constant
    dloops = [n for n in C.walk_shallow(fn.node) if isinstance(n, ast.For)
              and any(isinstance(x, ast.Call) and (A.call_name(x) or "").endswith(".startswith") for x in ast.walk(n))]
    ctx.require(dloops, "C19.4: BOM detection loop not found")
    tv = N.expand(fn, dloops[0].iter)

    class _T:
        pass
    tbls = []
    if isinstance(tv, (ast.List, ast.Tuple)) and tv.elts and all(isinstance(e, (ast.Tuple, ast.List)) and len(e.elts) == 2 for e in tv.elts):
        t_ = _T()
        t_.node = _T()
        t_.node.value = tv
        t_.stmt = dloops[0]
        tbls = [t_]
    ctx.require(tbls, "C19.4: BOM table not found")
    entries: List[Tuple[bytes, str, str]] = []
    for e in tbls[0].node.value.elts:
        d = A.dotted(e.elts[0]) or ""
        ctx.require(d.startswith("codecs.BOM") and hasattr(codecs, d.split(".")[1]), f"C19.4: BOM constant {d} unknown")
        enc = A.const_value(e.elts[1])
        ctx.require(isinstance(enc, str), "C19.4: codec name is not a string literal")
        entries.append((getattr(codecs, d.split(".")[1]), enc, d))
    ctx.floor("C19.4", "BOM table entries", len(entries), 5)
    for i, (bom_i, enc_i, name_i) in enumerate(entries):
        shadow = [name_j for (bom_j, enc_j, name_j) in entries[:i] if bom_i.startswith(bom_j)]
        ctx.check(not shadow, "C19.4", f"{name_i} is not shadowed by an earlier prefix", fn, tbls[0].stmt,
                  "reachable in first-match order", f"{name_i} can never match: earlier entry {shadow} is a prefix of it, "
                  "so such files are decoded with the wrong codec", key_text=f"shadow {name_i}")
        try:
            dec = bom_i.decode(enc_i)
        except Exception as ex:  # unknown codec
            dec = f"<{ex}>"
        ctx.check(dec in ("﻿", ""), "C19.4", f"{name_i} pairs with codec {enc_i}", fn, tbls[0].stmt,
                  "BOM decodes to U+FEFF / is stripped", f"BOM {name_i} does not decode to U+FEFF under {enc_i!r}",
                  key_text=f"pair {name_i}")
    maxlen = max(len(b) for b, _, _ in entries)
    reads = [c for c in A.func_calls(fn) if (A.call_name(c) or "").endswith(".read") and c.args
             and isinstance(c.args[0], ast.Constant)]
    ctx.check(bool(reads) and reads[0].args[0].value >= maxlen, "C19.4", "enough bytes are read to see the longest BOM", fn,
              reads[0] if reads else fn.node, f"reads >= {maxlen} bytes", "fewer bytes read than the longest BOM",
              key_text="bom read length")
    loops = [n for n in C.walk_shallow(fn.node) if isinstance(n, ast.For)]
    okl = bool(loops) and any(isinstance(x, ast.Break) for x in ast.walk(loops[0])) and \
        any(isinstance(x, ast.Call) and (A.call_name(x) or "").endswith(".startswith") for x in ast.walk(loops[0]))
    ctx.check(okl, "C19.4", "first matching BOM wins", fn, loops[0] if loops else fn.node, "startswith + break",
              "BOM detection loop no longer stops at the first match", key_text="first match")
    dflt = fn.node.args.defaults
    ctx.check(bool(dflt) and A.const_value(dflt[0]) in ("utf-8", "utf8"), "C19.4", "files without BOM are read as UTF-8", fn,
              fn.node, "default_encoding='utf-8'", "default encoding is not UTF-8", key_text="default utf-8")


def run(ctx: Ctx) -> None:
    rule_bar_invariant(ctx)
    rule_window_tiling(ctx)
    rule_row_mapping(ctx)
    rule_bom_table(ctx)
    ctx.assume("trade timestamps have microsecond resolution (datetime)")
    ctx.assume("prices are positive Decimals; Decimal comparison is a total order on the values used")
