"""C06 -- funds on hold exactly cover open orders and are released on close."""
from __future__ import annotations

import ast
import copy
from typing import Any, Dict, List, Optional, Set

from .. import astutil as A
from .. import norm as N
from .. import cfg as C
from ..core import Ctx
from .common import margin_rule_early_exits

PROP = "C06"
EXPLANATION = (
    "C06.1 same-value/pairing in add_order: the map returned by the estimate is the one placed on hold and the one recorded "
    "for the order, the record follows the successful update, the order is registered after both. C06.2 close => release on "
    "the CFG: every statement of OrderManager that can close an order (cancel, add_fill, not_filled) is followed on every "
    "normal path by _order_closed unless the order is tested still open; _order_closed releases first and unconditionally; "
    "in _update_balances the closed branch releases exactly every recorded entry and deletes the record, the open branch "
    "applies to the record the same delta it applied to the account and never releases more than is held (max(spent, "
    "-held)). C06.3 who-may-hold: hold_updates appear only in OrderManager and, paired with the collateral record, in "
    "LoanManager. C06.4 frame rule for update rules (class-hierarchy analysis over UpdateRule.check): the set of ledger "
    "maps each rule's verdict depends on is computed by parameter dependence and compared with a table; a rule that does "
    "not read holds must exit early whenever the maps it does read are unchanged, so a pure hold release can never be "
    "refused. C06.5 sibling agreement: the reservation estimate runs the same pipeline as a fill (round the fill, fees on "
    "the rounded fill, round the fees) and reserves only what would be debited. The arithmetic 'accepted with exactly that "
    "much, rejected with one unit less' is not claimed."
    " C06.5 also: order classes that carry a limit price reserve at the limit price (with C04.1 an upper bound of what a fill can cost)."
)
TRUSTED = ["CPython ast parser", "mypy callee resolution / class hierarchy", "sa.cfg statement CFG"]

OM = "basana.backtesting.order_mgr.OrderManager"
LM = "basana.backtesting.loan_mgr.LoanManager"
AB = "basana.backtesting.account_balances.AccountBalances"
RULE_BASE = "basana.backtesting.account_balances.UpdateRule"


def rule_add_order(ctx: Ctx) -> None:
    fn = ctx.func(f"{OM}.add_order")
    g = ctx.cfg(fn)
    est = [c for c in A.func_calls(fn) if (A.call_name(c) or "") == "self._estimate_required_balances"]
    ctx.require(len(est) == 1, "C06.1: add_order no longer calls _estimate_required_balances exactly once")
    par = est[0].parent  # type: ignore[attr-defined]
    var = par.target.id if isinstance(par, ast.NamedExpr) else (par.targets[0].id if isinstance(par, ast.Assign) and isinstance(par.targets[0], ast.Name) else None)
    ctx.require(var is not None, "C06.1: the estimate is not bound to a name")
    ctx.check(len(est[0].args) == 1 and A.dotted(est[0].args[0]) == fn.params[1], "C06.1", "the estimate is computed for the order being added",
              fn, est[0], "ok", "estimate computed for a different order")
    ups = [c for c in A.func_calls(fn) if (A.call_name(c) or "").endswith("account_balances.update")]
    recs = [s for s in A.stores(fn) if isinstance(s.target, ast.Subscript) and A.dotted(s.target.value) == "self._holds_by_order"]
    adds = [c for c in A.func_calls(fn) if (A.call_name(c) or "") == "self._orders.add"]
    ctx.require(len(ups) == 1 and len(recs) == 1 and len(adds) == 1, "C06.1: add_order lost its update / record / registration")
    hu = A.kw(ups[0], "hold_updates")
    ctx.check(hu is not None and A.dotted(hu) == var and set(k.arg for k in ups[0].keywords) == {"hold_updates"}, "C06.1",
              "exactly the estimate is placed on hold", fn, ups[0], f"hold_updates={var}", "the amount put on hold is not the estimate")
    ctx.check(A.dotted(recs[0].node.value) == var and A.dotted(recs[0].target.slice) == f"{fn.params[1]}.id", "C06.1",
              "exactly the estimate is recorded for the order", fn, recs[0].stmt, f"_holds_by_order[order.id] = {var}",
              "the record of what is on hold for the order differs from what was put on hold")
    un, rn, an = g.nodes_for(ups[0])[0], g.nodes_for(recs[0].stmt)[0], g.nodes_for(adds[0])[0]
    p = g.path_avoiding(g.entry, lambda n: n is rn, lambda n: n is un)
    ctx.check(p is None, "C06.1", "the record is written only after the hold succeeded", fn, recs[0].stmt, "update dominates the record",
              "a hold is recorded that was never (successfully) placed", detail={"path": C.fmt_path(p) if p else []})
    # registration after hold+record whenever there is something to hold
    tests = [n for n in g.nodes if n.kind == "test" and any(isinstance(x, ast.Name) and x.id == var or isinstance(x, ast.NamedExpr) and x.target.id == var
                                                            for x in ast.walk(n.ast))]
    p2 = _path_avoiding_nodes_not_via_false(g, an, {rn}, tests)
    ctx.check(p2 is None, "C06.1", "the order is registered after its funds are on hold (unless nothing needs to be held)", fn, adds[0],
              "record dominates registration except on the nothing-to-hold edge", "an order can be registered as open without its hold",
              detail={"path": C.fmt_path(p2) if p2 else []})
    ctx.check(len(adds[0].args) == 1 and A.dotted(adds[0].args[0]) == fn.params[1], "C06.1", "the order registered is the one added", fn,
              adds[0], "ok", "a different object is registered")


def _path_avoiding_nodes_not_via_false(g, target, avoid: Set, tests) -> Optional[List]:
    from collections import deque
    prev = {g.entry: None}
    dq = deque([g.entry])
    while dq:
        n = dq.popleft()
        if n is target:
            p = [n]
            while prev[p[-1]] is not None:
                p.append(prev[p[-1]])
            return list(reversed(p))
        for (m, lab) in n.succ:
            if m in prev or m in avoid:
                continue
            if n in tests and lab == "false":
                continue
            prev[m] = n
            dq.append(m)
    return None


def rule_release(ctx: Ctx) -> None:
    closers = {"cancel", "add_fill", "not_filled"}
    n_sites = 0
    for q, fn in sorted(ctx.repo.funcs.items()):
        if not q.startswith(f"{OM}."):
            continue
        g = None
        for c in A.func_calls(fn):
            nm = A.call_name(c) or ""
            if nm.split(".")[-1] in closers and nm.split(".")[0] == "order" and len(nm.split(".")) == 2:
                n_sites += 1
                g = g or ctx.cfg(fn)
                cn = g.nodes_for(c)[0]

                def is_release(n):
                    return any(isinstance(x, ast.Call) and (A.call_name(x) or "") == "self._order_closed" and x.args
                               and A.dotted(x.args[0]) == "order" for e in C.exprs_of(n) for x in C.walk_shallow(e))

                def is_open_test(n):
                    return n.kind == "test" and ast.unparse(n.ast) in ("not order.is_open", "order.is_open")
                p = g.path_avoiding(cn, lambda n: n is g.exit, lambda n: is_release(n) or is_open_test(n), C.NO_EXC)
                ctx.check(p is None, "C06.2", f"order.{nm.split('.')[-1]}() in {fn.name} is followed by _order_closed unless the order "
                          "is still open", fn, c, "every normal path passes _order_closed(order) or an is_open test",
                          "an order can close on this path without its funds on hold being released",
                          detail={"path": C.fmt_path(p) if p else []})
                # the is_open test must route the closed case to the release
                for t in [n for n in g.nodes if is_open_test(n)]:
                    closed_edge = "true" if ast.unparse(t.ast).startswith("not") else "false"
                    succ = [m for (m, l) in t.succ if l == closed_edge]
                    reach = g.reach(succ, include_sources=True, labels=C.NO_EXC)
                    if cn in g.reach([cn], labels=C.NO_EXC) or True:
                        if t in g.reach([cn], labels=C.NO_EXC):
                            okb = any(is_release(x) for x in reach)
                            ctx.check(okb, "C06.2", f"the closed branch after {nm.split('.')[-1]}() in {fn.name} releases", fn, t.ast,
                                      "closed edge leads to _order_closed", "the branch taken when the order is closed does not release")
    ctx.floor("C06.2", "order-closing statements in OrderManager", n_sites, 3)
    oc = ctx.func(f"{OM}._order_closed")
    stmts = [s for s in oc.node.body if not (isinstance(s, ast.Expr) and isinstance(s.value, ast.Constant))]
    first = stmts[0]
    okf = isinstance(first, ast.Expr) and isinstance(first.value, ast.Call) and (A.call_name(first.value) or "") == "self._update_balances" \
        and len(first.value.args) == 2 and A.dotted(first.value.args[0]) == oc.params[1] and isinstance(first.value.args[1], ast.Dict) \
        and not first.value.args[1].keys
    ctx.check(okf, "C06.2", "_order_closed releases first and unconditionally", oc, first, "self._update_balances(order, {})",
              "_order_closed does not start with the unconditional release")
    ub = ctx.func(f"{OM}._update_balances")
    src = ast.unparse(ub.node)
    oh = [s for s in A.stores(ub) if isinstance(s.target, ast.Name) and s.target.id == "order_holds"]
    ctx.check(bool(oh) and ast.unparse(oh[0].node.value) in ("self._holds_by_order.get(order.id, ValueMap())", "self._holds_by_order.get(order.id)"), "C06.2",
              "the holds considered are the order's own record", ub, oh[0].stmt if oh else ub.node, "self._holds_by_order.get(order.id, ...)",
              "the record looked up is not the order's own")
    from .. import norm as N
    calls_all = [c for c in A.func_calls(ub) if (A.call_name(c) or "").endswith("account_balances.update")]
    # an update that passes a literal empty release (the order has nothing on hold) is not the releasing call
    nohold = [c for c in calls_all if A.kw(c, "hold_updates") is None or ast.unparse(A.kw(c, "hold_updates")) in ("{}", "dict()", "None")]
    call = [c for c in calls_all if c not in nohold]
    ctx.require(len(call) == 1, "C06.2: _update_balances lost its ledger update")
    hname = A.dotted(A.kw(call[0], "hold_updates"))
    ctx.check(hname is not None and "." not in hname and A.dotted(A.kw(call[0], "balance_updates")) == ub.params[2], "C06.2",
              "the release computed is the one applied to the account", ub, call[0], f"hold_updates={hname}",
              "the account is updated with a different release than the one computed")
    group = N.aliases(ub, hname) if hname and "." not in hname else set()
    hu = [s for s in A.stores(ub) if isinstance(s.target, ast.Name) and s.target.id in group and isinstance(s.node, (ast.Assign, ast.AnnAssign))
          and isinstance(s.node.value, ast.DictComp)]

    def shape(dc: ast.DictComp):
        """(key, value, iterable, filters) with the comprehension's own variables renamed to $k/$v."""
        gen = dc.generators[0]
        ren = {}
        if isinstance(gen.target, ast.Tuple) and len(gen.target.elts) == 2 and all(isinstance(e, ast.Name) for e in gen.target.elts):
            ren = {gen.target.elts[0].id: "$k", gen.target.elts[1].id: "$v"}

        def txt(e):
            e2 = copy.deepcopy(e)
            for x in ast.walk(e2):
                if isinstance(x, ast.Name) and x.id in ren:
                    x.id = ren[x.id]
            return ast.unparse(e2).replace(" ", "")
        return txt(dc.key), txt(dc.value), txt(gen.iter), sorted(txt(c) for i in gen.ifs for c in (i.values if isinstance(i, ast.BoolOp) and isinstance(i.op, ast.And) else [i]))
    closed = [s for s in hu if shape(s.node.value)[2] == "order_holds.items()"]
    opened = [s for s in hu if shape(s.node.value)[2] == f"{ub.params[2]}.items()"]
    g = ctx.cfg(ub)
    un = g.nodes_for(call[0])[0]

    def edge_kind(n, lab):
        """closed / open / empty / None for the out-edge `lab` of test node n."""
        if n.kind != "test":
            return None
        t = ast.unparse(n.ast)
        if t == "order.is_open":
            return {"true": "open", "false": "closed"}.get(lab)
        if t == "not order.is_open":
            return {"true": "closed", "false": "open"}.get(lab)
        if t == "order_holds":
            return {"false": "empty"}.get(lab)
        if t == "not order_holds":
            return {"true": "empty"}.get(lab)
        return None

    def reach_skipping(kinds, avoid=()):
        seen, st = {g.entry}, [g.entry]
        while st:
            n = st.pop()
            for (m, lab) in n.succ:
                if lab in ("exc",) or m in seen or m in avoid or edge_kind(n, lab) in kinds:
                    continue
                seen.add(m)
                st.append(m)
        return seen

    def branch_ok(sts, own, other):
        if not sts:
            return False
        sn = g.nodes_for(sts[0].stmt)[0]
        only_own = sn not in reach_skipping({own})                       # reached only through an `own` edge
        complete = un not in reach_skipping({other, "empty"}, avoid={sn})  # every `own`, non-empty path to the ledger update assigns it
        return only_own and complete
    okc = bool(closed) and shape(closed[0].node.value)[:2] == ("$k", "-$v") and not shape(closed[0].node.value)[3] and branch_ok(closed, "closed", "open")
    ctx.check(okc, "C06.2", "a closed order releases exactly every recorded entry", ub, closed[0].stmt if closed else ub.node,
              "{symbol: -amount for symbol, amount in order_holds.items()} on the closed branch", "closed-order release is not the negation "
              "of the whole record", key_text="closed release")
    oko = False
    if opened:
        k, val, _, flt = shape(opened[0].node.value)
        oko = k == "$k" and val == "max($v,-order_holds.get($k,Decimal(0)))" and "$v<Decimal(0)" in flt and "$kinorder_holds" in flt \
            and branch_ok(opened, "open", "closed")
    ctx.check(oko, "C06.2", "an open order releases what it spent, never more than is held", ub, opened[0].stmt if opened else ub.node,
              "max(amount, -held) for debited symbols that are on hold", "the release for a partial fill is not bounded by what is held "
              "(or releases for symbols that were not debited)", key_text="open release")
    for c_ in nohold:
        cn_ = g.nodes_for(c_)[0]
        ctx.check(cn_ not in reach_skipping({"empty"}), "C06.2", "an update without a release happens only when the order has nothing on hold", ub, c_,
                  "reached only through the 'no holds' edge", "the account is updated without releasing although the order may have funds on hold")
    others = [s for s in A.stores(ub) if isinstance(s.target, ast.Name) and s.target.id in group and s.node not in [c_.node for c_ in closed + opened]
              and not (isinstance(s.node, (ast.Assign, ast.AnnAssign)) and (isinstance(s.node.value, ast.Name) or ast.unparse(s.node.value) in ("{}", "None", "dict()")))]
    ctx.check(not others, "C06.2", "the release has no other source", ub, others[0].stmt if others else ub.node, "only {}, the closed form and the open form",
              "the release applied can be something other than the closed/open forms", key_text="other release sources")
    aug = [s for s in A.stores(ub) if isinstance(s.node, ast.AugAssign) and A.dotted(s.target) == "order_holds" and A.dotted(s.node.value) in group
           and isinstance(s.node.op, ast.Add)]
    dele = [s for s in A.stores(ub) if s.kind == "delete" and "self._holds_by_order[order.id]" in ast.unparse(s.stmt)]
    ctx.check(bool(aug) and bool(dele), "C06.2", "the record follows the account: += release while open, deleted when closed", ub,
              (aug[0].stmt if aug else ub.node), "order_holds += hold_updates / del record", "the order's record is not updated with the "
              "same release / not deleted on close: holds leak or are released twice")
    for s in aug + dele:
        sn = g.nodes_for(s.stmt)[0]
        tests_bal = [n for n in g.nodes if n.kind == "test" and ast.unparse(n.ast) in (f"{ub.params[2]} or {hname}", f"{hname} or {ub.params[2]}")]
        p = _path_avoiding_nodes_not_via_false(g, sn, {un}, tests_bal)
        ctx.check(p is None, "C06.2", "the record changes only after the account accepted the release", ub, s.stmt,
                  "ledger update dominates the record change (except when there is nothing to apply)",
                  "the record is changed although the account update did not happen", detail={"path": C.fmt_path(p) if p else []})


def rule_who_may_hold(ctx: Ctx) -> None:
    ci = A.call_index(ctx)
    n = 0
    for fn, m, c in ci.callers_of(f"{AB}.update"):
        hu = A.kw(c, "hold_updates")
        if hu is None:
            continue
        n += 1
        cls = fn.cls.qualname if fn is not None and fn.cls is not None else None
        ctx.check(cls in (OM, LM), "C06.3", "holds change only on behalf of orders (OrderManager) or loan collateral (LoanManager)", fn, c,
                  str(cls), "funds are put on hold / released by something that is neither an order nor a loan")
        if cls == LM and fn is not None:
            src = ast.unparse(fn.node)
            if fn.name == "create_loan":
                ok = "self._collateral_by_loan[loan.id] = ValueMap(required_collateral)" in src and A.dotted(hu) == "required_collateral"
            else:
                ok = "self._collateral_by_loan.pop(loan_id)" in src and "collateral = self._collateral_by_loan[loan_id]" in src \
                    and ast.unparse(hu).replace(" ", "") == "{symbol:-amountforsymbol,amountincollateral.items()}"
            ctx.check(ok, "C06.3", f"collateral hold in {fn.name} is paired with the collateral record", fn, c, "recorded on create, popped and "
                      "released in full on repay/cancel", "collateral put on hold / released does not match the collateral record")
    ctx.floor("C06.3", "update sites with hold_updates", n, 5)
    for fn in ctx.repo.all_funcs():
        for s in A.stores(fn):
            ba = A.base_attr(s.target)
            if ba is not None and ba[1] == "_holds_by_order":
                ctx.check(fn.qualname in (f"{OM}.__init__", f"{OM}.add_order", f"{OM}._update_balances"), "C06.3",
                          "the per-order hold record is written only by add_order / _update_balances", fn, s.stmt, "ok",
                          "the hold record is modified elsewhere")


EXPECTED_DEPS = {
    "basana.backtesting.account_balances.NonZero.check": ({0, 1, 2}, "each map must stay non-negative"),
    "basana.backtesting.account_balances.ValidHold.check": ({0, 1}, "hold <= balance per symbol"),
    "basana.backtesting.lending.margin.CheckMarginLevel.check": ({0, 2}, "equity and borrowed value; balances already include what is on hold"),
}


def _param_deps(ctx: Ctx, fn, depth: int = 0) -> Set[int]:
    """indices (0..2) of the (balances, holds, borrowed) parameters the function body reads, through callees by position."""
    params = fn.params[1:4] if fn.cls is not None else fn.params[:3]
    deps: Set[int] = set()
    ci = A.call_index(ctx)
    forwarded_only: Dict[str, bool] = {p: True for p in params}
    for n in A.body_nodes(fn, shallow=False):
        if isinstance(n, ast.Name) and n.id in params and isinstance(n.ctx, ast.Load):
            par = n.parent  # type: ignore[attr-defined]
            if isinstance(par, ast.Call) and n in par.args and depth < 4:
                idx = par.args.index(n)
                callees = [ctx.repo.funcs[q] for c in ci.callees(fn.module, par) for q in ci.overrides_of(c) if q in ctx.repo.funcs]
                if callees and len(par.args) == 3 and [A.dotted(a) for a in par.args] == params:
                    for f2 in callees:
                        ctx.analysed_funcs.add(f2.qualname)
                        sub = _param_deps(ctx, f2, depth + 1)
                        if idx in sub:
                            deps.add(params.index(n.id))
                    continue
            deps.add(params.index(n.id))
    return deps


def rule_frame(ctx: Ctx) -> None:
    impls = [f"{c}.check" for c in ctx.facts.subclasses(RULE_BASE) if c != RULE_BASE and f"{c}.check" in ctx.repo.funcs]
    ctx.floor("C06.4", "UpdateRule.check implementations", len(impls), 3)
    names = ["balances", "holds", "borrowed"]
    for q in impls:
        fn = ctx.func(q)
        deps = _param_deps(ctx, fn)
        exp = EXPECTED_DEPS.get(q)
        short = q.split(".")[-2]
        ctx.sample({"rule": "C06.4", "update_rule": short, "depends_on": [names[i] for i in sorted(deps)]})
        if exp is None:
            ctx.bad("C06.4", f"update rule {short} has a stated dependence set", fn, fn.node, f"new update rule {q}: add its dependence "
                    "set (and reason) to the table in sa/rules/c06.py", key_text=f"deps {short}")
            continue
        ctx.check(deps == exp[0], "C06.4", f"{short} depends on {{{', '.join(names[i] for i in sorted(exp[0]))}}} ({exp[1]})", fn, fn.node,
                  f"reads {[names[i] for i in sorted(deps)]}", f"{short} reads {[names[i] for i in sorted(deps)]}, expected "
                  f"{[names[i] for i in sorted(exp[0])]}: " + ("funds on hold are part of the balance already, counting them again "
                                                              "overstates equity" if 1 in deps - exp[0] else "the rule ignores a map it must check"),
                  key_text=f"deps {short}")
        if 1 not in deps:
            # does not read holds: a holds-only update must not be judged
            exits = margin_rule_early_exits(ctx) if short == "CheckMarginLevel" else []
            tables = [e["table"] for e in exits if e["table"] is not None and e.get("quantifier") == "all"]
            ok = any(t["new==old"] is True for t in tables)
            ctx.check(ok, "C06.4", f"{short} (does not read holds) exits early when what it reads is unchanged", fn, fn.node,
                      f"early exit tables {tables}", f"{short} does not depend on holds yet judges pure hold updates with state it reads "
                      "elsewhere (prices): releasing the funds of a cancelled order can be refused and the funds stay on hold",
                      key_text=f"frame {short}")


def rule_estimate(ctx: Ctx) -> None:
    est = ctx.func(f"{OM}._estimate_required_balances")
    po = ctx.func(f"{OM}._process_order")

    def pipeline(fn) -> List[str]:
        seq = []
        for c in A.func_calls(fn):
            nm = (A.call_name(c) or "").split(".")[-1]
            if nm in ("_round_balance_updates", "calculate_fees", "_round_fees"):
                seq.append(nm)
        return seq
    pe, pp = pipeline(est), pipeline(po)
    want = ["_round_balance_updates", "calculate_fees", "_round_fees"]
    ctx.check(pp == want, "C06.5", "a fill rounds the amounts, computes fees on the rounded amounts, rounds the fees", po, po.node, str(pp),
              f"fill pipeline is {pp}", key_text="fill pipeline")
    ctx.check(pe == want, "C06.5", "the reservation estimate runs the same pipeline as a fill (sibling agreement)", est, est.node, str(pe),
              f"estimate pipeline is {pe}, a fill runs {want}: the reservation can differ from what the fill will debit by a precision "
              "unit (request accepted with too little, or rejected with exactly enough)", key_text="estimate pipeline")
    # fees are computed from the same map that was rounded
    g = ctx.cfg(est)
    rb = [c for c in A.func_calls(est) if (A.call_name(c) or "") == "self._round_balance_updates"]
    cf = [c for c in A.func_calls(est) if (A.call_name(c) or "").endswith(".calculate_fees")]
    if rb and cf:
        same = A.dotted(rb[0].args[0]) == A.dotted(cf[0].args[1])
        dom = g.path_avoiding(g.entry, lambda n: n is g.nodes_for(cf[0])[0], lambda n: n is g.nodes_for(rb[0])[0]) is None
        ctx.check(same and dom, "C06.5", "estimated fees are computed on the rounded estimate", est, cf[0], "rounding dominates calculate_fees "
                  "on the same map", "fees are estimated on the unrounded notional")
    # the price the reservation is computed at bounds the price the fill can be charged at: for orders that carry a limit, C04.1 shows
    # every fill is at the limit or better, so reserving at the limit price covers it -- any other estimate (e.g. the stop price) does not
    ORD_ = "basana.backtesting.orders"
    n_lim = 0
    for cq, ci_ in sorted(ctx.repo.classes.items()):
        if not cq.startswith(ORD_ + "."):
            continue
        ms = ctx.repo.methods_of(cq)
        init = ms.get("__init__")
        if init is None or not any(A.dotted(s_.target) == "self._limit_price" for s_ in A.stores(init)):
            continue
        n_lim += 1
        ef = ms.get("calculate_estimated_fill_price")
        rets_ = [N.canon(r.value) for r in C.walk_shallow(ef.node) if isinstance(r, ast.Return) and r.value is not None] if ef is not None else []
        ctx.check(ef is not None and bool(rets_) and all(r == "self._limit_price" for r in rets_), "C06.5",
                  f"{cq.rsplit('.', 1)[-1]} reserves at its limit price (the worst price it can be filled at)", ef if ef is not None else init,
                  ef.node if ef is not None else init.node, "return self._limit_price",
                  f"{cq.rsplit('.', 1)[-1]}.calculate_estimated_fill_price returns {rets_ or 'nothing of its own'}: the funds put on hold at acceptance are computed at a "
                  "price other than the limit, so the order can be accepted with less than it may have to pay (or rejected with exactly enough)",
                  key_text=f"estimate price {cq}")
    ctx.floor("C06.5", "order classes with a limit price", n_lim, 2)
    ret = [n for n in C.walk_shallow(est.node) if isinstance(n, ast.Return) and n.value is not None]
    okr = False
    if ret:
        v = ret[-1].value
        dcs = [x for x in ast.walk(v) if isinstance(x, ast.DictComp)]
        okr = bool(dcs) and ast.unparse(dcs[0].value) == "-amount" and any("amount < Decimal(0)" in ast.unparse(i) for i in dcs[0].generators[0].ifs)
    ctx.check(okr, "C06.5", "only what would be debited is reserved", est, ret[-1] if ret else est.node, "{s: -a for ... if a < 0}",
              "the reservation is not the negated debits of the estimate")
    src = ast.unparse(est.node)
    ctx.check("estimated_balance_updates += fees" in src, "C06.5", "estimated fees are part of the reservation", est, est.node, "+= fees",
              "fees are not added to the reservation", key_text="fees in estimate")
    ctx.check("order.amount * base_sign" in src and "order.amount * estimated_fill_price * -base_sign" in src, "C06.5",
              "the estimate is for the whole ordered amount at the estimated price", est, est.node, "amount, amount*price",
              "estimate no longer uses the full amount x estimated price", key_text="estimate amounts")


def run(ctx: Ctx) -> None:
    rule_add_order(ctx)
    rule_release(ctx)
    rule_who_may_hold(ctx)
    rule_frame(ctx)
    rule_estimate(ctx)
    ctx.assume("recorded holds never exceed the account's holds (they are added and removed together, C06.1/C06.2)")
