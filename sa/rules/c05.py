"""C05 -- order lifecycle is a monotone state machine mirrored by order events."""
from __future__ import annotations

import ast
from typing import Any, Dict, List, Optional, Set

from .. import astutil as A
from .. import cfg as C
from ..core import Ctx
from . import c04

PROP = "C05"
EXPLANATION = (
    "C05.1 typestate + who-may-call: Order._state is written only by the constructor, cancel() (asserted OPEN) and "
    "add_fill(), whose completion test is evaluated on the three orderings of {filled, amount} (COMPLETED exactly when "
    "filled >= amount, never back to OPEN); cancel <- OrderManager.cancel_order (dominated by the not-open guard) and the two "
    "fill-or-kill not_filled overrides; add_fill / not_filled <- _process_order <- on_bar_event over the open orders. C05.2 "
    "fill-or-kill siblings: MarketOrder and StopOrder override not_filled with cancel(), LimitOrder/StopLimitOrder do not; "
    "from the exhaustive weak-ordering interpretation (shared with C04) every market/stop fill is the whole pending amount. "
    "C05.3 every fill amount is bounded by the pending amount on every abstract outcome; filled + remaining = amount by "
    "definition. C05.4 event pairing on the CFG: acceptance, every fill and every closure are followed by exactly one "
    "order-event push that comes after the last mutation of the order, fill-time events carry the bar's time. C05.5 "
    "listings: the lazy re-index of the open list keeps every item that is still open (guards mention only is_open and the "
    "re-index flag), every consumer drains the generator synchronously, filters compare the attribute with the parameter "
    "of the same name. Time order of events across bars is C12; long histories are covered through the re-index "
    "discipline, not by execution."
    " C05.2 also: the matching loop is on every normal path of on_bar_event. C05.5 is decided on CFG path conditions (what holds on every path to the yield / the append / the swap), independent of nesting and names."
)
TRUSTED = ["CPython ast parser", "mypy callee resolution / class hierarchy", "sa.cfg", "sa.absint (shared exploration with C04)"]

ORD = "basana.backtesting.orders"
OM = "basana.backtesting.order_mgr.OrderManager"
EX = "basana.backtesting.exchange.Exchange"
CONT = "basana.backtesting.helpers.ExchangeObjectContainer"


def rule_typestate(ctx: Ctx) -> None:
    ci = A.call_index(ctx)
    n = 0
    for fn in ctx.repo.all_funcs():
        if not fn.module.modname.startswith("basana.backtesting"):
            continue
        for s in A.stores(fn):
            if isinstance(s.target, ast.Attribute) and s.target.attr == "_state":
                n += 1
                ok = fn.qualname in (f"{ORD}.Order.__init__", f"{ORD}.Order.cancel", f"{ORD}.Order.add_fill")
                v = ast.unparse(s.node.value) if hasattr(s.node, "value") else ""
                if fn.qualname.endswith(".cancel"):
                    ok = ok and v == "OrderState.CANCELED"
                if fn.qualname.endswith(".add_fill"):
                    ok = ok and v == "OrderState.COMPLETED"
                ctx.check(ok, "C05.1", "order state is written only by the constructor, cancel() and add_fill()", fn, s.stmt, f"= {v}",
                          f"_state = {v} in {fn.qualname.split('.', 2)[-1]}: the state machine has an extra transition")
    ctx.floor("C05.1", "stores to Order._state", n, 3)
    cn = ctx.func(f"{ORD}.Order.cancel")
    ctx.check(any(isinstance(x, ast.Assert) and ast.unparse(x.test) == "self._state == OrderState.OPEN" for x in C.walk_shallow(cn.node)),
              "C05.1", "cancel() states the order is open", cn, cn.node, "assert state == OPEN", "cancel() no longer asserts OPEN",
              key_text="cancel asserts")
    af = ctx.func(f"{ORD}.Order.add_fill")
    g = ctx.cfg(af)
    st = [s for s in A.stores(af) if A.dotted(s.target) == "self._state"]
    ok = False
    tbl = None
    if st:
        par = st[0].stmt.parent  # type: ignore[attr-defined]
        if isinstance(par, ast.If) and isinstance(par.test, ast.Compare) and len(par.test.ops) == 1 and not par.orelse:
            l, r = ast.unparse(par.test.left), ast.unparse(par.test.comparators[0])
            role = {"self.amount_filled": "F", "self.amount": "A", "self._amount": "A"}
            if role.get(l) and role.get(r) and role[l] != role[r]:
                tbl = {}
                for name, (f, a) in (("filled<amount", (1, 2)), ("filled==amount", (2, 2)), ("filled>amount", (3, 2))):
                    x, y = (f, a) if role[l] == "F" else (a, f)
                    tbl[name] = {ast.Lt: x < y, ast.LtE: x <= y, ast.Gt: x > y, ast.GtE: x >= y, ast.Eq: x == y}.get(type(par.test.ops[0]))
                ok = tbl == {"filled<amount": False, "filled==amount": True, "filled>amount": True}
    ctx.sample({"rule": "C05.1", "completion test over orderings of {filled, amount}": tbl})
    ctx.check(ok, "C05.1", "an order completes exactly when filled >= amount (3 orderings)", af, st[0].stmt if st else af.node, str(tbl),
              f"completion test truth table {tbl}: an order stays open when fully filled, or closes early")
    acc = [s for s in A.stores(af) if isinstance(s.node, ast.AugAssign) and A.dotted(s.target) == "self._balance_updates"]
    okacc = bool(acc) and bool(st) and A.seq(acc[0].stmt) < A.seq(st[0].stmt.parent)  # type: ignore[attr-defined]
    ctx.check(okacc, "C05.1", "the fill is accumulated before the completion test", af, acc[0].stmt if acc else af.node, "+= then test",
              "completion is tested before the fill is added")
    allowed = {
        f"{ORD}.Order.cancel": {f"{OM}.cancel_order", f"{ORD}.MarketOrder.not_filled", f"{ORD}.StopOrder.not_filled"},
        f"{ORD}.Order.add_fill": {f"{OM}._process_order"},
        f"{ORD}.Order.not_filled": {f"{OM}._process_order", f"{OM}._process_order.order_not_filled"},
        f"{OM}._process_order": {f"{OM}.on_bar_event"},
    }
    for target, who in allowed.items():
        callers = ci.callers_of(target)
        ctx.floor("C05.1", f"call sites of {target.rsplit('.', 1)[-1]}", len(callers), 1)
        for fn, m, c in callers:
            ctx.check(fn is not None and fn.qualname in who, "C05.1", f"{target.split('.', 2)[-1]} is reached only from "
                      f"{sorted(w.split('.', 2)[-1] for w in who)}", fn, c, "ok", f"{target.rsplit('.', 1)[-1]} is also called from "
                      f"{fn.qualname if fn else '?'}: an order can change state outside the documented transitions")
    ob = ctx.func(f"{OM}.on_bar_event")
    loops = [n for n in C.walk_shallow(ob.node) if isinstance(n, ast.For)]
    okl = bool(loops) and "self._orders.get_open(" in ast.unparse(loops[0].iter) and ".pair == bar_event.bar.pair" in ast.unparse(loops[0].iter)
    ctx.check(okl, "C05.1", "only open orders of the bar's pair are processed", ob, loops[0].iter if loops else ob.node,
              "filter(pair == bar.pair, get_open())", "orders processed for a bar are not the open orders of its pair")
    co = ctx.func(f"{OM}.cancel_order")
    g2 = ctx.cfg(co)
    cancels = [c for c in A.func_calls(co) if (A.call_name(c) or "") == "order.cancel"]
    guards = [n for n in g2.nodes if n.kind == "test" and ast.unparse(n.ast) == "not order.is_open"]
    okg = bool(cancels) and bool(guards) and any(isinstance(b, ast.Raise) for b in guards[0].ast.parent.body) and \
        g2.path_avoiding(g2.entry, lambda n: n is g2.nodes_for(cancels[0])[0], lambda n: n is guards[0]) is None  # type: ignore
    ctx.check(okg, "C05.1", "cancelling a closed order fails before anything changes", co, cancels[0] if cancels else co.node,
              "raise when not order.is_open dominates order.cancel()", "a closed order can be cancelled again")
    io = ctx.func(f"{ORD}.Order.is_open")
    ctx.check(ast.unparse(io.node.body[-1]) == "return self._state == OrderState.OPEN", "C05.1", "is_open reads the state", io, io.node, "ok",
              "is_open no longer means state == OPEN", key_text="is_open")


def rule_fill_or_kill(ctx: Ctx) -> None:
    for cls, should in (("MarketOrder", True), ("StopOrder", True), ("LimitOrder", False), ("StopLimitOrder", False)):
        q = f"{ORD}.{cls}.not_filled"
        fn = ctx.repo.funcs.get(q)
        if should:
            ok = fn is not None and any((A.call_name(c) or "") == "self.cancel" for c in A.func_calls(fn))
            ctx.check(ok, "C05.2", f"{cls} is fill-or-kill: an unfilled bar cancels it", fn, fn.node if fn else None, "not_filled -> cancel()",
                      f"{cls}.not_filled does not cancel: a market/stop order survives the first bar of its pair",
                      key_text=f"{cls} not_filled")
        else:
            ctx.check(fn is None, "C05.2", f"{cls} stays open when a bar does not fill it", fn, fn.node if fn else None, "no override",
                      f"{cls} overrides not_filled: a resting order is closed by a bar that does not reach it", key_text=f"{cls} not_filled")
    base = ctx.func(f"{ORD}.Order.not_filled")
    ctx.check(not any(isinstance(x, ast.Call) for x in ast.walk(base.node)), "C05.2", "by default an unfilled bar changes nothing", base,
              base.node, "pass", "Order.not_filled now has an effect", key_text="base not_filled")
    t = c04.evaluate_obligations(ctx)
    ctx.exhaustive = True
    c04.report(ctx, t, rules_for={"C05.2", "C05.3"})
    # every bar of the pair reaches every open order: the chain Exchange._on_bar_event -> OrderManager.on_bar_event -> _process_order is unconditional
    xb = ctx.func(f"{EX}._on_bar_event")
    gx = ctx.cfg(xb)
    om_calls = [c for c in A.func_calls(xb) if (A.call_name(c) or "") == "self._order_mgr.on_bar_event"]
    ctx.floor("C05.2", "order_mgr.on_bar_event in Exchange._on_bar_event", len(om_calls), 1)
    omn = [n for c in om_calls for n in gx.nodes_for(c)]
    pth = gx.path_avoiding(gx.entry, lambda n: n is gx.exit, lambda n: n in omn, C.NO_EXC)
    ctx.check(pth is None, "C05.2", "every bar is matched against the open orders (no bar is skipped)", xb, om_calls[0],
              "order_mgr.on_bar_event is on every path of the bar handler", "some bars are not matched against open orders: a market/stop order "
              "accepted before such a bar is not closed by the first bar of its pair", detail={"path": C.fmt_path(pth) if pth else []})
    obf = ctx.func(f"{OM}.on_bar_event")
    lps = [n for n in C.walk_shallow(obf.node) if isinstance(n, ast.For)]
    okb = bool(lps) and len(lps[0].body) == 1 and isinstance(lps[0].body[0], ast.Expr) and isinstance(lps[0].body[0].value, ast.Call) \
        and (A.call_name(lps[0].body[0].value) or "") == "self._process_order" and not any(isinstance(a, ast.If) for a in A.ancestors(lps[0]))
    ctx.check(okb, "C05.2", "every open order of the pair is processed for the bar, unconditionally", obf, lps[0] if lps else obf.node,
              "loop body is exactly _process_order(order, ...)", "some open orders of the pair are skipped for a bar")
    if lps:
        gob = ctx.cfg(obf)
        ln_ = gob.nodes_for(lps[0])[0]
        pth_ = gob.always_followed_by(gob.entry, lambda n: n is ln_, labels=C.NO_EXC)
        ctx.check(pth_ is None, "C05.2", "every bar of a pair reaches the matching loop", obf, lps[0], "the loop is on every normal path of on_bar_event",
                  "on_bar_event can return before matching (e.g. for some kinds of bar): open orders are not processed on that bar, so an order "
                  "is not filled by the first bar that allows it / a market order is not filled by the next bar", detail={"path": C.fmt_path(pth_) if pth_ else []},
                  key_text="matching loop reached")
    # the not-filled callback fires whenever a bar produced no (complete) fill record
    po = ctx.func(f"{OM}._process_order")
    g = ctx.cfg(po)
    tests = [n for n in g.nodes if n.kind == "test" and "not in balance_updates" in ast.unparse(n.ast)]
    okn = bool(tests) and any(isinstance(x, ast.Call) and (A.call_name(x) or "").split(".")[-1] in ("not_filled", "order_not_filled") for s in tests[0].ast.parent.body for x in ast.walk(s))  # type: ignore
    ctx.check(okn, "C05.2", "a bar that yields no base/quote pair triggers the not-filled callback", po, tests[0].ast if tests else po.node,
              "order_not_filled() when base or quote is missing", "an empty fill no longer triggers not_filled")


def rule_amounts(ctx: Ctx) -> None:
    ap = ctx.func(f"{ORD}.Order.amount_pending")
    ctx.check(ast.unparse(ap.node.body[-1]) == "return self._amount - self.amount_filled", "C05.3", "pending = amount - filled (by definition)",
              ap, ap.node, "ok", "amount_pending is no longer amount - filled", key_text="pending def")
    afl = ctx.func(f"{ORD}.Order.amount_filled")
    ctx.check("abs(self._balance_updates.get(self.pair.base_symbol, Decimal(0)))" in ast.unparse(afl.node), "C05.3",
              "filled = |accumulated base amount|", afl, afl.node, "ok", "amount_filled is no longer the accumulated base amount",
              key_text="filled def")
    oi = ctx.func(f"{ORD}.Order.get_order_info")
    ctor = [c for c in A.func_calls(oi) if (A.call_name(c) or "") == "OrderInfo"]
    ctx.require(ctor, "C05.3: get_order_info no longer builds OrderInfo")
    kw = {k.arg: ast.unparse(k.value) for k in ctor[0].keywords}
    want = {"amount": "self.amount", "amount_filled": "self.amount_filled", "amount_remaining": "self.amount_pending",
            "is_open": "self._state == OrderState.OPEN", "quote_amount_filled": "self.quote_amount_filled", "operation": "self.operation",
            "id": "self.id"}
    for k, v in want.items():
        ctx.check(kw.get(k) == v, "C05.3", f"OrderInfo.{k} reports {v}", oi, ctor[0], "ok", f"OrderInfo.{k} is fed from {kw.get(k)}",
                  key_text=f"orderinfo {k}")
    c04.rule_round(ctx, rule="C05.3")


def _mutates_order(n) -> bool:
    for e in C.exprs_of(n):
        for x in C.walk_shallow(e):
            if isinstance(x, ast.Call):
                nm = A.call_name(x) or ""
                if nm in ("order.cancel", "order.add_fill", "order.not_filled", "order.add_loan", "self._order_closed", "order_not_filled"):
                    return True
    return False


def _is_push(n) -> bool:
    return any(isinstance(x, ast.Call) and (A.call_name(x) or "") == "self._push_order_update" for e in C.exprs_of(n) for x in C.walk_shallow(e))


def rule_events(ctx: Ctx) -> None:
    specs = [
        (f"{OM}.add_order", "self._orders.add", "acceptance"),
        (f"{OM}.cancel_order", "order.cancel", "cancellation"),
        (f"{OM}._process_order", "order.add_fill", "fill"),
        (f"{OM}._process_order", "order.not_filled", "fill-or-kill closure"),
    ]
    for q, trigger, what in specs:
        fn = ctx.func(q)
        g = ctx.cfg(fn)
        trig = [c for c in A.func_calls(fn) if (A.call_name(c) or "") == trigger]
        ctx.floor("C05.4", f"{trigger} in {fn.name}", len(trig), 1)
        for c in trig:
            tn = g.nodes_for(c)[0]
            if what == "fill-or-kill closure":
                def still_open(n):
                    return n.kind == "test" and ast.unparse(n.ast) == "not order.is_open"
                p = g.path_avoiding(tn, lambda n: n is g.exit, lambda n: _is_push(n) or still_open(n), C.NO_EXC)
            else:
                p = g.always_followed_by(tn, _is_push, labels=C.NO_EXC)
            ctx.check(p is None, "C05.4", f"{what} is followed by an order event", fn, c, "push post-dominates", f"{what} can happen without "
                      "subscribers being told", detail={"path": C.fmt_path(p) if p else []})
            pushes = [n for n in g.reach([tn], labels=C.NO_EXC) if _is_push(n)]
            for pn in pushes:
                later = [n for n in g.reach([pn], labels=C.NO_EXC) if _mutates_order(n) and n is not pn]
                # loops: a later iteration is a different order / bar
                later = [n for n in later if not any(isinstance(a, (ast.For, ast.While)) for a in A.ancestors(n.ast) if n.ast is not None)]
                ctx.check(not later, "C05.4", f"the event pushed after {what} reflects the final state of that step", fn, pn.ast,
                          "no order mutation after the push", f"'{later[0].text()[:60]}' changes the order after its event was pushed: the "
                          "last event does not equal the final order state" if later else "")
            # exactly one push on each path
            for pn in pushes:
                again = [n for n in g.reach([pn], labels=C.NO_EXC) if _is_push(n) and n is not pn]
                ctx.check(not again, "C05.4", f"{what} produces one event, not two", fn, pn.ast, "single push per path",
                          "two pushes on one path")
    po = ctx.func(f"{OM}._process_order")
    for c in [c for c in A.func_calls(po, shallow=False) if (A.call_name(c) or "") == "self._push_order_update"]:
        w = A.kw(c, "when")
        ctx.check(w is not None and A.dotted(w) == "bar_event.when", "C05.4", "fill-time events carry the bar's time", po, c, "when=bar_event.when",
                  "event time is not the bar's time")
    pu = ctx.func(f"{OM}._push_order_update")
    src = ast.unparse(pu.node)
    ctx.check("OrderEvent(when, order.get_order_info())" in src, "C05.4", "an order event is a snapshot of the order at push time", pu, pu.node,
              "OrderEvent(when, order.get_order_info())", "order event no longer snapshots the order", key_text="event snapshot")
    ctx.check("self._ctx.dispatcher.now()" in src and "when is None" in src, "C05.4", "events outside bar processing carry the dispatcher's time",
              pu, pu.node, "when defaults to now()", "default event time changed", key_text="event default time")


def rule_listings(ctx: Ctx) -> None:
    go = ctx.func(f"{CONT}.get_open")
    g = ctx.cfg(go)
    loops = [n for n in C.walk_shallow(go.node) if isinstance(n, ast.For) and A.dotted(n.iter) == "self._open_items"]
    ctx.require(loops, "C05.5: get_open no longer iterates self._open_items")
    lp = loops[0]
    item = lp.target.id if isinstance(lp.target, ast.Name) else None
    from .. import norm as N
    # the rebuilt list: the local that replaces self._open_items after the loop, and the appends that fill it
    swap = [s for s in A.stores(go) if A.dotted(s.target) == "self._open_items" and isinstance(s.node, (ast.Assign, ast.AnnAssign))]
    rebuilt = A.dotted(swap[0].node.value) if swap else None
    ys = [n for n in ast.walk(lp) if isinstance(n, ast.Yield)]
    apps = [c for c in A.calls(lp, shallow=False) if rebuilt and (A.call_name(c) or "") == f"{rebuilt}.append"]
    ctx.require(ys and apps and swap, "C05.5: get_open lost its yield / re-index append / swap")
    head = g.nodes_for(lp)[0]
    yn, an = g.nodes_for(A.stmt_of(ys[0]))[0], g.nodes_for(A.stmt_of(apps[0]))[0]

    def mentions_item(t: str) -> bool:
        return any(isinstance(x, ast.Name) and x.id == item for x in ast.walk(ast.parse(t, mode="eval")))

    def classify(conds):
        """-> (is_open required?, pass-level flag terms, per-item terms other than is_open)"""
        open_ok = any(t == f"{item}.is_open" and v for t, v, _ in conds)
        flags = sorted({(N.canon(N.expand(go, ast.parse(t, mode="eval").body)), v) for t, v, _ in conds if not mentions_item(t)})
        extra = sorted({(t, v) for t, v, _ in conds if mentions_item(t) and t != f"{item}.is_open"})
        return open_ok, flags, extra
    y_open, _, y_extra = classify(g.path_conditions(head, yn))
    ctx.check(y_open, "C05.5", "only items that are open are yielded", go, A.stmt_of(ys[0]), "item.is_open holds on every path to the yield",
              "closed items can be yielded as open")
    a_conds = g.path_conditions(head, an)
    a_open, a_flags, a_extra = classify(a_conds)
    ctx.check(a_open and not a_extra, "C05.5", "every item that is still open is kept by the re-index", go, A.stmt_of(apps[0]),
              f"kept under item.is_open and the pass-level flag(s) {a_flags}", f"whether an open item is kept by the re-index also depends on {a_extra}: "
              "open orders that fail that extra condition during a re-index pass silently drop out of the open list (never processed or listed again)")
    # the is_open test that guards the append is evaluated after the consumer handled the item
    post = [c_ for c_ in g.path_conditions(yn, an) if c_[0] == f"{item}.is_open" and c_[1]]
    ctx.check(bool(post) and an in g.reach([yn], labels=C.NO_EXC), "C05.5", "an item is kept iff it is still open after the consumer handled it", go,
              A.stmt_of(apps[0]), "append after the yield, re-testing is_open", "the re-index keeps items without re-testing is_open after the yield")
    # the swap happens after the whole pass, under exactly the flag(s) that enabled the appends
    sn = g.nodes_for(swap[0].stmt)[0]
    _, s_flags, s_extra = classify(g.path_conditions(g.entry, sn))
    oks = not A.is_within(swap[0].stmt, lp) and A.seq(swap[0].stmt) > A.seq(lp) and s_flags == a_flags and bool(s_flags) and not s_extra
    ctx.check(oks, "C05.5", "the rebuilt list replaces the old one only after the whole pass, and only when it was being rebuilt", go, swap[0].stmt,
              f"swap after the loop under {s_flags}", f"the open list is swapped inside the loop, unconditionally, or under {s_flags} while items were "
              f"collected under {a_flags}")
    add = ctx.func(f"{CONT}.add")
    src = ast.unparse(add.node)
    ctx.check("self._items[item.id] = item" in src and "if item.is_open:" in src and "self._open_items.append(item)" in src, "C05.5",
              "a new open item enters both the index and the open list", add, add.node, "ok", "add() no longer registers open items in the open list",
              key_text="container add")
    # consumers of get_open drain it synchronously
    ci = A.call_index(ctx)
    sites = ci.callers_of(f"{CONT}.get_open")
    ctx.floor("C05.5", "call sites of get_open", len(sites), 2)
    for fn, m, c in sites:
        par = c.parent  # type: ignore[attr-defined]
        if isinstance(par, ast.Return):
            # forwarded: check the consumers of the forwarding function
            for fn2, m2, c2 in ci.callers_of(fn.qualname):
                _consumer_ok(ctx, fn2, c2)
        else:
            _consumer_ok(ctx, fn, c)
    # filters
    for q, attrs in ((f"{EX}.get_orders", ("pair", "is_open")), ("basana.backtesting.loan_mgr.LoanManager.get_loans", ("borrowed_symbol", "is_open")),
                     (f"{EX}.get_open_orders", ("pair",))):
        fn = ctx.func(q)
        src = ast.unparse(fn.node)
        for a in attrs:
            ok = any(f".{a} == {a}" in src.replace("order.", "x.").replace("loan.", "x.") for _ in (0,))
            ctx.check(ok, "C05.5", f"{q.split('.', 2)[-1]} filters {a} by equality with the parameter of the same name", fn, fn.node, "ok",
                      f"filter on {a} is not 'item.{a} == {a}'", key_text=f"filter {q} {a}")
    goo = ctx.func(f"{EX}.get_open_orders")
    ctx.check("self._order_mgr.get_open_orders()" in ast.unparse(goo.node), "C05.5", "open-order listing reads the open list", goo, goo.node, "ok",
              "get_open_orders no longer reads the open list", key_text="open listing source")


def _consumer_ok(ctx: Ctx, fn, c: ast.Call) -> None:
    loop = None
    for a in A.ancestors(c):
        if isinstance(a, (ast.For, ast.AsyncFor)) and A.is_within(c, a.iter):
            loop = a
            break
        if isinstance(a, ast.comprehension) or isinstance(a, (ast.ListComp, ast.SetComp, ast.GeneratorExp, ast.DictComp)):
            loop = a
            break
        if isinstance(a, ast.stmt):
            break
    if loop is None:
        ctx.bad("C05.5", "open-list generator is drained where it is obtained", fn, c, "the generator returned by get_open() is not consumed by "
                "a loop/comprehension here: an abandoned pass skips the re-index swap")
        return
    if isinstance(loop, (ast.For, ast.AsyncFor)):
        leaves = [x for s in loop.body for x in C.walk_shallow(s) if isinstance(x, (ast.Break, ast.Return, ast.Await))]
        ctx.check(not leaves and not isinstance(loop, ast.AsyncFor), "C05.5", "open-list pass runs to completion without suspending", fn, loop,
                  "no break/return/await in the loop", "the pass over the open list can be abandoned or suspended midway (lazy re-index "
                  "is only sound for complete synchronous passes)")
    else:
        aw = [x for x in ast.walk(loop) if isinstance(x, ast.Await)]
        ctx.check(not aw, "C05.5", "open-list comprehension does not suspend", fn, A.stmt_of(c), "no await", "await inside the comprehension")


def rule_closure_cannot_fail(ctx: Ctx) -> None:
    """'One event per closure': between the state change and the event nothing may fail.  That is the COMMIT-LAST analysis of C07.1
    (raise sets of everything reachable from cancel_order / _process_order / _order_closed), reported here as C05.4: an exception that
    escapes after order.cancel() / add_fill() leaves a closed order without its closure event."""
    from . import c07
    ctx.rule_map = {"C07.1": "C05.4", "C07.2": "C05.4"}
    try:
        c07.rule_commit_last(ctx)
    finally:
        ctx.rule_map = {}


def run(ctx: Ctx) -> None:
    rule_closure_cannot_fail(ctx)
    rule_typestate(ctx)
    rule_fill_or_kill(ctx)
    rule_amounts(ctx)
    rule_events(ctx)
    rule_listings(ctx)
    ctx.assume("bar sources deliver at most one bar per pair and time; 'first bar of its pair after acceptance' is the next on_bar_event")
