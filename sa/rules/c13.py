"""C13 -- scheduled jobs run exactly once, on time and in order (backtesting dispatcher).

Decides the structural clauses: heap discipline of every heapq-managed list (role anchored), the final drain
bound being a maximum over the queue, the due-test that dominates every pop, one-at-a-time execution, the clock
update before a job starts, fault isolation of jobs, scheduled-before-events with the same bound.
"""
from __future__ import annotations

import ast
from typing import Dict, List, Optional, Set, Tuple

from .. import astutil as A
from .. import cfg as C
from ..core import Ctx

PROP = "C13"
EXPLANATION = (
    "Static analysis (stdlib ast + statement CFG) of basana/core/dispatcher.py: C13.1 role-anchored heap discipline "
    "(every list handed to heapq may otherwise only be tested for emptiness, read at index 0, iterated or passed "
    "whole to max/min/sorted/len), C13.2 the bound of the final drain is a maximum over the queue and the drain "
    "precedes stop(), C13.3 due-test dominates every pop, push is followed by pool.wait() before the next "
    "iteration, the clock is advanced before the job starts, the job runs inside 'except Exception' without "
    "re-raise, scheduled jobs are dispatched before events with the same bound, ScheduledJob orders by 'when' "
    "only. Decides these structural necessary conditions on every path; does not execute the dispatcher."
    " C13.3 also: the scheduler pass returns only across the 'next job is not due' edge."
    " C13.4 also: schedule() and SchedulerQueue.push queue a job under exactly the time given."
    " C13.3 also: the job started is the job popped from the queue, and it is popped before it is pushed."
)
TRUSTED = ["CPython ast parser", "sa.cfg statement CFG (feasibility-insensitive)", "heapq semantics: h[0] is the minimum"]

DISP = "basana.core.dispatcher"
HEAP_FUNCS = {"heappush", "heappop", "heapify", "heappushpop", "heapreplace", "nlargest", "nsmallest", "merge"}
WHOLE_CONSUMERS = {"max", "min", "sorted", "len", "list", "tuple", "any", "all", "bool", "iter", "sum", "set"}
LIST_MUTATORS = {"append", "pop", "insert", "remove", "sort", "reverse", "extend", "clear"}


def _heap_attrs(ctx: Ctx) -> Dict[Tuple[str, str], List[Tuple]]:
    """(class qualname, attribute) of every ``self.X`` passed as first argument to a heapq function."""
    out: Dict[Tuple[str, str], List[Tuple]] = {}
    for fn in ctx.repo.all_funcs():
        for c in A.func_calls(fn):
            name = A.call_name(c) or ""
            parts = name.split(".")
            if parts[-1] in HEAP_FUNCS and (len(parts) == 1 or parts[-2] == "heapq") and c.args:
                a0 = c.args[0]
                if isinstance(a0, ast.Attribute) and isinstance(a0.value, ast.Name) and a0.value.id == "self" \
                        and fn.cls is not None:
                    out.setdefault((fn.cls.qualname, a0.attr), []).append((fn, c))
    return out


def rule_heap_discipline(ctx: Ctx) -> Dict[Tuple[str, str], List[Tuple]]:
    heaps = _heap_attrs(ctx)
    ctx.floor("C13.1", "heapq-managed lists", len(heaps), 1)
    uses = 0
    for (cls, attr), sites in sorted(heaps.items()):
        for name, fn in sorted(ctx.repo.methods_of(cls).items()):
            for n in A.body_nodes(fn, shallow=False):
                if not (isinstance(n, ast.Attribute) and n.attr == attr and isinstance(n.value, ast.Name)
                        and n.value.id == "self"):
                    continue
                uses += 1
                par = n.parent  # type: ignore[attr-defined]
                inst = f"{cls.rsplit('.', 1)[-1]}.{attr} in {name}"
                stmt = A.stmt_of(n)
                # 1. first argument of a heapq function, or whole-list consumer
                if isinstance(par, ast.Call) and n in par.args:
                    cn = (A.call_name(par) or "").split(".")
                    if cn[-1] in HEAP_FUNCS or cn[-1] in WHOLE_CONSUMERS:
                        ctx.ok("C13.1", inst, fn, stmt, f"passed whole to {'.'.join(cn)}")
                        continue
                    ctx.bad("C13.1", inst, fn, stmt, f"heap list escapes to {'.'.join(cn)}(): ordering discipline "
                            "cannot be established")
                    continue
                # 2. truth test
                if isinstance(par, (ast.If, ast.While, ast.Assert, ast.IfExp)) and par.test is n \
                        or isinstance(par, ast.BoolOp) or (isinstance(par, ast.UnaryOp) and isinstance(par.op, ast.Not)):
                    ctx.ok("C13.1", inst, fn, stmt, "emptiness test")
                    continue
                # 3. subscript
                if isinstance(par, ast.Subscript) and par.value is n:
                    idx = par.slice
                    if isinstance(par.ctx, ast.Load) and isinstance(idx, ast.Constant) and idx.value == 0:
                        ctx.ok("C13.1", inst, fn, stmt, "reads h[0] (the heap minimum)")
                    elif isinstance(par.ctx, ast.Load) and not isinstance(idx, (ast.Constant, ast.Slice, ast.UnaryOp)):
                        ctx.ok("C13.1", inst, fn, stmt, "reads at a computed index (no ordering assumption visible)")
                    else:
                        ctx.bad("C13.1", inst, fn, stmt,
                                f"positional access {ast.unparse(par)} on a heapq-managed list: only index 0 has a "
                                "defined rank (a heap's last slot is some leaf, not its maximum)")
                    continue
                # 4. fresh list assignment
                if isinstance(par, (ast.Assign, ast.AnnAssign)) and (n in getattr(par, "targets", []) or
                                                                    getattr(par, "target", None) is n):
                    v = par.value
                    fresh = isinstance(v, ast.List) and not v.elts or \
                        (isinstance(v, ast.Call) and A.call_name(v) == "list" and not v.args)
                    ctx.check(fresh, "C13.1", inst, fn, stmt, "initialised empty",
                              f"heap list reassigned to {ast.unparse(v) if v else None} (not a fresh empty list)")
                    continue
                # 5. iteration (read-only)
                if isinstance(par, (ast.For, ast.comprehension)) and par.iter is n:
                    ctx.ok("C13.1", inst, fn, stmt, "iterated (read only)")
                    continue
                # 6. method call on the list
                if isinstance(par, ast.Attribute) and isinstance(par.parent, ast.Call) and par.parent.func is par:  # type: ignore
                    if par.attr in LIST_MUTATORS:
                        ctx.bad("C13.1", inst, fn, stmt, f"list.{par.attr}() on a heapq-managed list breaks the heap "
                                "invariant or assumes a position")
                    else:
                        ctx.ok("C13.1", inst, fn, stmt, f"non-mutating list.{par.attr}()")
                    continue
                if isinstance(par, ast.Compare):
                    ctx.ok("C13.1", inst, fn, stmt, "compared as a whole")
                    continue
                if isinstance(par, ast.Return):
                    ctx.bad("C13.1", inst, fn, stmt, "heap list returned to callers (escapes)")
                    continue
                ctx.bad("C13.1", inst, fn, stmt, f"unrecognised use of heap list in {type(par).__name__}")
    ctx.floor("C13.1", "uses of heap lists", uses, 5)
    return heaps


def _returns_max_over(fn, attr: str) -> Tuple[bool, str]:
    """Every non-None value the function can return is ``max(...)``/``nlargest`` over ``self.<attr>``."""
    node = fn.node
    rets = [n for n in C.walk_shallow(node) if isinstance(n, ast.Return) and n.value is not None]
    defs: List[ast.AST] = []
    for r in rets:
        v = r.value
        if isinstance(v, ast.Name):
            for n in C.walk_shallow(node):
                if isinstance(n, ast.Assign) and any(isinstance(t, ast.Name) and t.id == v.id for t in n.targets):
                    defs.append(n.value)
                elif isinstance(n, ast.NamedExpr) and n.target.id == v.id:
                    defs.append(n.value)
                elif isinstance(n, ast.AnnAssign) and isinstance(n.target, ast.Name) and n.target.id == v.id \
                        and n.value is not None:
                    defs.append(n.value)
        else:
            defs.append(v)
    nn = [d for d in defs if not (isinstance(d, ast.Constant) and d.value is None)]
    if not nn:
        return False, "no non-None return value"
    for d in nn:
        good = False
        for c in ast.walk(d):
            if isinstance(c, ast.Call):
                nm = (A.call_name(c) or "").split(".")[-1]
                if nm in ("max", "nlargest") and any(
                        isinstance(x, ast.Attribute) and x.attr == attr for a in c.args for x in ast.walk(a)):
                    good = True
        if not good:
            return False, f"returns {ast.unparse(d)}, which is not a maximum over self.{attr}"
    return True, "returns max over the queue"


def rule_final_drain(ctx: Ctx, heaps) -> None:
    loop = ctx.func(f"{DISP}.BacktestingDispatcher._dispatch_loop")
    g = ctx.cfg(loop)
    stops = [c for c in A.func_calls(loop) if A.call_name(c) == "self.stop"]
    ctx.require(stops, "C13.2: no self.stop() in BacktestingDispatcher._dispatch_loop")
    drains = [c for c in A.func_calls(loop) if A.call_name(c) == "self._dispatch_scheduled"]
    ctx.require(drains, "C13.2: no self._dispatch_scheduled() in _dispatch_loop")
    qcls = f"{DISP}.SchedulerQueue"
    heap_attr = next((a for (c, a) in heaps if c == qcls), None)
    ctx.require(heap_attr, "C13.2: SchedulerQueue has no heapq-managed list")
    for st in stops:
        # the drain call that precedes this stop(): must be passed on every path from entry of the enclosing
        # branch unless the path takes the false edge of a test on the very bound (empty queue)
        stop_nodes = g.nodes_for(st)
        for sn in stop_nodes:
            def is_drain(n):
                return any(isinstance(x, ast.Call) and A.call_name(x) == "self._dispatch_scheduled"
                           and not _arg_is(x, "next_dt") for e in C.exprs_of(n) for x in C.walk_shallow(e))
            # find the drain candidates that can reach this stop without passing the loop head
            cands = [c for c in drains if not _arg_is(c, "next_dt")]
            if not cands:
                ctx.bad("C13.2", "final drain before stop()", loop, st,
                        "no final _dispatch_scheduled(<bound>) before stop(): jobs scheduled after the last event "
                        "never run")
                continue
            for dc in cands:
                arg = dc.args[0] if dc.args else None
                ctx.require(arg is not None, "C13.2: _dispatch_scheduled() without argument")
                # where does the bound come from?
                src = _def_of(loop, arg)
                srccall = next((x for x in ast.walk(src) if isinstance(x, ast.Call)), None) if src is not None else None
                inst = f"bound of final drain = {ast.unparse(src) if src is not None else ast.unparse(arg)}"
                if srccall is None:
                    ctx.bad("C13.2", inst, loop, dc, "bound of the final drain is not computed from the scheduler queue")
                    continue
                mname = (A.call_name(srccall) or "").split(".")[-1]
                if mname in ("max", "nlargest"):
                    ctx.ok("C13.2", inst, loop, dc, "bound is a maximum computed in place")
                else:
                    qfn = ctx.repo.funcs.get(f"{qcls}.{mname}")
                    if qfn is None:
                        ctx.bad("C13.2", inst, loop, dc, f"bound comes from {mname}(), not a SchedulerQueue method")
                        continue
                    ctx.analysed_funcs.add(qfn.qualname)
                    good, why = _returns_max_over(qfn, heap_attr)
                    ctx.check(good, "C13.2", f"SchedulerQueue.{mname} is the maximum scheduled time", qfn,
                              qfn.node, why, f"{why}: the final drain stops at a bound that is not >= every queued "
                              "time, later jobs are silently dropped", key_text=f"{mname} returns max")
                # the drain dominates stop() unless the queue is empty
                dn = g.nodes_for(dc)
                guard_false_ok = _empty_guard_tests(loop, arg)
                path = g.path_avoiding(g.entry, lambda n: n is sn,
                                       lambda n: n in dn or n in guard_false_ok and False, None)
                # paths that avoid the drain must go through the false edge of the emptiness guard
                bad_path = _path_avoiding_edge(g, sn, set(dn), guard_false_ok)
                ctx.check(bad_path is None, "C13.2", "drain precedes stop() unless nothing is queued", loop, st,
                          "every path to stop() passes the drain or the empty-queue edge",
                          "a path reaches stop() without draining the scheduler queue",
                          detail={"path": C.fmt_path(bad_path) if bad_path else []})


def _arg_is(c: ast.Call, name: str) -> bool:
    return bool(c.args) and isinstance(c.args[0], ast.Name) and c.args[0].id == name


def _def_of(fn, e: ast.AST) -> Optional[ast.AST]:
    """Defining expression of a Name used in ``fn`` (single definition expected), or the expression itself."""
    if not isinstance(e, ast.Name):
        return e
    defs = []
    for n in C.walk_shallow(fn.node):
        if isinstance(n, ast.NamedExpr) and n.target.id == e.id:
            defs.append(n.value)
        elif isinstance(n, ast.Assign) and any(isinstance(t, ast.Name) and t.id == e.id for t in n.targets):
            defs.append(n.value)
    return defs[0] if len(defs) == 1 else None


def _empty_guard_tests(fn, arg: ast.AST) -> Set[int]:
    """ids of test expressions that test the drain bound itself (walrus or name) for falsiness."""
    out: Set[int] = set()
    if not isinstance(arg, ast.Name):
        return out
    for n in C.walk_shallow(fn.node):
        if isinstance(n, ast.If):
            t = n.test
            names = {x.target.id for x in ast.walk(t) if isinstance(x, ast.NamedExpr)} | \
                    {x.id for x in ast.walk(t) if isinstance(x, ast.Name)}
            if arg.id in names:
                out.add(id(t))
    return out


def _path_avoiding_edge(g, target, avoid_nodes: Set, guard_tests: Set[int]):
    """Path entry -> target that avoids ``avoid_nodes`` and never leaves a guard test by its *false* edge."""
    from collections import deque
    prev = {g.entry: None}
    dq = deque([g.entry])
    while dq:
        n = dq.popleft()
        if n is target:
            p = [n]
            while prev[p[-1]] is not None:
                p.append(prev[p[-1]])
            return list(reversed(p))
        for (m, lab) in n.succ:
            if m in prev or m in avoid_nodes:
                continue
            if n.kind == "test" and id(n.ast) in guard_tests and lab == "false":
                continue
            prev[m] = n
            dq.append(m)
    return None


def rule_dispatch_scheduled(ctx: Ctx) -> None:
    fn = ctx.func(f"{DISP}.BacktestingDispatcher._dispatch_scheduled")
    g = ctx.cfg(fn)
    params = fn.params
    ctx.require(len(params) >= 2, "C13.3: _dispatch_scheduled(self, dt) signature changed")
    bound = params[1]
    pops = [c for c in A.func_calls(fn) if (A.call_name(c) or "").endswith("_scheduler_queue.pop")]
    ctx.floor("C13.3", "scheduler pops in _dispatch_scheduled", len(pops), 1)
    pushes = [c for c in A.func_calls(fn) if (A.call_name(c) or "").endswith("_handlers_task_pool.push")]
    ctx.floor("C13.3", "pool pushes in _dispatch_scheduled", len(pushes), 1)

    def is_due_test(n) -> bool:
        if n.kind != "test":
            return False
        for x in ast.walk(n.ast):
            if isinstance(x, ast.Compare) and len(x.ops) == 1:
                l, r, op = x.left, x.comparators[0], x.ops[0]
                if isinstance(op, ast.LtE) and isinstance(r, ast.Name) and r.id == bound and _mentions_next(l):
                    return True
                if isinstance(op, ast.GtE) and isinstance(l, ast.Name) and l.id == bound and _mentions_next(r):
                    return True
        return False

    def _mentions_next(e) -> bool:
        return any(isinstance(x, ast.Name) for x in ast.walk(e))

    # the pass ends only because the queue's head is not due: every normal path from entry to exit crosses the false edge of a due test
    # (an early return taken for any other reason leaves due jobs in the queue; after the last event nothing drains them)
    seen_, stack_ = {g.entry}, [g.entry]
    while stack_:
        n_ = stack_.pop()
        for (m_, lab_) in n_.succ:
            if lab_ == "exc" or m_ in seen_ or (is_due_test(n_) and lab_ == "false"):
                continue
            seen_.add(m_)
            stack_.append(m_)
    ctx.check(g.exit not in seen_, "C13.3", "the scheduler pass returns only when the next job is not due", fn, fn.node,
              "every exit path crosses 'next job is later than dt'", "_dispatch_scheduled can return without looking at the queue: a job scheduled "
              "(by a handler) for a time at or before the clock stays queued, and after the last event it never runs", key_text="returns only when head not due")
    for p in pops:
        for pn in g.nodes_for(p):
            # every path to the pop goes through the *true* edge of a due test
            path = _path_without_true_edge(g, pn, is_due_test)
            ctx.check(path is None, "C13.3", "pop is dominated by the due test (next <= dt)", fn, p,
                      "pop only under next_scheduled <= dt", "a job can be popped without having been tested due",
                      detail={"path": C.fmt_path(path) if path else []})
    for pu in pushes:
        inner = [c for c in A.calls(pu) if (A.call_name(c) or "").endswith("_execute_scheduled")]
        ctx.check(bool(inner), "C13.3", "job is started through _execute_scheduled", fn, pu,
                  "pushes self._execute_scheduled(...)", "pool push does not go through _execute_scheduled")
        ctx.check(isinstance(pu.parent, ast.Await), "C13.3", "push is awaited", fn, pu, "awaited",  # type: ignore
                  "pool.push(...) result is not awaited: the job never starts")
        for pn in g.nodes_for(pu):
            def is_wait(n):
                return any(isinstance(x, ast.Await) and isinstance(x.value, ast.Call)
                           and (A.call_name(x.value) or "").endswith("_handlers_task_pool.wait")
                           and not x.value.args and not x.value.keywords
                           for e in C.exprs_of(n) for x in C.walk_shallow(e))
            # from the push, before reaching another pop/the loop test/exit, pool.wait() must be passed
            def is_next_round(n):
                return n is g.exit or (n.kind == "test") or any(
                    isinstance(x, ast.Call) and (A.call_name(x) or "").endswith("_scheduler_queue.pop")
                    for e in C.exprs_of(n) for x in C.walk_shallow(e))
            path = g.path_avoiding(pn, is_next_round, is_wait, C.NO_EXC)
            ctx.check(path is None, "C13.3", "one job at a time: pool.wait() between push and the next round", fn, pu,
                      "await pool.wait() (no timeout) follows the push on every path",
                      "a second job (or the next event) can start before the previous job finished",
                      detail={"path": C.fmt_path(path) if path else []})
            # the queue head is re-read between two consecutive job starts (jobs may schedule jobs)
            def has_call(n, suffix):
                return any(isinstance(x, ast.Call) and (A.call_name(x) or "").endswith(suffix)
                           for e in C.exprs_of(n) for x in C.walk_shallow(e))
            all_push = {n for c2 in pushes for n in g.nodes_for(c2)}
            p_nopeek = g.path_avoiding(pn, lambda n: n in all_push,
                                       lambda n: has_call(n, "_scheduler_queue.peek_next_event_dt"), C.NO_EXC)
            p_nopop = g.path_avoiding(pn, lambda n: n in all_push, lambda n: has_call(n, "_scheduler_queue.pop"), C.NO_EXC)
            badp = p_nopeek or p_nopop
            ctx.check(badp is None, "C13.3", "queue is re-examined after every job (jobs scheduled by jobs run in order)", fn, pu,
                      "peek + pop between consecutive job starts",
                      "the next job is started from a snapshot taken before the previous job ran: a job scheduled by a job "
                      "for a time <= the current bound runs late (after later jobs / events) or never",
                      detail={"path": C.fmt_path(badp) if badp else []})
            # clock: a store to self._last_dt guarded by '> self._last_dt' lies between pop and push
            st = [s for s in A.stores(fn) if isinstance(s.target, ast.Attribute) and s.target.attr == "_last_dt"]
            okclock = False
            for s in st:
                par = s.stmt.parent  # type: ignore[attr-defined]
                if isinstance(par, ast.If) and s.stmt in par.body and any(
                        isinstance(x, ast.Compare) and isinstance(x.ops[0], (ast.Gt, ast.GtE))
                        and any(isinstance(y, ast.Attribute) and y.attr == "_last_dt" for y in ast.walk(x))
                        for x in ast.walk(par.test)):
                    sn = g.nodes_for(s.stmt)
                    tn = g.nodes_for(par.test)
                    # every path pop -> push passes the guard test
                    for popc in pops:
                        for popn in g.nodes_for(popc):
                            if g.path_avoiding(popn, lambda n: n is pn, lambda n: n in tn, C.NO_EXC) is None:
                                okclock = True
            ctx.check(okclock, "C13.3", "clock advanced to the job's time before it starts (never backwards)", fn, pu,
                      "guarded store to _last_dt between pop and push",
                      "no monotone clock update between popping a job and starting it")
    # fault isolation of jobs: wherever the user's job callable is invoked, and wherever its awaitable is awaited
    sites = job_invocations(ctx)
    ctx.floor("C13.3", "invocations of the scheduled job callable", len(sites), 1)
    for f2, node, what in sites:
        ok, why = isolated(node)
        ctx.check(ok, "C13.3", f"job exception is contained ({what})", f2, node, why,
                  why + ": a job that fails takes the dispatch loop down and the remaining jobs and events never run")
    # order in the main loop
    loop = ctx.func(f"{DISP}.BacktestingDispatcher._dispatch_loop")
    gl = ctx.cfg(loop)
    evs = [c for c in A.func_calls(loop) if A.call_name(c) == "self._dispatch_events"]
    ctx.floor("C13.3", "_dispatch_events calls in _dispatch_loop", len(evs), 1)
    for ev in evs:
        arg = ev.args[0] if ev.args else None
        ctx.require(isinstance(arg, ast.Name), "C13.3: _dispatch_events argument is not a plain name")
        sched = [c for c in A.func_calls(loop) if A.call_name(c) == "self._dispatch_scheduled"
                 and c.args and isinstance(c.args[0], ast.Name) and c.args[0].id == arg.id]
        sn = [n for c in sched for n in gl.nodes_for(c)]
        for en in gl.nodes_for(ev):
            path = gl.path_avoiding(gl.entry, lambda n: n is en, lambda n: n in sn) if sn else [gl.entry, en]
            ctx.check(path is None, "C13.3", "jobs due at T are dispatched before events at T (same bound)", loop, ev,
                      f"_dispatch_scheduled({arg.id}) dominates _dispatch_events({arg.id})",
                      f"_dispatch_events({arg.id}) can run without _dispatch_scheduled({arg.id}) first",
                      detail={"path": C.fmt_path(path) if path else []})
        # both awaited
        for c in sched + [ev]:
            ctx.check(isinstance(c.parent, ast.Await), "C13.3", "dispatch step awaited", loop, c, "awaited",  # type: ignore
                      "dispatch coroutine is created but not awaited")
        # the bound is not reassigned between the two calls
        for c in sched:
            for s in A.stores(loop):
                if isinstance(s.target, ast.Name) and s.target.id == arg.id and A.seq(c) < A.seq(s.stmt) < A.seq(ev):
                    ctx.bad("C13.3", "same bound for jobs and events", loop, s.stmt,
                            f"{arg.id} reassigned between the two dispatch steps")


def job_invocations(ctx: Ctx):
    """(function, node, what) for every place in the dispatcher module where a scheduled job callable is called or the
    awaitable it returned is awaited.  Job callables are the second element popped from the scheduler queue and
    parameters annotated SchedulerJob / named 'job'."""
    out = []
    for q, fn in ctx.repo.funcs.items():
        if not q.startswith(DISP + "."):
            continue
        jobs = set()
        for a in fn.node.args.args if hasattr(fn.node, "args") else []:
            if a.arg == "job" or (a.annotation is not None and "SchedulerJob" in ast.unparse(a.annotation)):
                jobs.add(a.arg)
        for s_ in A.stores(fn):
            if isinstance(s_.node, ast.Assign) and isinstance(s_.node.value, ast.Call) \
                    and (A.call_name(s_.node.value) or "").endswith("_scheduler_queue.pop") \
                    and isinstance(s_.node.targets[0], ast.Tuple) and len(s_.node.targets[0].elts) == 2 \
                    and isinstance(s_.node.targets[0].elts[1], ast.Name):
                jobs.add(s_.node.targets[0].elts[1].id)
        if not jobs:
            continue
        for n in A.body_nodes(fn, shallow=False):
            if isinstance(n, ast.Call) and isinstance(n.func, ast.Name) and n.func.id in jobs:
                out.append((fn, n, f"call {n.func.id}() in {fn.name}"))
            elif isinstance(n, ast.Await) and isinstance(n.value, ast.Name) and n.value.id in jobs:
                out.append((fn, n, f"await {n.value.id} in {fn.name}"))
    return out


def isolated(node: ast.AST) -> Tuple[bool, str]:
    """Is ``node`` inside a ``try`` whose handlers catch ``Exception`` (or broader) and never re-raise?"""
    cur = node
    for anc in A.ancestors(node):
        if isinstance(anc, (ast.FunctionDef, ast.AsyncFunctionDef, ast.Lambda)):
            break
        if isinstance(anc, ast.Try) and any(cur is s or A.is_within(cur, s) for s in anc.body):
            for h in anc.handlers:
                names = []
                if h.type is None:
                    names = ["BaseException"]
                elif isinstance(h.type, ast.Tuple):
                    names = [A.dotted(e) or "" for e in h.type.elts]
                else:
                    names = [A.dotted(h.type) or ""]
                if any(nm.split(".")[-1] in ("Exception", "BaseException") for nm in names):
                    reraises = [r for s in h.body for r in C.walk_shallow(s) if isinstance(r, ast.Raise)]
                    if reraises:
                        return False, f"handler at line {h.lineno} re-raises: one failing job/handler aborts the dispatch"
                    # the guard itself must not be able to fail: what it does with the user-supplied callable (the thing that was called in
                    # the try body) is pass it on as a value -- reading attributes of it (__qualname__, __name__) raises for partials / objects
                    called = {c.func.id for c in ast.walk(node) if isinstance(c, ast.Call) and isinstance(c.func, ast.Name)} | \
                             ({node.func.id} if isinstance(node, ast.Call) and isinstance(node.func, ast.Name) else set())
                    risky = [x for s in h.body for x in ast.walk(s) if isinstance(x, ast.Attribute) and isinstance(x.value, ast.Name)
                             and x.value.id in called and isinstance(x.ctx, ast.Load)]
                    if risky:
                        return False, (f"the isolating handler at line {h.lineno} reads '{ast.unparse(risky[0])}' of the user-supplied callable: for a "
                                       "functools.partial or a callable object that raises AttributeError inside the guard, so the failure escapes, "
                                       "the error is not logged and stop-on-error is skipped")
                    return True, "inside try/except Exception without re-raise"
        cur = anc
    return False, "not inside a try/except Exception: an exception escapes into the dispatcher"


def _path_without_true_edge(g, target, is_test):
    """Path entry -> target that never takes the *true* edge of a node satisfying ``is_test``; None if all do."""
    from collections import deque
    prev = {g.entry: None}
    dq = deque([g.entry])
    while dq:
        n = dq.popleft()
        if n is target:
            p = [n]
            while prev[p[-1]] is not None:
                p.append(prev[p[-1]])
            return list(reversed(p))
        for (m, lab) in n.succ:
            if m in prev:
                continue
            if is_test(n) and lab == "true":
                continue
            prev[m] = n
            dq.append(m)
    return None


def rule_scheduled_job_order(ctx: Ctx) -> None:
    ci = ctx.repo.cls(f"{DISP}.ScheduledJob")
    decs = [ast.unparse(d) for d in ci.node.decorator_list]
    ordered = any("dataclass" in d and "order=True" in d.replace(" ", "") for d in decs)
    fields = [s for s in ci.node.body if isinstance(s, ast.AnnAssign) and isinstance(s.target, ast.Name)]
    ctx.require(fields, "C13.4: ScheduledJob has no fields")
    first_when = fields[0].target.id == "when"
    others_excluded = all(
        s.value is not None and "compare=False" in ast.unparse(s.value).replace(" ", "") for s in fields[1:])

    class _F:  # minimal Func-like for reporting
        qualname = ci.qualname
        module = ci.module

        @staticmethod
        def loc(node=None):
            return f"{ci.module.relpath}:{(node or ci.node).lineno}"
    ctx.analysed_funcs.add(ci.qualname)
    ctx.check(ordered and first_when and others_excluded, "C13.4", "ScheduledJob orders by 'when' only", _F, ci.node,
              "dataclass(order=True), first field 'when', other fields compare=False",
              "heap order of scheduled jobs is not the scheduled time alone", key_text="ScheduledJob ordering")
    q = f"{DISP}.SchedulerQueue"
    push = ctx.func(f"{q}.push")
    pop = ctx.func(f"{q}.pop")
    ctx.check(any((A.call_name(c) or "").endswith("heappush") for c in A.func_calls(push)), "C13.4",
              "SchedulerQueue.push uses heappush", push, push.node, "heappush", "push does not keep the heap invariant",
              key_text="push heappush")
    ctx.check(any((A.call_name(c) or "").endswith("heappop") for c in A.func_calls(pop)), "C13.4",
              "SchedulerQueue.pop uses heappop", pop, pop.node, "heappop (removes the minimum: each job leaves the queue "
              "exactly once)", "pop does not remove the heap minimum", key_text="pop heappop")
    nxt = ctx.func(f"{q}.peek_next_event_dt")
    reads0 = any(isinstance(n, ast.Subscript) and isinstance(n.slice, ast.Constant) and n.slice.value == 0
                 for n in ast.walk(nxt.node)) or any(
        (A.call_name(c) or "").split(".")[-1] in ("min", "nsmallest") for c in A.func_calls(nxt))
    ctx.check(reads0, "C13.4", "peek_next_event_dt reads the heap minimum", nxt, nxt.node, "h[0] / min",
              "peek_next_event_dt does not return the earliest scheduled time", key_text="peek_next reads min")


def rule_time_passthrough(ctx: Ctx, rule: str = "C13.4") -> None:
    """The time a job is queued under is the time the caller asked for: schedule() hands its `when` to the queue unchanged and
    SchedulerQueue.push stores it unchanged (a rounded or converted time lets a job run before, or after, its scheduled time)."""
    sch = ctx.func(f"{DISP}.EventDispatcher.schedule")
    push = ctx.func(f"{DISP}.SchedulerQueue.push")
    for fn, sink in ((sch, "_scheduler_queue.push"), (push, "ScheduledJob")):
        when = fn.params[1]
        rew = [s for s in A.stores(fn) if isinstance(s.target, ast.Name) and s.target.id == when]
        calls = [c for c in A.func_calls(fn, shallow=False) if (A.call_name(c) or "").endswith(sink)]
        passed = bool(calls) and all(any(A.dotted(a) == when for a in list(c.args[:1]) + [k.value for k in c.keywords if k.arg == "when"]) for c in calls)
        ctx.check(passed and not rew, rule, f"{fn.name}() queues the job under exactly the time it was given", fn, rew[0].stmt if rew else (calls[0] if calls else fn.node),
                  f"{sink}({when}, ...) with '{when}' never reassigned", f"the job's time is {'rewritten' if rew else 'not passed on'} before it is queued "
                  f"('{ast.unparse(rew[0].stmt)[:70] if rew else ''}'): a conversion that loses precision queues the job earlier than requested and it "
                  "runs before its scheduled time", key_text=f"time passthrough {fn.name}")


def rule_pushed_is_popped(ctx: Ctx, qualname: str, rule: str) -> None:
    """The job that is started is the job that was removed from the queue, and it is removed in the same synchronous step in which the
    head was found due: `when, job = queue.pop()` feeds `_execute_scheduled(when, job)`, with no suspension point between the due test
    and the pop (otherwise a job scheduled meanwhile becomes the head: it is popped and lost, the other one runs twice)."""
    fn = ctx.func(qualname)
    g = ctx.cfg(fn)
    execs = [c for c in A.func_calls(fn, shallow=False) if (A.call_name(c) or "") == "self._execute_scheduled"]
    pops = [c for c in A.func_calls(fn, shallow=False) if (A.call_name(c) or "").endswith("_scheduler_queue.pop")]
    ctx.floor(rule, f"_execute_scheduled sites in {fn.name}", len(execs), 1)
    for c in execs:
        srcs = []
        for a in c.args[1:2]:       # the job (the time may also be known from the peek: it is the same value)
            if isinstance(a, ast.Name):
                for s_ in A.stores(fn):
                    if isinstance(s_.target, ast.Name) and s_.target.id == a.id and hasattr(s_.node, "value"):
                        srcs.append(s_.node.value)
        okv = bool(srcs) and all(isinstance(v, ast.Call) and (A.call_name(v) or "").endswith("_scheduler_queue.pop") for v in srcs)
        ctx.check(okv, rule, f"{fn.name}: the job started is the one popped from the queue", fn, c, "when, job = queue.pop()",
                  f"the job handed to _execute_scheduled comes from {[ast.unparse(v)[:40] for v in srcs] or 'an unrecognised source'}, not from the pop: "
                  "the job started and the job removed from the queue can differ (one is lost, one runs twice)", key_text=f"pushed is popped {fn.name}")
        for p_ in pops:
            pn, en = g.nodes_for(p_)[0], g.nodes_for(c)[0]
            before = en in g.reach([pn], include_sources=False, labels=C.NO_EXC) and pn not in g.reach([en], stop=lambda n: n.kind == "test" and False, labels=C.NO_EXC) or \
                g.path_avoiding(g.entry, lambda n, en=en: n is en, lambda n, pn=pn: n is pn, C.NO_EXC) is None
            ctx.check(before, rule, f"{fn.name}: the job leaves the queue before it is handed to the pool", fn, p_, "pop dominates the push",
                      "the job is started (and the pool awaited) before it is removed from the queue: a job scheduled during that suspension is "
                      "removed in its place", key_text=f"pop before push {fn.name}")


def run(ctx: Ctx) -> None:
    rule_pushed_is_popped(ctx, f"{DISP}.BacktestingDispatcher._dispatch_scheduled", "C13.3")
    rule_time_passthrough(ctx)
    heaps = rule_heap_discipline(ctx)
    rule_final_drain(ctx, heaps)
    rule_dispatch_scheduled(ctx)
    rule_scheduled_job_order(ctx)
    ctx.assume("event sources yield events in non-decreasing time order (the property's own premise)")
    ctx.assume("asserts are stated beliefs and are not counted as raise sites")
