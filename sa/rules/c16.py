"""C16 -- signed requests verify against the bytes actually sent."""
from __future__ import annotations

import ast
import os
from typing import Any, Dict, List, Optional, Tuple

from .. import astutil as A
from .. import strbuild as S
from .. import cfg as C
from .. import loader
from ..core import Ctx
from .c17 import ENDPOINTS

PROP = "C16"
EXPLANATION = (
    "Static analysis of the two HTTP clients. C16.1 sign-what-you-send, reduced to encoder identity: for the query string "
    "and for the body, the function that encodes the value for the signature and the function that encodes it for the "
    "transport must be the same encoder applied to the same variable (transport facts: data=<mapping>/FormData -> "
    "urllib.parse.urlencode, params=<mapping> -> yarl's query quoter, yarl.URL(s, encoded=True) -> identity; the "
    "FormData fact is re-read from the installed aiohttp source). Bitstamp never combines a query string with "
    "authentication (who-may-call over every _make_request site). C16.2 ordering on the CFG: the signed map is a private "
    "copy, timestamp stored from the clock before the signature is computed, signature is the last write, nothing signed "
    "is mutated before sending, the API key accompanies every signing path, a fresh uuid4 nonce per Bitstamp request. "
    "C16.3 spec tables: Bitstamp v2 message order, HMAC-SHA256 hex for both exchanges, security type of every endpoint. "
    "Byte equality is reduced to encoder identity; clock skew and non-default ports in the Host header are not claimed."
    " C16.1 compares, besides the encoder, what is done to the mapping before it is encoded, and follows helpers across modules."
    " C16.2 also: a signed parameter map flows only to the transport, never to the signer again."
)
TRUSTED = ["CPython ast parser", "sa.cfg statement CFG", "aiohttp/yarl transport facts (FormData -> urlencode re-checked "
           "against the installed source)", "Binance / Bitstamp API documentation (spec tables)"]

BIN = "basana.external.binance"
BTS = "basana.external.bitstamp"


def _session_call(fn: loader.Func) -> ast.Call:
    cs = [c for c in A.func_calls(fn) if isinstance(c.func, ast.Name) and c.func.id == "session_method"]
    if len(cs) != 1:
        raise loader.AnchorMissing(f"{fn.qualname}: expected one session_method(...) call, found {len(cs)}")
    return cs[0]


def _local_def(fn: loader.Func, name: str) -> List[ast.AST]:
    out = []
    for s in A.stores(fn):
        if isinstance(s.target, ast.Name) and s.target.id == name and isinstance(s.node, (ast.Assign, ast.AnnAssign)):
            out.append(s.node.value)
        elif isinstance(s.target, ast.Name) and s.target.id == name and isinstance(s.node, ast.NamedExpr):
            out.append(s.node.value)
    return out


def _signed_message(fn: loader.Func) -> List[S.Seg]:
    """The text handed to ``hmac.new(..., msg=...)``, evaluated in the string-composition domain (sa/strbuild.py)."""
    hm = [c for c in A.func_calls(fn) if (A.call_name(c) or "") == "hmac.new"]
    if not hm:
        return []
    msg = A.kw(hm[0], "msg") or (hm[0].args[1] if len(hm[0].args) > 1 else None)
    return S.segments(fn, msg) if msg is not None else []


def _signer_encoders(fn: loader.Func) -> Dict[str, Tuple[str, ast.AST, str]]:
    """parameter name -> (encoder function name, node) for every ``enc(param)`` that is part of the signed message."""
    out: Dict[str, Tuple[str, ast.AST]] = {}
    for seg in _signed_message(fn):
        if seg.kind == "enc" and seg.arg in fn.params:
            out[seg.arg] = (seg.text, seg.node, seg.xform)
    return out


def _query_transport(ctx: Ctx, fn: loader.Func, call: ast.Call) -> Tuple[str, Optional[str], str]:
    """(encoder, variable, description) of how the query string reaches the wire in ``session_method(...)``."""
    p = A.kw(call, "params")
    if p is not None and not (isinstance(p, ast.Constant) and p.value is None):
        return ("yarl-query-quoter", A.dotted(p), f"params={ast.unparse(p)}")
    url = call.args[0] if call.args else A.kw(call, "url")
    segs = S.segments(fn, url)
    if len(segs) == 1 and segs[0].kind == "expr" and isinstance(segs[0].node, ast.Call) and (A.call_name(segs[0].node) or "").endswith("URL") \
            and A.const_value(A.kw(segs[0].node, "encoded")) is True and segs[0].node.args:
        x = segs[0].node
        inner = S.segments(fn, x.args[0])
        encs = [y for y in inner if y.kind == "enc"]
        if encs:
            return (encs[0].text, encs[0].arg, f"yarl.URL(<... {encs[0].text}({encs[0].xform.replace('$', str(encs[0].arg))[:60]})>, encoded=True)", encs[0].xform)
        return ("identity", None, ast.unparse(x)[:60])
    if any(y.kind == "enc" for y in segs):
        return ("yarl-requote", None, "query concatenated into a plain str URL (aiohttp re-quotes it)")
    return ("none", None, "no query string is sent")


def _body_transport(fn: loader.Func, call: ast.Call) -> Tuple[str, Optional[str], str]:
    if A.kw(call, "json") is not None:
        return ("json", A.dotted(A.kw(call, "json")), "json=")
    d = A.kw(call, "data")
    if d is None:
        return ("none", None, "no body")
    cands = [d] if not isinstance(d, ast.Name) else (_local_def(fn, d.id) or [d])
    for e in cands:
        for x in ast.walk(e):
            if isinstance(x, ast.Call) and (A.call_name(x) or "").endswith("FormData") and x.args:
                return ("urlencode", A.dotted(x.args[0]), f"data=FormData({ast.unparse(x.args[0])})")
    if isinstance(d, ast.Name) and d.id in fn.params:
        return ("urlencode", d.id, f"data={d.id} (mapping -> aiohttp.FormData)")
    return ("unknown", None, ast.unparse(d))


def rule_encoders(ctx: Ctx) -> None:
    # transport fact: aiohttp.FormData without files is rendered by urllib.parse.urlencode
    try:
        import importlib.util
        spec = importlib.util.find_spec("aiohttp")
        path = os.path.join(os.path.dirname(spec.origin), "formdata.py")
        tree = ast.parse(open(path).read())
        f = next(n for n in ast.walk(tree) if isinstance(n, ast.FunctionDef) and n.name == "_gen_form_urlencoded")
        ok = any(isinstance(c, ast.Call) and A.call_name(c) == "urlencode" for c in ast.walk(f))
        ctx.check(ok, "C16.1", "transport fact: aiohttp.FormData (no files) is rendered by urllib.parse.urlencode", None, None,
                  f"re-read from {path}", "installed aiohttp no longer renders FormData with urlencode: transport table stale",
                  key_text="FormData urlencode")
    except Exception as e:  # pragma: no cover
        ctx.note(f"aiohttp source not inspected: {e}")
    # ---- Binance
    mk = ctx.func(f"{BIN}.client.base.BaseClient.make_request")
    sig = ctx.func(f"{BIN}.helpers.get_signature")
    call = _session_call(mk)
    sigcalls = [c for c in A.func_calls(mk) if (A.call_name(c) or "").endswith("get_signature")]
    ctx.floor("C16.1", "get_signature call sites in make_request", len(sigcalls), 1)
    sc = sigcalls[0]
    enc = _signer_encoders(sig)
    ctx.require("qs_params" in enc and "data" in enc, "C16.1: get_signature no longer encodes qs_params and data with a known encoder")
    q_var = A.dotted(A.kw(sc, "qs_params")) if A.kw(sc, "qs_params") is not None else None
    d_var = A.dotted(A.kw(sc, "data")) if A.kw(sc, "data") is not None else None
    qt = _query_transport(ctx, mk, call)
    bt = _body_transport(mk, call)
    ctx.sample({"rule": "C16.1", "channel": "binance", "signed": {k: v[0] for k, v in enc.items()}, "sent_query": qt[::2], "sent_body": bt[::2]})
    from .. import norm as N
    q_xf = qt[3] if len(qt) > 3 else "$"
    ctx.check(qt[0].split("(")[0] == enc["qs_params"][0].split("(")[0] and q_var is not None and qt[1] in N.aliases(mk, q_var)
              and q_xf == enc["qs_params"][2], "C16.1",
              "binance query string: encoder that signs == encoder that sends, same variable", mk, call,
              f"signed with {enc['qs_params'][0]}({q_var}), sent as {qt[2]}",
              f"the query string is signed with {enc['qs_params'][0]}({q_var}) but sent as {qt[2]} [{qt[0]}]: the two encoders "
              "disagree on URL-special characters (':' '/' '@' ',' ...), so e.g. origClientOrderId='a:b/c' is signed as "
              "'a%3Ab%2Fc' and transmitted as 'a:b/c' and the exchange rejects the signature", key_text="binance query encoders")
    ctx.check(bt[0] == enc["data"][0].split("(")[0] and d_var is not None and bt[1] in N.aliases(mk, d_var) and enc["data"][2] == "$", "C16.1",
              "binance body: encoder that signs == encoder that sends, same variable", mk, call,
              f"signed with {enc['data'][0]}({d_var}), sent as {bt[2]}",
              f"the body is signed with {enc['data'][0]}({enc['data'][2].replace('$', str(d_var))[:80]}) but sent as {bt[2]} [{bt[0]} of the "
              "untransformed mapping]: the bytes signed differ from the bytes sent whenever the transformation changes a value", key_text="binance body encoders")
    # order in the signed text: query first, then body
    order = [x.arg for x in _signed_message(sig)]
    ctx.check(order == ["qs_params", "data"], "C16.1",
              "binance signs query string followed by body", sig, sig.node, "qs then body", "signed text is not query+body",
              key_text="binance total params order")
    # ---- Bitstamp
    bmk = ctx.func(f"{BTS}.client.APIClient._make_request")
    bsig = ctx.func(f"{BTS}.helpers.get_auth_headers")
    bcall = _session_call(bmk)
    benc = _signer_encoders(bsig)
    ctx.require("data" in benc, "C16.1: get_auth_headers no longer encodes data with a known encoder")
    bsc = [c for c in A.func_calls(bmk) if (A.call_name(c) or "").endswith("get_auth_headers")]
    ctx.floor("C16.1", "get_auth_headers call sites", len(bsc), 1)
    bd_var = A.dotted(A.kw(bsc[0], "data")) if A.kw(bsc[0], "data") is not None else None
    bbt = _body_transport(bmk, bcall)
    ctx.check(bbt[0] == benc["data"][0].split("(")[0] and bbt[1] == bd_var, "C16.1",
              "bitstamp body: encoder that signs == encoder that sends, same variable", bmk, bcall,
              f"signed with {benc['data'][0]}({bd_var}), sent as {bbt[2]}",
              f"the body is signed with {benc['data'][0]}({bd_var}) but sent as {bbt[2]} [{bbt[0]}]", key_text="bitstamp body encoders")
    bqt = _query_transport(ctx, bmk, bcall)
    same_q = "qs_params" in benc and bqt[0].split("(")[0] == benc["qs_params"][0].split("(")[0]
    ci = A.call_index(ctx)
    sites = ci.callers_of(f"{BTS}.client.APIClient._make_request")
    ctx.floor("C16.1", "call sites of bitstamp _make_request", len(sites), 12)
    for fn, m, c in sites:
        auth = c.args[2] if len(c.args) > 2 else A.kw(c, "authenticate")
        is_auth = not (isinstance(auth, ast.Constant) and auth.value is False)
        has_q = A.kw(c, "qs_params") is not None or len(c.args) > 3
        if is_auth:
            ctx.check(same_q or not has_q, "C16.1", "bitstamp: an authenticated request carries no query string "
                      "(the signer's encoder differs from the transport's)", fn, c, "no qs_params",
                      f"authenticated request passes a query string, which is signed with {benc.get('qs_params', ('?',))[0]} but "
                      f"sent through {bqt[0]}")


def rule_order(ctx: Ctx) -> None:
    mk = ctx.func(f"{BIN}.client.base.BaseClient.make_request")
    g = ctx.cfg(mk)
    call = _session_call(mk)
    sigcalls = [c for c in A.func_calls(mk) if (A.call_name(c) or "").endswith("get_signature")]
    sc = sigcalls[0]
    q_var = A.dotted(A.kw(sc, "qs_params"))
    sig_stmt = A.stmt_of(sc)
    sig_n = g.nodes_for(sig_stmt)[0]
    # signature stored under "signature" in the signed map
    okstore = isinstance(sig_stmt, ast.Assign) and isinstance(sig_stmt.targets[0], ast.Subscript) \
        and A.dotted(sig_stmt.targets[0].value) == q_var and A.const_value(sig_stmt.targets[0].slice) == "signature"
    ctx.check(okstore, "C16.2", "signature travels in the query string under 'signature'", mk, sig_stmt, "qs['signature'] = ...",
              "signature is not stored as the 'signature' query parameter")
    # a signed map is only ever sent: it is never handed to the signer (or to make_request, which signs) a second time -- its 'signature'
    # entry would be signed as if it were a parameter and the request would go out with timestamp=NEW&signature=H(...&signature=OLD)
    from .. import norm as N
    signed = N.aliases(mk, q_var) if q_var and "." not in q_var else set()
    again = [c for c in A.func_calls(mk, shallow=False) if c is not sc and ((A.call_name(c) or "").endswith("get_signature") or (A.call_name(c) or "").endswith(".make_request"))
             and any(isinstance(k.value, ast.Name) and k.value.id in signed for k in c.keywords if k.arg == "qs_params")
             and A.seq(c) > A.seq(sc)]
    again += [c for c in A.func_calls(mk, shallow=False) if c is not sc and (A.call_name(c) or "").endswith(".make_request")
              and any(isinstance(a, ast.Name) and a.id in signed for a in c.args) and A.seq(c) > A.seq(sc) and c not in again]
    ctx.check(not again, "C16.2", "a signed parameter map is never signed again", mk, again[0] if again else sc, "signed map flows only to the transport",
              f"'{ast.unparse(again[0])[:80] if again else ''}' passes the already signed map ({sorted(signed)}) to be signed again: the old signature is "
              "signed as a parameter and the request that is sent does not verify", key_text="no re-signing")
    # timestamp from the clock, stored before signing
    ts = [s for s in A.stores(mk) if isinstance(s.target, ast.Subscript) and A.dotted(s.target.value) == q_var
          and A.const_value(s.target.slice) == "timestamp"]
    ctx.floor("C16.2", "timestamp stores", len(ts), 1)
    tsn = g.nodes_for(ts[0].stmt)[0]
    clock = any((A.call_name(c) or "") == "time.time" for c in A.calls(ts[0].stmt))
    ms = "1000" in ast.unparse(ts[0].stmt)
    p = g.path_avoiding(g.entry, lambda n: n is sig_n, lambda n: n is tsn)
    ctx.check(clock and ms and p is None, "C16.2", "current timestamp (ms) is stored before the signature is computed", mk, ts[0].stmt,
              "qs['timestamp'] = int(round(time.time() * 1000)) dominates signing",
              "timestamp is not read from the clock in ms before signing (stale or unsigned timestamp)")
    # timestamps are current: nothing suspends between reading the clock and handing the request to the transport
    call_n0 = g.nodes_for(call)[0]
    mid = [n for n in g.reach([tsn], stop=lambda n: n is call_n0) if C.contains_await(n)]
    ctx.check(not mid, "C16.2", "no suspension point between stamping/signing the request and sending it", mk,
              mid[0].ast if mid else ts[0].stmt, "no await between the timestamp and the send",
              f"'{mid[0].text()[:60] if mid else ''}' suspends after the timestamp was read and signed: a throttled request is sent with a "
              "stale timestamp (rejected outside recvWindow)")
    # private copy before the first mutation (the default argument is a shared dict)
    copies = [s for s in A.stores(mk) if isinstance(s.target, ast.Name) and s.target.id == q_var and isinstance(s.node, ast.Assign)
              and isinstance(s.node.value, ast.Call) and (A.call_name(s.node.value) or "") in ("copy.copy", "dict", "copy.deepcopy")]
    cn = [n for s in copies for n in g.nodes_for(s.stmt)]
    p = g.path_avoiding(g.entry, lambda n: n is tsn, lambda n: n in cn)
    ctx.check(bool(cn) and p is None, "C16.2", "the signed map is a private copy (the default argument is shared)", mk,
              copies[0].stmt if copies else ts[0].stmt, f"{q_var} = copy.copy({q_var}) dominates the first store",
              "timestamp/signature are written into the caller's (or the shared default) dict: the next request signs a text "
              "that already contains the previous signature")
    # nothing signed is mutated between signing and sending
    call_n = g.nodes_for(call)[0]
    between = g.reach([sig_n], stop=lambda n: n is call_n)
    d_var = A.dotted(A.kw(sc, "data"))
    bad = []
    for s in A.stores(mk):
        tgt = s.target
        base = tgt.value if isinstance(tgt, ast.Subscript) else tgt
        if A.dotted(base) in (q_var, d_var) and any(n in between for n in g.nodes_for(s.stmt)) and s.stmt is not sig_stmt:
            bad.append(s.stmt)
    ctx.check(not bad, "C16.2", "nothing that was signed is modified before it is sent", mk, bad[0] if bad else sig_stmt,
              "signature is the last write", "a signed map is modified after the signature was computed")
    # API key on every signing path
    keys = [s for s in A.stores(mk) if isinstance(s.target, ast.Subscript) and A.dotted(s.target.value) == "headers"
            and A.const_value(s.target.slice) == "X-MBX-APIKEY"]
    ctx.floor("C16.2", "API key header stores", len(keys), 1)
    kn = [n for s in keys for n in g.nodes_for(s.stmt)]
    # guard truth table over (send_key, send_sig)
    sig_guard = next((a.test for a in A.ancestors(sig_stmt) if isinstance(a, ast.If)), None)
    key_guard = next((a.test for a in A.ancestors(keys[0].stmt) if isinstance(a, ast.If)), None)

    def ev(e: Optional[ast.AST], env: Dict[str, bool]) -> Optional[bool]:
        if e is None:
            return True
        if isinstance(e, ast.Name) and e.id in env:
            return env[e.id]
        if isinstance(e, ast.BoolOp):
            vs = [ev(x, env) for x in e.values]
            if None in vs:
                return None
            return all(vs) if isinstance(e.op, ast.And) else any(vs)
        if isinstance(e, ast.UnaryOp) and isinstance(e.op, ast.Not):
            v = ev(e.operand, env)
            return None if v is None else not v
        return None
    rows = []
    okk = True
    for sk in (False, True):
        for ss in (False, True):
            env = {"send_key": sk, "send_sig": ss}
            kg, sg = ev(key_guard, env), ev(sig_guard, env)
            rows.append((env, kg, sg))
            if kg is None or sg is None or (sg and not kg) or (sk and not kg):
                okk = False
    ctx.sample({"rule": "C16.2", "key/signature guards over (send_key, send_sig)": [(str(r[0]), r[1], r[2]) for r in rows]})
    ctx.check(okk, "C16.2", "the API key header is set whenever a signature or key is requested (4 flag combinations)", mk,
              keys[0].stmt, "key guard covers send_key and send_sig", "a signed (or key-only) request can be sent without "
              "X-MBX-APIKEY")
    hk = A.kw(call, "headers")
    ctx.check(hk is not None and A.dotted(hk) == "headers", "C16.2", "the headers carrying the key are the ones sent", mk, call,
              "headers=headers", "the session call does not send the headers dict that carries the API key")
    ctx.check(A.dotted(keys[0].node.value) == "self._api_key", "C16.2", "the key sent is the account's key", mk, keys[0].stmt,
              "self._api_key", "API key header is not the account's key")
    ctx.check(A.dotted(sc.args[0]) == "self._api_secret" if sc.args else False, "C16.2", "signed under the account's secret", mk, sc,
              "self._api_secret", "signature is not computed with the account's secret")
    # ---- Bitstamp
    bmk = ctx.func(f"{BTS}.client.APIClient._make_request")
    bcall = _session_call(bmk)
    bsc = [c for c in A.func_calls(bmk) if (A.call_name(c) or "").endswith("get_auth_headers")][0]
    sig_params = ctx.func(f"{BTS}.helpers.get_auth_headers").params
    bound = {p_: a for p_, a in zip(sig_params, bsc.args)}
    bound.update({k.arg: k.value for k in bsc.keywords})
    ctx.require("nonce" in bound, "C16.2: get_auth_headers is called without a nonce argument")
    nv = bound["nonce"]
    ndefs = _local_def(bmk, nv.id) if isinstance(nv, ast.Name) else [nv]
    fresh = bool(ndefs) and all(isinstance(d, ast.Call) and (A.call_name(d) or "").endswith("generate_nonce") for d in ndefs)
    ctx.check(fresh, "C16.2", "a fresh nonce is generated for every authenticated request", bmk, bsc,
              "nonce = generate_nonce() inside the request", f"the nonce passed to the signer is {ast.unparse(ndefs[0]) if ndefs else ast.unparse(nv)}, "
              "not a fresh generate_nonce() per request: nonces repeat and the exchange rejects the request")
    gn = ctx.func(f"{BTS}.helpers.generate_nonce")
    ctx.check("uuid.uuid4()" in ast.unparse(gn.node), "C16.2", "nonces are uuid4 values", gn, gn.node, "str(uuid.uuid4())",
              "nonce is no longer a uuid4 (may repeat)", key_text="nonce uuid4")
    # method / host / path signed are the ones the URL is built from
    url_def = _local_def(bmk, "url")
    host_def = _local_def(bmk, "hostname")
    okurl = bool(url_def) and (A.call_name(url_def[0]) or "").endswith("urljoin") and [A.dotted(a) for a in url_def[0].args] == ["base_url", "path"]
    okhost = bool(host_def) and ast.unparse(host_def[0]) == "urlparse(base_url).hostname"
    ctx.check(okurl and okhost and A.dotted(bound.get("hostname")) == "hostname" and A.dotted(bound.get("path")) == "path"
              and A.dotted(bound.get("method")) == "method", "C16.2",
              "bitstamp signs the method, host and path the request is actually sent to", bmk, bsc,
              "hostname from base_url, url = urljoin(base_url, path), same method", "signed method/host/path differ from the "
              "ones the URL is built from")
    sm = _local_def(bmk, "session_method")
    ctx.check(bool(sm) and isinstance(sm[0], ast.Subscript) and A.dotted(sm[0].slice) == "method", "C16.2",
              "bitstamp transport verb is selected by the signed method", bmk, sm[0] if sm else bmk.node, "table[method]",
              "session method not selected by 'method'")
    ctx.check(A.dotted(bound.get("api_key")) == "self._api_key" and A.dotted(bound.get("api_secret")) == "self._api_secret", "C16.2",
              "bitstamp signs with the account's key and secret", bmk, bsc, "self._api_key / self._api_secret",
              "credentials passed to the signer are not the account's")
    hk = A.kw(bcall, "headers")
    hdef = [s for s in A.stores(bmk) if isinstance(s.target, ast.Name) and s.target.id == "headers" and isinstance(s.node, ast.Assign)
            and s.node.value is bsc]
    ctx.check(hk is not None and A.dotted(hk) == "headers" and bool(hdef), "C16.2", "the signed headers are the ones sent", bmk, bcall,
              "headers = get_auth_headers(...); session(headers=headers)", "auth headers are computed but not sent")
    sk = A.kw(bcall, "skip_auto_headers")
    skd = _local_def(bmk, sk.id) if isinstance(sk, ast.Name) else ([sk] if sk is not None else [])
    ctx.check(bool(skd) and "Content-Type" in ast.unparse(skd[0]), "C16.2", "aiohttp's automatic Content-Type is suppressed "
              "(the signed one is sent)", bmk, bcall, "skip_auto_headers=['Content-Type']", "automatic Content-Type header not "
              "suppressed: the content type sent may differ from the one signed")


BITSTAMP_MESSAGE = ["X-Auth", "method", "hostname", "path", "qs_params", "Content-Type", "X-Auth-Nonce", "X-Auth-Timestamp",
                    "X-Auth-Version", "data"]


def _sig(segs: List[S.Seg]) -> List[Tuple[str, str, Optional[str]]]:
    return [(x.kind, x.text, x.arg) for x in segs]


def rule_spec(ctx: Ctx) -> None:
    from .. import norm as N
    fn = ctx.func(f"{BTS}.helpers.get_auth_headers")
    b = S.Builder(fn)
    # the headers returned: the dict the signature is stored into
    sig_store = [s for s in A.stores(fn) if isinstance(s.target, ast.Subscript) and A.const_value(s.target.slice) == "X-Auth-Signature"]
    ctx.require(sig_store and isinstance(sig_store[0].target.value, ast.Name), "C16.3: get_auth_headers no longer stores X-Auth-Signature into a local dict")
    hname = sig_store[0].target.value.id
    ents = b.dict_entries(hname)

    def hv(key: str) -> List[S.Seg]:
        out: List[S.Seg] = []
        for v, g in ents.get(key, []):
            for x in S.segments(fn, v):
                x.guard = x.guard or g
                out.append(x)
        return out
    message = _signed_message(fn)
    spec = [("X-Auth", hv("X-Auth")), ("method", [S.Seg("expr", "method.upper()")]), ("hostname", [S.Seg("expr", "hostname")]),
            ("path", [S.Seg("expr", "path")]), ("qs_params", [S.Seg("enc", "urlencode", None, None, "qs_params")]),
            ("Content-Type", hv("Content-Type")), ("X-Auth-Nonce", hv("X-Auth-Nonce")), ("X-Auth-Timestamp", hv("X-Auth-Timestamp")),
            ("X-Auth-Version", hv("X-Auth-Version")), ("data", [S.Seg("enc", "urlencode", None, None, "data")])]
    expected = [t for _, segs in spec for t in _sig(segs)]
    # adjacent literals are merged by segments(); merge the expectation the same way
    def merge(ts):
        out: List[Tuple[str, str, Optional[str]]] = []
        for t in ts:
            if t[0] == "lit" and out and out[-1][0] == "lit":
                out[-1] = ("lit", out[-1][1] + t[1], None)
            else:
                out.append(t)
        return out
    got = merge(_sig(message))
    parts = [x.label() for x in message]
    ctx.sample({"rule": "C16.3", "bitstamp_message_parts": parts, "documented": BITSTAMP_MESSAGE})
    ctx.check(got == merge(expected) and all(segs for _, segs in spec), "C16.3", "bitstamp v2 message is built in the documented order", fn, fn.node,
              " + ".join(parts), f"message parts are {parts}, the documentation says {BITSTAMP_MESSAGE} (with the header values "
              f"{[x.label() for _, segs in spec for x in segs]})", key_text="v2 message order")
    want = {"X-Auth": [("lit", "BITSTAMP ", None), ("expr", "api_key", None)], "X-Auth-Nonce": [("expr", "nonce", None)],
            "X-Auth-Version": [("lit", "v2", None)]}
    for key, w in want.items():
        ctx.check(_sig(hv(key)) == w, "C16.3", f"bitstamp header {key}", fn, fn.node, str(w), f"header {key} is {[x.label() for x in hv(key)]}",
                  key_text=f"hdr {key}")
    ts = hv("X-Auth-Timestamp")
    okts = len(ts) == 1 and ts[0].kind == "expr" and N.canon(N.expand(fn, ts[0].node if ts[0].node is not None else ast.Name(id=ts[0].text, ctx=ast.Load()))) \
        == "str(int(round(time.time() * 1000)))"
    ctx.check(okts, "C16.3", "bitstamp timestamp is the current time in ms", fn, fn.node,
              "time.time() * 1000", "timestamp not read from the clock in ms", key_text="bts timestamp")
    ct = hv("Content-Type")
    okct = len(ct) == 1 and (ct[0].kind, ct[0].text) == ("lit", "application/x-www-form-urlencoded") and (ct[0].guard or "").replace(" ", "") in ("data", "content_type") \
        and all((x.guard or "") == "data" for x in message if (x.kind, x.text) == ("lit", "application/x-www-form-urlencoded"))
    if okct and ct[0].guard != "data":
        # guard is a local: its truthiness must be that of `data`
        gv = N.expand(fn, ast.Name(id=ct[0].guard, ctx=ast.Load()))
        okct = isinstance(gv, ast.IfExp) and N.canon(gv.test) == "data" and A.const_value(gv.orelse) == "" and bool(A.const_value(gv.body))
    ctx.check(okct, "C16.3", "Content-Type is set (and signed) iff there is a body", fn, fn.node,
              "if data: Content-Type = application/x-www-form-urlencoded", "Content-Type not tied to the presence of a body",
              key_text="content type iff body")
    for q, keyname in ((f"{BTS}.helpers.get_auth_headers", "api_secret"), (f"{BIN}.helpers.get_signature", "api_secret")):
        f2 = ctx.func(q)
        hm = [c for c in A.func_calls(f2) if (A.call_name(c) or "") == "hmac.new"]
        okh = bool(hm) and ast.unparse(hm[0].args[0]) == f"{keyname}.encode()" and A.dotted(A.kw(hm[0], "digestmod")) == "hashlib.sha256" \
            and isinstance(hm[0].parent, ast.Attribute) and hm[0].parent.attr == "hexdigest"  # type: ignore[attr-defined]
        msg = A.kw(hm[0], "msg") if hm else None
        okm = isinstance(msg, ast.Call) and isinstance(msg.func, ast.Attribute) and msg.func.attr == "encode" \
            and (not msg.args or A.const_value(msg.args[0]) in ("utf-8", "utf8")) and bool(_signed_message(f2))
        ctx.check(okh and okm, "C16.3", f"{q.split('.')[2]}: HMAC-SHA256 of the message under the secret, hex encoded", f2,
                  hm[0] if hm else f2.node, "hmac.new(secret, msg, sha256).hexdigest()", "digest is not HMAC-SHA256/hex of the message",
                  key_text=f"hmac {q}")
    # the signature is the last header written
    later = [s for s in A.stores(fn) if A.dotted(A.base_attr(s.target)[0] if False else (s.target.value if isinstance(s.target, ast.Subscript) else s.target)) == hname
             and sig_store and A.seq(s.stmt) > A.seq(sig_store[0].stmt)]
    ctx.check(bool(sig_store) and not later, "C16.3", "bitstamp signature is the last header written", fn,
              sig_store[0].stmt if sig_store else fn.node, "no header modified after signing", "a header is modified after the "
              "signature was computed", key_text="signature last header")
    # security types per endpoint (shared table with C17.3)
    n = 0
    for q, (verb, path, sec) in sorted(ENDPOINTS.items()):
        f2 = ctx.repo.funcs.get(q)
        if f2 is None or sec == "NONE":
            continue
        reqs = [c for c in A.func_calls(f2) if (A.call_name(c) or "").split(".")[-1] in ("make_request", "_make_request")]
        if len(reqs) != 1:
            continue
        n += 1
        c = reqs[0]
        if q.startswith(BIN):
            got = "SIGNED" if A.const_value(A.kw(c, "send_sig")) is True else ("USER_STREAM" if A.const_value(A.kw(c, "send_key")) is True else "NONE")
        else:
            a = c.args[2] if len(c.args) > 2 else A.kw(c, "authenticate")
            got = "AUTH" if A.const_value(a) is True else "NONE"
        ctx.check(got == sec, "C16.3", f"{q.split('.', 3)[-1]} is sent with security {sec}", f2, c, got,
                  f"documented security type {sec}, request is sent as {got}", key_text=f"sec {q}")
    ctx.floor("C16.3", "authenticated endpoints checked", n, 35)


def run(ctx: Ctx) -> None:
    rule_encoders(ctx)
    rule_order(ctx)
    rule_spec(ctx)
    ctx.assume("same encoder function applied to the same mapping object yields the same bytes (values are str/int/bool; "
               "urlencode(doseq=True) equals urlencode for scalar values)")
    ctx.assume("yarl.URL(..., encoded=True) transmits the string as given")
