"""C02 -- solvency: no negative balances; borrowed equals open loan principal."""
from __future__ import annotations

import ast
from typing import Any, Dict, List, Optional

from .. import astutil as A
from .. import cells as K
from .. import cfg as C
from .. import commitlast as CL
from .. import summaries as S
from ..core import Ctx
from . import c01

PROP = "C02"
EXPLANATION = (
    "C02.1: the ledger maps have one writer (AccountBalances.update, who-may-write over mypy receiver types) and that writer "
    "commits only after every rule passed (commit-last walk). C02.2: NonZero and ValidHold are installed at construction, the "
    "rule list is only ever appended to, the loop in update visits every rule. C02.3: NonZero.check is evaluated on the "
    "threshold cells of each of its three parameters (raises exactly on < 0, one loop per parameter found by parameter "
    "dependence) and ValidHold.check on the three orderings of {hold, balance} for every symbol of either map (raises "
    "exactly when hold > balance). C02.4 pairing: every update with a non-empty borrowed delta lives in LoanManager and is "
    "followed, with nothing that may raise in between, by registering (positive) or closing (negative) the very loan whose "
    "principal is the delta; the principal is never reassigned; Loan.close has no other caller. C02.5: a fill that would "
    "overdraw is turned into 'not filled' (handler for NotEnoughBalance without re-raise); reported balance formula. "
    "Numeric values and accounts started with negative initial balances are outside the claim."
    " C02.4 also: nothing can fail between crediting the borrowed amount and registering the loan, the registration post-dominates the commit, and every lending strategy lends exactly the amount requested."
    " C02.3 also reports the update-rule frame table (shared with C06.4): which ledger maps each UpdateRule may read."
    " C02.2 also: the rule loop dominates every commit of the ledger maps."
)
TRUSTED = ["CPython ast parser", "mypy callee/receiver resolution", "sa.cfg statement CFG", "sa.cells", "sa.summaries"]

ABM = "basana.backtesting.account_balances"
AB = f"{ABM}.AccountBalances"
LM = "basana.backtesting.loan_mgr.LoanManager"
OM = "basana.backtesting.order_mgr.OrderManager"
LOAN = "basana.backtesting.lending.base.Loan"


def rule_installed(ctx: Ctx) -> None:
    init = ctx.func(f"{AB}.__init__")
    st = [s for s in A.stores(init) if A.dotted(s.target) == "self._update_rules"]
    ctx.require(st, "C02.2: AccountBalances.__init__ no longer initialises _update_rules")
    v = st[0].node.value
    names = [(A.call_name(e) or "") for e in v.elts] if isinstance(v, ast.List) else []
    ctx.check("NonZero" in names and "ValidHold" in names, "C02.2", "NonZero and ValidHold are installed at construction", init,
              st[0].stmt, str(names), f"initial rules are {names}", key_text="initial rules")
    for name, fn in sorted(ctx.repo.methods_of(AB).items()):
        for s in A.stores(fn):
            if A.dotted(s.target) == "self._update_rules" and not (name == "__init__" and s.kind == "assign"):
                ok = s.kind == "mutcall" and s.node.func.attr == "append"  # type: ignore[attr-defined]
                ctx.check(ok, "C02.2", "the rule list is only ever appended to", fn, s.stmt, "append",
                          "a rule can be removed or the list replaced")
    up = ctx.func(f"{AB}.update")
    loops = [n for n in C.walk_shallow(up.node) if isinstance(n, ast.For) and A.dotted(n.iter) == "self._update_rules"]
    ctx.require(loops, "C02.2: rule loop not found in update")
    lp = loops[0]
    simple = len(lp.body) == 1 and isinstance(lp.body[0], ast.Expr) and isinstance(lp.body[0].value, ast.Call) \
        and (A.call_name(lp.body[0].value) or "").endswith(".check") and not lp.orelse
    ctx.check(simple, "C02.2", "update evaluates every installed rule", up, lp, "plain loop over the rules", "the rule loop can skip a rule")
    # ... on every path to the commit: no kind of update is exempt from the rules
    gu = ctx.cfg(up)
    ln_ = gu.nodes_for(lp)[0]
    commits = [s_ for s_ in A.stores(up) if (A.dotted(s_.target) or "") in ("self.balances", "self.holds", "self.borrowed")]
    for s_ in commits:
        cn_ = gu.nodes_for(s_.stmt)[0]
        pth = gu.path_avoiding(gu.entry, lambda n, cn_=cn_: n is cn_, lambda n: n is ln_, C.NO_EXC)
        ctx.check(pth is None, "C02.2", "the rules are evaluated before every commit of the maps", up, s_.stmt, "the rule loop dominates the commit",
                  f"'{ast.unparse(s_.stmt)[:50]}' can be reached without running the update rules (some updates are exempt): a debit that exceeds what is "
                  "free can be committed, leaving available = balance - hold negative", detail={"path": C.fmt_path(pth) if pth else []},
                  key_text=f"rules dominate {A.dotted(s_.target)}")
    ctx.floor("C02.2", "commits of the ledger maps in update", len(commits), 3)
    # no other function lets callers reach the maps without the rules
    for fn in ctx.repo.all_funcs():
        if fn.module.modname.startswith("basana.backtesting") and fn.cls is not None and fn.cls.qualname != AB:
            for s in A.stores(fn):
                if isinstance(s.target, ast.Attribute) and s.target.attr == "_update_rules":
                    ctx.bad("C02.2", "rule list is private to AccountBalances", fn, s.stmt, "rule list modified from outside")


def _param_loops(fn) -> Dict[str, List[ast.For]]:
    out: Dict[str, List[ast.For]] = {}
    for n in C.walk_shallow(fn.node):
        if isinstance(n, ast.For) and isinstance(n.iter, ast.Call) and (A.call_name(n.iter) or "").endswith(".items"):
            p = (A.call_name(n.iter) or "").rsplit(".", 1)[0]
            out.setdefault(p, []).append(n)
    return out


def _exists_raise(fn, param: str):
    """'if some value of mapping `param` satisfies T: raise E', in any of its spellings -> [(value variable, T, raise node, anchor)]:
    a loop with an `if T: raise`; `x = next((k for k, v in param.items() if T), None)` followed by `if x is not None: raise`;
    `if any(T for .. in param.items() / .values()): raise`."""
    out = []
    for lp in _param_loops(fn).get(param, []):
        if isinstance(lp.target, ast.Tuple) and len(lp.target.elts) == 2 and len(lp.body) == 1 and isinstance(lp.body[0], ast.If):
            iff = lp.body[0]
            rs = [b for b in iff.body if isinstance(b, ast.Raise)]
            if rs and not iff.orelse:
                out.append((lp.target.elts[1].id, iff.test, rs[0], lp))

    def gen_over(e):
        if isinstance(e, ast.GeneratorExp) and len(e.generators) == 1:
            g = e.generators[0]
            it = g.iter
            if isinstance(it, ast.Call) and isinstance(it.func, ast.Attribute) and A.dotted(it.func.value) == param:
                if it.func.attr == "items" and isinstance(g.target, ast.Tuple) and len(g.target.elts) == 2 and isinstance(g.target.elts[1], ast.Name):
                    return g.target.elts[1].id, g
                if it.func.attr == "values" and isinstance(g.target, ast.Name):
                    return g.target.id, g
        return None
    for iff in [n for n in C.walk_shallow(fn.node) if isinstance(n, ast.If) and not n.orelse]:
        rs = [b for b in iff.body if isinstance(b, ast.Raise)]
        if not rs:
            continue
        t = iff.test
        # x is not None / x  with x = next((.. if T), None)
        var = None
        if isinstance(t, ast.Compare) and len(t.ops) == 1 and isinstance(t.ops[0], ast.IsNot) and isinstance(t.left, ast.Name) \
                and A.const_value(t.comparators[0]) is None and isinstance(t.comparators[0], ast.Constant):
            var = t.left.id
        if var is not None:
            # the definition that reaches this test: the closest earlier assignment
            defs_ = [s_ for s_ in A.stores(fn) if isinstance(s_.target, ast.Name) and s_.target.id == var and isinstance(s_.node, ast.Assign)
                     and A.seq(s_.stmt) < A.seq(iff)]
            if defs_:
                d = max(defs_, key=lambda s_: A.seq(s_.stmt)).node.value
                if isinstance(d, ast.Name):
                    from .. import norm as N
                    d = N.expand(fn, d)
                if isinstance(d, ast.Call) and A.call_name(d) == "next" and len(d.args) == 2 and A.const_value(d.args[1]) is None:
                    go = gen_over(d.args[0])
                    if go and len(go[1].ifs) == 1:
                        out.append((go[0], go[1].ifs[0], rs[0], iff))
        if isinstance(t, ast.Call) and A.call_name(t) == "any" and len(t.args) == 1:
            go = gen_over(t.args[0])
            if go and not go[1].ifs:
                out.append((go[0], t.args[0].elt, rs[0], iff))
    return out


def rule_cells(ctx: Ctx) -> None:
    nz = ctx.func(f"{ABM}.NonZero.check")
    params = nz.params[1:4]
    for p in params:
        found = _exists_raise(nz, p)
        lp = [f[3] for f in found]
        ok = False
        tt = None
        exc = None
        if len(found) == 1:
            val, test, r, _ = found[0]
            names = {x.id for x in ast.walk(test) if isinstance(x, ast.Name)} - {"Decimal"}
            if names == {val}:
                tt = K.truth_table(test, val, extra=[0.0])
                ok = tt == {"(-inf,0)": True, "{0}": False, "(0,+inf)": False}
                exc = (A.dotted(r.exc.func) if isinstance(r.exc, ast.Call) else A.dotted(r.exc)) or ""
        ctx.sample({"rule": "C02.3", "param": p, "truth_table": tt, "raises": exc})
        ctx.check(ok, "C02.3", f"NonZero refuses exactly the negative entries of '{p}' (threshold cells)", nz, lp[0] if lp else nz.node,
                  f"{tt} -> {exc}", f"NonZero's guard on '{p}' has truth table {tt} (a negative "
                  f"{'balance' if 'balance' in p else 'amount'} can be committed, or a valid one is refused)", key_text=f"NonZero {p}")
        if p == params[0]:
            ctx.check(exc is not None and exc.endswith("NotEnoughBalance"), "C02.3", "an overdraw is reported as NotEnoughBalance", nz,
                      lp[0] if lp else nz.node, str(exc), f"overdraw raises {exc}: fills and repayments that catch NotEnoughBalance to "
                      "refuse the operation would let the error escape", key_text="NonZero exception")
    ctx.exhaustive = True
    vh = ctx.func(f"{ABM}.ValidHold.check")
    src = ast.unparse(vh.node)
    union = "set(itertools.chain(updated_holds.keys(), updated_balances.keys()))" in src.replace(vh.params[2], "updated_holds").replace(vh.params[1], "updated_balances")
    ifs = [n for n in ast.walk(vh.node) if isinstance(n, ast.If) and any(isinstance(b, ast.Raise) for b in n.body)]
    okv = False
    tbl = None
    if len(ifs) == 1 and isinstance(ifs[0].test, ast.Compare) and len(ifs[0].test.ops) == 1:
        t = ifs[0].test
        defs = {s.target.id: ast.unparse(s.node.value) for s in A.stores(vh) if isinstance(s.target, ast.Name) and isinstance(s.node, ast.Assign)}

        def role(e):
            d = defs.get(A.dotted(e) or "", "")
            if d.startswith(f"{vh.params[2]}.get(") and d.endswith("Decimal(0))"):
                return "hold"
            if d.startswith(f"{vh.params[1]}.get(") and d.endswith("Decimal(0))"):
                return "balance"
            return None
        l, r = role(t.left), role(t.comparators[0])
        if {l, r} == {"hold", "balance"}:
            tbl = {}
            for name, (h, b) in (("hold<balance", (1, 2)), ("hold==balance", (2, 2)), ("hold>balance", (3, 2))):
                x, y = (h, b) if l == "hold" else (b, h)
                tbl[name] = {ast.Lt: x < y, ast.LtE: x <= y, ast.Gt: x > y, ast.GtE: x >= y}.get(type(t.ops[0]))
            okv = tbl == {"hold<balance": False, "hold==balance": False, "hold>balance": True}
    ctx.sample({"rule": "C02.3", "ValidHold": tbl, "symbols": "union of both maps" if union else "?"})
    ctx.check(okv and union, "C02.3", "ValidHold refuses exactly hold > balance, for every symbol of either map (3 orderings)", vh,
              ifs[0] if ifs else vh.node, str(tbl), f"ValidHold truth table {tbl}, symbols over union: {union}", key_text="ValidHold table")


def rule_pairing(ctx: Ctx) -> None:
    ci = A.call_index(ctx)
    sm = S.get(ctx)
    sites = ci.callers_of(f"{AB}.update")
    n = 0
    for fn, m, c in sites:
        bu = A.kw(c, "borrowed_updates")
        if bu is None:
            continue
        n += 1
        ctx.check(fn is not None and fn.cls is not None and fn.cls.qualname == LM, "C02.4", "borrowed deltas exist only in LoanManager",
                  fn, c, "LoanManager", "a borrowed balance is changed outside LoanManager (no loan can account for it)")
        if fn is None:
            continue
        cls, why = c01.classify_update_site(ctx, fn, c)
        g = ctx.cfg(fn)
        un = g.nodes_for(c)[0]
        loan_var = None
        for x in ast.walk(bu if not isinstance(bu, ast.Name) else (c01._local(fn, bu.id) or [bu])[0]):
            d = A.dotted(x) or ""
            if d.endswith(".borrowed_amount"):
                loan_var = d.split(".")[0]
        if loan_var is None:
            ctx.bad("C02.4", f"the borrowed delta in {fn.name} is the principal of the loan it registers/closes", fn, c,
                    f"borrowed_updates={ast.unparse(bu)[:60]} is not built from <loan>.borrowed_amount: the borrowed balance moves by a number "
                    "that need not equal the principal recorded on the loan (borrowed != sum of open principals)")
            continue
        if cls == "loan-open":
            def is_pair(nn):
                return any(isinstance(x, ast.Call) and (A.call_name(x) or "") == "self._loans.add" and x.args
                           and A.dotted(x.args[0]) == loan_var for e in C.exprs_of(nn) for x in C.walk_shallow(e))
            what = f"self._loans.add({loan_var})"
        else:
            def is_pair(nn):
                return any(isinstance(x, ast.Call) and (A.call_name(x) or "") == f"{loan_var}.close"
                           for e in C.exprs_of(nn) for x in C.walk_shallow(e))
            what = f"{loan_var}.close()"
        p = g.always_followed_by(un, is_pair, labels=C.NO_EXC)
        ctx.check(p is None, "C02.4", f"borrowed delta in {fn.name} is paired with {what}", fn, c, "post-dominated by the pairing action",
                  f"the borrowed balance changes but {what} does not follow on every path: borrowed != sum of open principals",
                  detail={"path": C.fmt_path(p) if p else []})
        # nothing that may raise between the commit and the pairing action
        between = g.reach([un], stop=is_pair, labels=C.NO_EXC)
        risky = []
        for nn in between:
            for e in C.exprs_of(nn):
                for x in C.walk_shallow(e):
                    if isinstance(x, ast.Call) and sm.call_raises(fn.module, x):
                        risky.append((nn, x))
        ctx.check(not risky, "C02.4", f"nothing may raise between the borrowed delta and {what}", fn, risky[0][1] if risky else c,
                  "no may-raise call in between", f"'{ast.unparse(risky[0][1])[:60]}' may raise after the borrowed balance was "
                  f"committed and before {what}: the loan stays {'unregistered' if cls == 'loan-open' else 'open'} while "
                  "borrowed already changed" if risky else "")
        # the loan is obtained before the update (the principal is the loan's own)
    ctx.floor("C02.4", "update sites with a borrowed delta", n, 3)
    # principal never reassigned
    for fn in ctx.repo.all_funcs():
        for s in A.stores(fn):
            if isinstance(s.target, ast.Attribute) and s.target.attr == "_borrowed_amount":
                ctx.check(fn.qualname == f"{LOAN}.__init__", "C02.4", "a loan's principal is fixed at creation", fn, s.stmt, "constructor",
                          "the principal of a loan is reassigned after creation")
    prop = ctx.func(f"{LOAN}.borrowed_amount")
    ctx.check("return self._borrowed_amount" in ast.unparse(prop.node), "C02.4", "borrowed_amount reports the stored principal", prop,
              prop.node, "ok", "borrowed_amount no longer returns the stored principal", key_text="principal getter")
    # Loan.close: callers and effect
    callers = ci.callers_of(f"{LOAN}.close")
    ctx.floor("C02.4", "call sites of Loan.close", len(callers), 2)
    for fn, m, c in callers:
        ctx.check(fn is not None and fn.qualname in (f"{LM}.repay_loan", f"{LM}.cancel_loan"), "C02.4",
                  "loans are closed only by repay_loan / cancel_loan", fn, c, "ok", "a loan is closed without returning its principal")
    cl = ctx.func(f"{LOAN}.close")
    st = [s for s in A.stores(cl) if A.dotted(s.target) == "self._is_open"]
    ctx.check(bool(st) and A.const_value(st[0].node.value) is False, "C02.4", "close() marks the loan closed", cl, cl.node, "_is_open = False",
              "close() does not clear _is_open", key_text="close clears")
    # open loans are what get_loans(is_open=True) lists: registration container
    add = ctx.func(f"{LM}.create_loan")
    ctx.check(any((A.call_name(c) or "") == "self._loans.add" for c in A.func_calls(add)), "C02.4", "created loans are registered", add,
              add.node, "self._loans.add(loan)", "created loan is not registered", key_text="loan registered")
    # registering is not allowed to be a silent no-op (e.g. 'already tracked: return'): the loan would be credited but not recorded
    cadd = ctx.func("basana.backtesting.helpers.ExchangeObjectContainer.add")
    gca = ctx.cfg(cadd)
    ist = [s_ for s_ in A.stores(cadd) if isinstance(s_.target, ast.Subscript) and A.dotted(s_.target.value) == "self._items"]
    reg_always = bool(ist) and gca.always_followed_by(gca.entry, lambda n: any(n in gca.nodes_for(s_.stmt) for s_ in ist), labels=C.NO_EXC) is None
    ctx.check(reg_always, "C02.4", "ExchangeObjectContainer.add records the item on every normal path", cadd, ist[0].stmt if ist else cadd.node,
              "self._items[item.id] = item post-dominates entry", "add() can return without recording the item (a duplicate id is silently ignored): the borrowed "
              "amount was already credited, so the account owes funds that no open loan accounts for", key_text="add records")
    # loan ids are unique per loan (random), never derived from the request
    for cls_ in ctx.facts.subclasses("basana.backtesting.lending.base.LendingStrategy"):
        f_ = ctx.repo.funcs.get(f"{cls_}.create_loan")
        if f_ is None:
            continue
        for c_ in [c for r in C.walk_shallow(f_.node) if isinstance(r, ast.Return) and isinstance(r.value, ast.Call) for c in [r.value]]:
            from .. import norm as N
            id_arg = N.canon(N.expand(f_, c_.args[0])) if c_.args else ""
            ctx.check("uuid.uuid4()" in id_arg, "C02.4", f"{cls_.rsplit('.', 1)[-1]} gives every loan its own random id", f_, c_, id_arg[:50],
                      f"the loan id is '{id_arg[:60]}': two loans can get the same id, the second is then not recorded separately while its amount is borrowed",
                      key_text=f"loan id {cls_}")
    # between the ledger commit and the registration nothing may fail: otherwise borrowed > 0 with no open loan behind it
    ga = ctx.cfg(add)
    upc = [c for c in A.func_calls(add) if (A.call_name(c) or "").endswith("account_balances.update")]
    reg = [c for c in A.func_calls(add) if (A.call_name(c) or "") == "self._loans.add"]
    if upc and reg:
        sm_ = S.get(ctx)
        un_, rn_ = ga.nodes_for(upc[0])[0], ga.nodes_for(reg[0])[0]
        between = [n for n in ga.reach([un_], stop=lambda n: n is rn_, labels=C.NO_EXC) if n is not un_ and n is not rn_]
        risky = []
        for n in between:
            for e in C.exprs_of(n):
                for x in C.walk_shallow(e):
                    if isinstance(x, ast.Call) and sm_.call_raises(add.module, x):
                        risky.append((x, sorted(sm_.call_raises(add.module, x))))
            if n.ast is not None and isinstance(n.ast, (ast.Raise, ast.Assert)):
                risky.append((n.ast, ["raise"]))
        ctx.check(not risky, "C02.4", "nothing can fail between crediting the borrowed funds and registering the loan", add,
                  risky[0][0] if risky else reg[0], "no raising call between account_balances.update and self._loans.add",
                  f"'{ast.unparse(risky[0][0])[:60] if risky else ''}' may raise {risky[0][1] if risky else ''} after the borrowed amount was committed "
                  "and before the loan is registered: the account keeps borrowed funds that no open loan accounts for", key_text="commit then register")
        p_ = ga.always_followed_by(un_, lambda n: n is rn_, labels=C.NO_EXC)
        ctx.check(p_ is None, "C02.4", "every committed borrowing is registered as an open loan", add, reg[0], "registration post-dominates the commit",
                  "a path commits the borrowed amount without registering the loan", key_text="register post-dominates")


def rule_loan_amount(ctx: Ctx, rule: str = "C02.4") -> None:
    """The loan a lending strategy creates carries exactly the amount that was asked for: LoanManager credits loan.borrowed_amount, and
    OrderManager._borrow relies on the loan covering the whole shortfall it computed (premise of lemma L2 in C07)."""
    base = "basana.backtesting.lending.base.LendingStrategy"
    n = 0
    for cls in ctx.facts.subclasses(base):
        fn = ctx.repo.funcs.get(f"{cls}.create_loan")
        if fn is None or cls == base:
            continue
        ctx.analysed_funcs.add(fn.qualname)
        amount = fn.params[2]
        ctors = [c for r in C.walk_shallow(fn.node) if isinstance(r, ast.Return) and r.value is not None for c in [r.value] if isinstance(c, ast.Call)]
        if not ctors:
            continue        # NoLoans: every path raises (C10.1)
        n += 1
        rewritten = [s for s in A.stores(fn) if isinstance(s.target, ast.Name) and s.target.id == amount]
        passed = all(any(A.dotted(a) == amount for a in list(c.args) + [k.value for k in c.keywords]) for c in ctors)
        ctx.check(passed and not rewritten, rule, f"{cls.rsplit('.', 1)[-1]}.create_loan lends exactly the amount requested", fn,
                  rewritten[0].stmt if rewritten else ctors[0], f"Loan(..., {amount}, ...) with '{amount}' never reassigned",
                  f"the loan is created for a different amount than requested ('{amount}' is {'reassigned' if rewritten else 'not passed on'}): an "
                  "auto-borrow order is lent less than the shortfall it computed, the hold placed afterwards is refused and the loan granted for "
                  "the rejected order stays open", key_text=f"loan amount {cls}")
    ctx.floor(rule, "lending strategies that create loans", n, 1)


def rule_refuse_fill(ctx: Ctx) -> None:
    po = ctx.func(f"{OM}._process_order")
    ups = [c for c in A.func_calls(po) if (A.call_name(c) or "") == "self._update_balances"]
    ctx.floor("C02.5", "_update_balances in _process_order", len(ups), 1)
    sm = S.get(ctx)
    for c in ups:
        t = next((a for a in A.ancestors(c) if isinstance(a, ast.Try)), None)
        ok = False
        why = "the commit of a fill is not inside a try"
        if t is not None:
            for h in t.handlers:
                names = sm.handler_names(h)
                if any(sm.is_sub("NotEnoughBalance", hn) for hn in names):
                    rer = any(isinstance(x, ast.Raise) for s in h.body for x in C.walk_shallow(s))
                    nf = any(isinstance(x, ast.Call) and (A.call_name(x) or "").split(".")[-1] in ("not_filled", "order_not_filled", "_order_not_filled") for s in h.body for x in ast.walk(s))
                    ok = (not rer) and nf
                    why = f"handler {names}: re-raises={rer}, ends in order_not_filled={nf}"
        ctx.check(ok, "C02.5", "a fill the account cannot pay is refused and reported as 'not filled'", po, c,
                  "except NotEnoughBalance: order.not_filled() (no re-raise)", why)
    c01.rule_formula(ctx, rule="C02.5")


def run(ctx: Ctx) -> None:
    c01.rule_writers(ctx, rule="C02.1")
    c01.rule_atomic_update(ctx, rule="C02.1")
    rule_installed(ctx)
    rule_cells(ctx)
    rule_pairing(ctx)
    # which ledger maps each update rule may read (shared with C06.4): ValidHold compares holds with balances only - borrowed funds are
    # already part of the balance, counting them again accepts holds and fills the account cannot cover
    from . import c06
    ctx.rule_map = {"C06.4": "C02.3"}
    try:
        c06.rule_frame(ctx)
    finally:
        ctx.rule_map = {}
    rule_loan_amount(ctx)
    rule_refuse_fill(ctx)
    ctx.assume("initial balances are non-negative (negative initial balances create borrowed amounts without loans: outside the quantifier)")
