"""C07 -- rejected requests leave the account untouched."""
from __future__ import annotations

import ast
from typing import Any, Dict, List, Optional, Set

from .. import astutil as A
from .. import cfg as C
from .. import commitlast as CL
from .. import summaries as S
from ..core import Ctx
from .common import margin_rule_early_exits

PROP = "C07"
EXPLANATION = (
    "COMMIT-LAST walk (statement CFG + interprocedural may-raise / mutates summaries over mypy-resolved callees) of every "
    "request entry point of the backtesting exchange and of the helpers they call: a call that may raise must precede the "
    "first persistent mutation, or be compensated by a handler that applies the registered inverse (create_loan <-> "
    "cancel_loan) to every success recorded so far, catches everything the call can raise, and re-raises. A function that "
    "passes is transactional and its callers treat it as 'raise first, then commit'. Environment-lookup raise sites "
    "(precision / price / lending-conditions configured) are excluded with reasons; three call-site exclusions are stated "
    "lemmas whose structural premises are checked here (release-only updates cannot be refused; the hold placed right "
    "after auto-borrowing cannot be refused; loans listed as open in the same synchronous step are open). C07.3: the "
    "not-found / not-open / invalid-amount guards dominate every mutation. Feasibility of raise sites is not decided "
    "(the analysis is may-raise)."
    " Raise sets include NoPrice from Prices.convert (defects D12/D13 were found when that exclusion was dropped). C07.2 also: the loan a lending strategy creates carries exactly the requested amount."
)
TRUSTED = ["CPython ast parser", "sa.cfg statement CFG", "mypy callee resolution", "sa.summaries (may_raise / mutates)",
           "the three lemmas listed in the evidence under 'exclusions'"]

OM = "basana.backtesting.order_mgr.OrderManager"
LM = "basana.backtesting.loan_mgr.LoanManager"
AB = "basana.backtesting.account_balances.AccountBalances"
EX = "basana.backtesting.exchange.Exchange"

ORDER = [
    f"{AB}.update", f"{LM}.create_loan", f"{LM}.cancel_loan", f"{LM}.repay_loan",
    f"{OM}._update_balances", f"{OM}._repay_loans", f"{OM}._order_closed", f"{OM}._borrow", f"{OM}.add_order",
    f"{OM}.cancel_order", f"{EX}.create_order", f"{EX}.cancel_order", f"{EX}.create_loan", f"{EX}.repay_loan",
]


def _empty_dict_second_arg(c: ast.Call) -> bool:
    return len(c.args) >= 2 and isinstance(c.args[1], ast.Dict) and not c.args[1].keys


def _hold_only(c: ast.Call) -> bool:
    kws = {k.arg for k in c.keywords}
    return kws == {"hold_updates"} and not c.args


def exclusions() -> List[CL.SiteExclusion]:
    return [
        CL.SiteExclusion(f"{OM}._order_closed", "._update_balances", _empty_dict_second_arg, None,
                         "L1 release lemma: a release-only update (no balance change, holds decreased by exactly what the order "
                         "recorded) cannot be refused: NonZero/ValidHold only see smaller holds, and the margin rule exits early "
                         "for updates that do not borrow (premises checked by C07.2 below and by C06.2)", "L1"),
        CL.SiteExclusion(f"{OM}.add_order", "account_balances.update", _hold_only, None,
                         "L2: the hold placed right after _borrow cannot be refused: _borrow raised every available balance to at "
                         "least the amount to hold, and a hold-only update does not borrow (path exists, not feasible)", "L2"),
        CL.SiteExclusion(f"{OM}._repay_loans", "loan_mgr.repay_loan", lambda c: True, {"Error", "NotFound"},
                         "L3: the loans come from get_loans(is_open=True) in the same synchronous step, so _get_open_loan cannot "
                         "fail; 'invalid hold/borrowed update' cannot occur because principal and collateral were added by the "
                         "paired create_loan (C02.4)", "L3"),
        CL.SiteExclusion(f"{OM}._borrow", "loan_mgr.cancel_loan", lambda c: True, None,
                         "L4: the rollback cancels loans created earlier in this very call (same synchronous step, same "
                         "timestamp): they are open, and returning a principal that was just credited cannot be refused", "L4"),
    ]


def l2_premise(ctx: Ctx):
    """_borrow borrows, for every symbol to hold, exactly what the AVAILABLE balance is short of the amount to hold.

    Decided on the canonical form of the map the loan loop iterates (sa.norm.derived_map), so comprehension chains, a single loop
    with a temporary, or an aliased ``account_balances`` are the same thing."""
    from .. import norm as N
    bo = ctx.func(f"{OM}._borrow")
    req = bo.params[1]
    def src_name(it):
        if isinstance(it, ast.Call) and isinstance(it.func, ast.Attribute) and it.func.attr == "items" and isinstance(it.func.value, ast.Name):
            return it.func.value.id
        return it.id if isinstance(it, ast.Name) else None      # a list of (symbol, amount) pairs
    loops = [n for n in ast.walk(bo.node) if isinstance(n, ast.For) and src_name(n.iter) is not None and isinstance(n.target, ast.Tuple)
             and any(isinstance(c, ast.Call) and (A.call_name(c) or "").endswith("loan_mgr.create_loan") for c in ast.walk(n))]
    ok1 = ok2 = ok3 = False
    if loops:
        lp = loops[0]
        sym, amt = [e.id for e in lp.target.elts]
        ok3 = any(isinstance(c, ast.Call) and (A.call_name(c) or "").endswith("loan_mgr.create_loan") and [A.dotted(x) for x in c.args[:2]] == [sym, amt]
                  for c in ast.walk(lp))
        dm = N.derived_map(bo, src_name(lp.iter))
        if dm is not None:
            base, key, value, filters = dm
            avail = "self._ctx.account_balances.get_available_balance(KEY_)"
            ok1 = base == req and key == "KEY_"
            ok2 = value.replace(" ", "") in (f"-({avail}-VAL_)", f"VAL_-{avail}") and \
                [f.replace(" ", "") for f in filters] in ([f"{avail}-VAL_<Decimal(0)"], [f"VAL_>{avail}"], [f"{avail}<VAL_"])
    return bo, (ok1, ok2, ok3)


def rule_commit_last(ctx: Ctx) -> None:
    ex = exclusions()
    bo_, prem = l2_premise(ctx)
    if not all(prem):
        ex = [e for e in ex if e.name != "L2"]
    an = CL.Analysis(ctx, ex)
    for q in ORDER:
        ok = an.check(q)
        fn = ctx.repo.func(q)
        rep = an.reports[q]
        bad = [r for r in rep if r["kind"] in ("raise after mutation", "non-atomic callee")]
        comp = [r for r in rep if r["kind"] == "compensated"]
        short = q.split(".", 2)[-1]
        if not bad:
            ctx.ok("C07.1", f"{short} is transactional (raises only before its first persistent mutation)", fn, fn.node,
                   f"escaping raise set {sorted(an.refined[q])}; compensated sites: {len(comp)}", key_text=f"commit-last {short}")
        for r in bad:
            n = r["node"]
            what = (f"'{n.text()[:70]}' may raise {r['raises']} after the account/order/loan state was already modified"
                    + (f" by '{r['mutation'].text()[:60]}' (line {r['mutation'].line})" if r.get("mutation") is not None else "")
                    if r["kind"] == "raise after mutation" else
                    f"'{n.text()[:70]}' calls {r['callee']} which both mutates state and may raise {r['raises']} and is not "
                    "itself transactional")
            ctx.bad("C07.1", f"{short}: no raise after a persistent mutation", fn, n.ast,
                    what + ": a request rejected here leaves a partial change behind", detail={"path": r.get("path", [])})
        for r in comp:
            ctx.ok("C07.1", f"{short}: failure after partial progress is rolled back", fn, r["node"].ast,
                   f"handler: {r['handler']}; covers {r['raises']}")
    ctx.check(all(prem), "C07.2", "premise of L2: _borrow covers, per symbol, exactly the shortfall of the AVAILABLE balance against the amount "
              "to hold", bo_, bo_.node, "post_hold = available - required; short = -post_hold if < 0; create_loan(symbol, short)",
              f"_borrow no longer computes the shortfall from the available balance (checks: post_hold {prem[0]}, shortfall {prem[1]}, loans "
              f"{prem[2]}): when funds are already on hold the loans are too small, the hold placed afterwards is refused and the loans "
              "granted for the rejected order stay open", key_text="L2 premise")
    for e in ex:
        ctx.note(f"C07.1 exclusion {e.name} at {e.caller.split('.', 2)[-1]} -> *{e.callee_suffix}: {e.reason} (applied {e.hits}x)")
        ctx.sample({"rule": "C07.1", "exclusion": e.name, "site": f"{e.caller} -> {e.callee_suffix}", "reason": e.reason})
        ctx.check(e.hits > 0, "C07.1", f"lemma {e.name} still has the call site it was stated for", ctx.repo.func(e.caller),
                  ctx.repo.func(e.caller).node, f"applied {e.hits}x", "the call site a stated lemma refers to vanished: the "
                  "suppression table must be re-confirmed", key_text=f"lemma site {e.name}")
    ctx.count("eval:C07.1 functions walked", len(ORDER))
    for k, why in S.ENV_LOOKUP.items():
        ctx.assume(f"environment lookup excluded: {k.split('.', 2)[-1]} -- {why}")


def rule_lemma_premises(ctx: Ctx) -> None:
    # L1/L2 premise: the margin rule exits early when no borrowed amount grows (in particular for hold-only updates)
    exits = margin_rule_early_exits(ctx)
    tables = [e["table"] for e in exits if e["table"] is not None and e.get("quantifier") == "all"]
    okm = any(t["new==old"] is True and t["new<old"] is True for t in tables)
    from .common import margin_check_fn
    fn = margin_check_fn(ctx)
    ctx.check(okm, "C07.2", "premise of L1/L2: the margin rule does not judge updates that do not borrow", fn, fn.node,
              f"early exit tables {tables}", "the margin rule is evaluated on releases/holds: with a low margin level "
              "cancel_order raises after the order was already cancelled (failed cancellation leaves the order closed, funds "
              "stay on hold)", key_text="margin rule frame")
    # L1 premise: _order_closed releases first and unconditionally
    oc = ctx.func(f"{OM}._order_closed")
    first = oc.node.body[0] if not (isinstance(oc.node.body[0], ast.Expr) and isinstance(oc.node.body[0].value, ast.Constant)) else oc.node.body[1]
    okf = isinstance(first, ast.Expr) and isinstance(first.value, ast.Call) and (A.call_name(first.value) or "") == "self._update_balances" \
        and _empty_dict_second_arg(first.value)
    ctx.check(okf, "C07.2", "premise of L1: _order_closed starts with the release-only update", oc, first,
              "self._update_balances(order, {}) first", "_order_closed no longer starts with the release-only update",
              key_text="order_closed releases first")
    # NonZero / ValidHold are monotone in the holds: they raise only when hold < 0 or hold > balance
    # (their exact truth tables are C02.3; here only that both rules are pure functions of their arguments)
    for cls in ("NonZero", "ValidHold"):
        f2 = ctx.func(f"basana.backtesting.account_balances.{cls}.check")
        reads_self = any(isinstance(n, ast.Attribute) and isinstance(n.value, ast.Name) and n.value.id == "self"
                         for n in ast.walk(f2.node))
        ctx.check(not reads_self, "C07.2", f"premise of L1/L2: {cls} is a pure function of the updated maps", f2, f2.node,
                  "reads no state outside its arguments", f"{cls}.check reads state outside its arguments", key_text=f"{cls} pure")


def rule_guards_first(ctx: Ctx) -> None:
    sm = S.get(ctx)
    # cancel_order: both guards dominate order.cancel()
    co = ctx.func(f"{OM}.cancel_order")
    g = ctx.cfg(co)
    cancels = [c for c in A.func_calls(co) if (A.call_name(c) or "").endswith(".cancel") and not (A.call_name(c) or "").startswith("self.")]
    ctx.floor("C07.3", "order.cancel() in cancel_order", len(cancels), 1)
    guards = [n for n in g.nodes if n.kind == "test" and any(isinstance(b, ast.Raise) for b in getattr(n.ast.parent, "body", []))]  # type: ignore
    texts = [ast.unparse(n.ast) for n in guards]
    ctx.check(any("is None" in t for t in texts) and any("is_open" in t for t in texts), "C07.3",
              "cancel_order rejects unknown and closed orders", co, co.node, str(texts), f"guards found: {texts}", key_text="cancel guards")
    for c in cancels:
        cn = g.nodes_for(c)[0]
        for gn in guards:
            p = g.path_avoiding(g.entry, lambda n: n is cn, lambda n: n is gn)
            ctx.check(p is None, "C07.3", "guard dominates the state change in cancel_order", co, gn.ast, "dominates", "the order can "
                      "be cancelled without passing this guard", detail={"path": C.fmt_path(p) if p else []})
    # loan manager: _get_open_loan first
    for name in ("repay_loan", "cancel_loan"):
        fn = ctx.func(f"{LM}.{name}")
        g = ctx.cfg(fn)
        gets = [c for c in A.func_calls(fn) if (A.call_name(c) or "") == "self._get_open_loan"]
        ctx.floor("C07.3", f"_get_open_loan in {name}", len(gets), 1)
        gn = g.nodes_for(gets[0])[0]
        ups = [c for c in A.func_calls(fn) if (A.call_name(c) or "").endswith("account_balances.update")]
        for u in ups:
            un = g.nodes_for(u)[0]
            p = g.path_avoiding(g.entry, lambda n: n is un, lambda n: n is gn)
            ctx.check(p is None, "C07.3", f"{name}: unknown/closed loans are rejected before anything changes", fn, gets[0],
                      "_get_open_loan dominates the update", "balances can change for a loan that was not checked open")
    gol = ctx.func(f"{LM}._get_open_loan")
    rs = [ast.unparse(n.parent.test) for n in C.walk_shallow(gol.node) if isinstance(n, ast.Raise) and isinstance(n.parent, ast.If)]  # type: ignore
    ctx.check(any("not loan" == r for r in rs) and any("is_open" in r for r in rs), "C07.3", "_get_open_loan raises for unknown and "
              "for closed loans", gol, gol.node, str(rs), f"raise guards: {rs}", key_text="get_open_loan guards")
    cl = ctx.func(f"{LM}.create_loan")
    g = ctx.cfg(cl)
    from .. import cells as K
    amt = [n for n in g.nodes if n.kind == "test" and "amount" in ast.unparse(n.ast)]
    tt = K.truth_table(ast.fix_missing_locations(ast.Compare(left=ast.Name(id="amount", ctx=ast.Load()), ops=amt[0].ast.ops,
                                                             comparators=amt[0].ast.comparators)), "amount", extra=[0.0]) if amt and isinstance(amt[0].ast, ast.Compare) else None
    ctx.check(tt is not None and tt["(-inf,0)"] and tt["{0}"] and not tt["(0,+inf)"], "C07.3",
              "create_loan rejects non-positive amounts before anything else (threshold cells)", cl, amt[0].ast if amt else cl.node,
              str(tt), f"amount guard truth table {tt}", key_text="create_loan amount guard")
    ups = [c for c in A.func_calls(cl) if (A.call_name(c) or "").endswith("account_balances.update")]
    if amt and ups:
        p = g.path_avoiding(g.entry, lambda n: n is g.nodes_for(ups[0])[0], lambda n: n is amt[0])
        ctx.check(p is None, "C07.3", "amount guard dominates the ledger update", cl, ups[0], "dominates", "update without amount guard")


def run(ctx: Ctx) -> None:
    rule_commit_last(ctx)
    rule_lemma_premises(ctx)
    from . import c02
    c02.rule_loan_amount(ctx, rule="C07.2")
    rule_guards_first(ctx)
    ctx.assume("asserts are stated beliefs, not raise sites")
    ctx.assume("dict/set/list operations on internal containers do not raise (keys recorded by the paired operation)")
