"""C17 -- order parameters and exchange payloads cross the wire without loss."""
from __future__ import annotations

import ast
import re
from typing import Any, Dict, List, Optional, Tuple

from .. import astutil as A
from .. import norm as N_
from .. import strbuild as S
from .. import cfg as C
from .. import loader
from ..core import Ctx

PROP = "C17"
EXPLANATION = (
    "Type-resolved static analysis (mypy as a library) of the Binance and Bitstamp client modules. C17.1: every value "
    "that enters a request map (dict literal, subscript store, set_optional_params tuple, inline data=/qs_params= dict) "
    "is typed by mypy; a value of type Decimal / Optional[Decimal] may reach the map only in fixed-point form "
    "(format(x, 'f'), f'{x:f}', or through set_optional_params whose Decimal branch formats fixed-point): str(), "
    "'{}'.format, spec-less f-string fields, float() and raw Decimals are violations because str(Decimal('0.00000085')) "
    "== '8.5E-7'. C17.2: a value whose (narrowed) type is still Optional enters a map only through set_optional_params "
    "(which drops None). C17.3: SPEC-TABLE of (verb, path, security) for every client method transcribed from the "
    "exchanges' API documentation, side/action/type strings, pair->symbol helpers. C17.4: inbound wrappers annotated "
    "Decimal build Decimal(<json field>) never via float; order-status tables cover the documented statuses with the "
    "documented open/closed split; timestamp helpers produce timezone-aware UTC datetimes. Exactness of the float "
    "division in timestamp conversion is numeric and is not claimed."
    " C17.1 also: the value is not rewritten before the Decimal branch of set_optional_params."
    " C17.2 also: stopLimitTimeInForce is dropped, by the request object or by the client, when no stop limit price is given."
)
TRUSTED = ["CPython ast parser", "mypy type inference (types of request-map values)", "spec tables in sa/rules/c17.py "
           "transcribed from the Binance Spot/Margin and Bitstamp v2 API documentation"]

BIN = "basana.external.binance"
BTS = "basana.external.bitstamp"
CLIENT_MODULES = [f"{BIN}.client.base", f"{BIN}.client.spot", f"{BIN}.client.margin", f"{BIN}.client", f"{BTS}.client"]


def _is_decimal_type(t: Optional[str]) -> bool:
    return bool(t) and "decimal.Decimal" in t


def _is_optional_type(t: Optional[str]) -> bool:
    return bool(t) and ("| None" in t or "None |" in t or t.startswith("Union[") and "None" in t or t == "None")


def _type_anywhere(ctx: Ctx, fn: loader.Func, e: ast.AST) -> Optional[str]:
    """mypy type of ``e``; expressions inside f-strings carry no usable position, so fall back to another occurrence
    of the same name / attribute chain in the function."""
    t = A.type_of(ctx, fn.module, e)
    if t is not None:
        return t
    d = A.dotted(e)
    if d is None:
        return None
    for n in A.body_nodes(fn, shallow=False):
        if n is not e and isinstance(n, (ast.Name, ast.Attribute)) and A.dotted(n) == d:
            t = A.type_of(ctx, fn.module, n)
            if t is not None:
                return t
    if isinstance(e, ast.Name):
        for a in fn.node.args.args + fn.node.args.kwonlyargs:
            if a.arg == e.id and a.annotation is not None and "Decimal" in ast.unparse(a.annotation):
                return "decimal.Decimal"
    return None


def _fixed_point(ctx: Ctx, fn: loader.Func, v: ast.AST) -> Optional[Tuple[bool, str]]:
    """Classify how a Decimal-typed value is rendered.  None = the expression does not render a Decimal at all."""
    m = fn.module
    if isinstance(v, ast.Call):
        nm = A.call_name(v) or ""
        args_dec = [a for a in v.args if _is_decimal_type(A.type_of(ctx, m, a))]
        if nm == "format" and len(v.args) == 2:
            subj = v.args[0]
            lossy = [x.func.attr for x in ast.walk(subj) if isinstance(x, ast.Call) and isinstance(x.func, ast.Attribute)
                     and x.func.attr in LOSSY_DECIMAL_METHODS]
            if args_dec[:1] == v.args[:1] or lossy or _is_decimal_type(_type_anywhere(ctx, fn, subj)):
                spec = A.const_value(v.args[1])
                if lossy:
                    return (False, f"format(x.{lossy[0]}(), {spec!r}) -- {LOSSY_DECIMAL_METHODS[lossy[0]]}")
                return (spec == "f", f"format(x, {spec!r})")
        if nm in ("str", "repr", "float", "int") and args_dec:
            return (False, f"{nm}(Decimal)")
        if isinstance(v.func, ast.Attribute) and v.func.attr == "format" and isinstance(v.func.value, ast.Constant) and args_dec:
            tmpl = v.func.value.value
            return (":f}" in tmpl and "{}" not in tmpl, f"{tmpl!r}.format(Decimal)")
        if args_dec and nm:
            # helper function: accept when its body returns format(param, 'f') of the untouched parameter
            for callee in A.call_index(ctx).callees(m, v):
                f2 = ctx.repo.funcs.get(callee)
                if f2 is not None:
                    return _helper_renders_fixed_point(ctx, f2)
            return (False, f"{nm}(Decimal) (unknown helper)")
        return None
    if isinstance(v, ast.JoinedStr):
        for part in v.values:
            if isinstance(part, ast.FormattedValue) and _is_decimal_type(_type_anywhere(ctx, fn, part.value)):
                spec = "".join(A.const_value(x) or "" for x in part.format_spec.values) if part.format_spec else ""
                if spec != "f" or part.conversion not in (-1,):
                    return (False, f"f-string field with spec {spec!r}")
                return (True, "f'{x:f}'")
        return None
    if isinstance(v, ast.BinOp) and isinstance(v.op, ast.Mod) and isinstance(v.left, ast.Constant):
        if any(_is_decimal_type(A.type_of(ctx, m, x)) for x in ast.walk(v.right) if isinstance(x, ast.expr)):
            return (False, "'%' formatting of a Decimal")
        return None
    if _is_decimal_type(A.type_of(ctx, m, v)):
        return (False, "raw Decimal (rendered by str() in the transport)")
    return None


LOSSY_DECIMAL_METHODS = {"normalize": "rounds to the precision of the active decimal context", "quantize": "rounds to the given exponent",
                         "__round__": "rounds", "to_integral_value": "rounds to an integer", "to_integral": "rounds to an integer"}


def _helper_renders_fixed_point(ctx: Ctx, f2: loader.Func) -> Tuple[bool, str]:
    ctx.analysed_funcs.add(f2.qualname)
    name = f2.qualname.rsplit(".", 1)[-1]
    rets = [r for r in C.walk_shallow(f2.node) if isinstance(r, ast.Return) and r.value is not None]
    if not rets:
        return (False, f"helper {name}() returns nothing")
    for r in rets:
        v = r.value
        if not (isinstance(v, ast.Call) and A.call_name(v) == "format" and len(v.args) == 2 and A.const_value(v.args[1]) == "f"):
            return (False, f"helper {name}() returns {ast.unparse(v)[:50]}")
        subject = v.args[0]
        for x in ast.walk(subject):
            if isinstance(x, ast.Call) and isinstance(x.func, ast.Attribute) and x.func.attr in LOSSY_DECIMAL_METHODS:
                return (False, f"helper {name}() formats value.{x.func.attr}(), which {LOSSY_DECIMAL_METHODS[x.func.attr]}: the value transmitted "
                               "can differ from the value passed")
            if isinstance(x, ast.Call) and A.call_name(x) in ("round", "float", "int"):
                return (False, f"helper {name}() formats {A.call_name(x)}(value)")
        if not (isinstance(subject, ast.Name) and subject.id in f2.params):
            return (False, f"helper {name}() formats {ast.unparse(subject)[:40]}, not its parameter")
    return (True, f"helper {name}(): format(value, 'f')")


def _render_form(ctx: Ctx, hf: loader.Func, e: ast.AST) -> Tuple[bool, str]:
    """How an expression known to hold a Decimal is turned into text."""
    if isinstance(e, ast.Call):
        nm = A.call_name(e)
        if nm == "format" and len(e.args) == 2:
            lossy = [x.func.attr for x in ast.walk(e.args[0]) if isinstance(x, ast.Call) and isinstance(x.func, ast.Attribute)
                     and x.func.attr in LOSSY_DECIMAL_METHODS]
            return (A.const_value(e.args[1]) == "f" and not lossy, f"format({ast.unparse(e.args[0])[:30]}, {A.const_value(e.args[1])!r})")
        if nm in ("str", "repr", "float"):
            return (False, f"{nm}(v)")
        if isinstance(e.func, ast.Attribute) and e.func.attr == "format" and isinstance(e.func.value, ast.Constant):
            return (str(e.func.value.value).replace(" ", "") in ("{:f}", "{0:f}"), f"{e.func.value.value!r}.format(v)")
        for callee2 in A.call_index(ctx).callees(hf.module, e):
            f3 = ctx.repo.funcs.get(callee2)
            if f3 is not None:
                return _helper_renders_fixed_point(ctx, f3)
        return (False, f"{ast.unparse(e)[:40]}")
    if isinstance(e, ast.JoinedStr):
        fv = [p for p in e.values if isinstance(p, ast.FormattedValue)]
        spec = "".join(A.const_value(x) or "" for x in fv[0].format_spec.values) if fv and fv[0].format_spec else ""
        return (spec == "f" and len(fv) == 1 and all(isinstance(p, ast.FormattedValue) for p in e.values), f"f-string spec {spec!r}")
    return (False, f"raw value {ast.unparse(e)[:40]}: the raw Decimal is put in the map")


def _optional_params_helper(ctx: Ctx, hf: loader.Func):
    """set_optional_params(params, tuples): ((ok, how Decimals are rendered), node, None values never stored).

    Shape-independent: the value stored for a Decimal is found through the ``isinstance(v, Decimal)`` test wherever it sits
    (guarding a re-assignment of the value, guarding the store, or inside a conditional expression); 'None is dropped' is a
    reachability question on the CFG along the edges a None value takes."""
    loop = [n for n in C.walk_shallow(hf.node) if isinstance(n, ast.For) and isinstance(n.target, ast.Tuple) and len(n.target.elts) == 2
            and all(isinstance(e, ast.Name) for e in n.target.elts)]
    ctx.require(loop, f"C17.1: {hf.qualname} is not a loop over (key, value) tuples")
    kvar, vvar = loop[0].target.elts[0].id, loop[0].target.elts[1].id
    stores = [s for s in A.stores(hf) if isinstance(s.target, ast.Subscript) and A.dotted(s.target.value) == hf.params[0] and isinstance(s.node, ast.Assign)]
    ctx.require(stores, f"C17.1: {hf.qualname} does not store into its map parameter")

    def is_dec_test(t: ast.AST) -> bool:
        return isinstance(t, ast.Call) and A.call_name(t) == "isinstance" and len(t.args) == 2 and A.dotted(t.args[0]) == vvar \
            and "Decimal" in ast.unparse(t.args[1])
    form: Optional[Tuple[bool, str]] = None
    where: ast.AST = stores[0].stmt
    for st in stores:
        val = st.node.value
        dec_val: Optional[ast.AST] = None
        if isinstance(val, ast.IfExp) and is_dec_test(val.test):
            dec_val = val.body
        elif any(isinstance(a, ast.If) and is_dec_test(a.test) and any(A.is_within(st.stmt, b) for b in a.body) for a in A.ancestors(st.stmt)):
            dec_val = val
        elif isinstance(val, ast.Name):
            redefs = [s2 for s2 in A.stores(hf) if isinstance(s2.target, ast.Name) and s2.target.id == val.id and isinstance(s2.node, ast.Assign)
                      and any(isinstance(a, ast.If) and is_dec_test(a.test) and any(A.is_within(s2.stmt, b) for b in a.body) for a in A.ancestors(s2.stmt))]
            plain = [s2 for s2 in A.stores(hf) if isinstance(s2.target, ast.Name) and s2.target.id == val.id and isinstance(s2.node, ast.Assign)
                     and s2 not in redefs and s2.node not in [r.node for r in redefs]]
            if redefs:
                dec_val = redefs[0].node.value
                where = redefs[0].stmt
            elif len(plain) == 1 and isinstance(plain[0].node.value, ast.IfExp) and is_dec_test(plain[0].node.value.test):
                dec_val = plain[0].node.value.body
                where = plain[0].stmt
        f = _render_form(ctx, hf, dec_val) if dec_val is not None else (False, "no Decimal branch: the raw Decimal is put in the map")
        if form is None or not f[0]:
            form = f
    # the value that reaches the Decimal branch is the caller's value: it is not rewritten before the branch decides how to render it
    dec_tests = [n_ for n_ in C.walk_shallow(hf.node) if is_dec_test(n_)]
    if dec_tests:
        first_dec = min(A.seq(t_) for t_ in dec_tests)
        pre = [s2 for s2 in A.stores(hf) if isinstance(s2.target, ast.Name) and s2.target.id == vvar and isinstance(s2.node, (ast.Assign, ast.AugAssign, ast.AnnAssign))
               and A.seq(s2.stmt) < first_dec and any(A.is_within(s2.stmt, b) for b in loop[0].body)]
        if pre and (form is None or form[0]):
            form = (False, f"'{ast.unparse(pre[0].stmt)[:60]}' rewrites the value before the Decimal branch: a Decimal can be replaced by something else "
                           "(e.g. a table lookup by equality maps Decimal('1') to the entry for True) and is then not rendered as a number")
            where = pre[0].stmt
    g = ctx.cfg(hf)

    def none_edge(n, lab) -> bool:
        if n.kind != "test":
            return True
        t = ast.unparse(n.ast)
        if t == f"{vvar} is None":
            return lab == "true"
        if t in (f"{vvar} is not None", f"not {vvar} is None"):
            return lab == "false"
        return True
    seen, stack = {g.entry}, [g.entry]
    while stack:
        n = stack.pop()
        for (m, lab) in n.succ:
            if m not in seen and none_edge(n, lab):
                seen.add(m)
                stack.append(m)
    drops = not any(x in seen for st in stores for x in g.nodes_for(st.stmt))
    return form, where, drops


def _request_maps(fn: loader.Func) -> Dict[str, List[ast.Call]]:
    """Names passed as data=/qs_params= to make_request/_make_request in this function."""
    out: Dict[str, List[ast.Call]] = {}
    for c in A.func_calls(fn):
        nm = (A.call_name(c) or "").split(".")[-1]
        if nm not in ("make_request", "_make_request"):
            continue
        for k in c.keywords:
            if k.arg in ("data", "qs_params"):
                if isinstance(k.value, ast.Name):
                    out.setdefault(k.value.id, []).append(c)
                elif isinstance(k.value, ast.Dict):
                    out.setdefault("<inline>", []).append(c)
    return out


def _map_values(fn: loader.Func, names: Dict[str, List[ast.Call]]) -> List[Tuple[str, ast.AST, str, ast.AST]]:
    """(key, value expression, how it enters, statement) for every entry of a request map built in ``fn``."""
    out: List[Tuple[str, ast.AST, str, ast.AST]] = []

    def from_dict(d: ast.Dict, how: str, stmt: ast.AST) -> None:
        for k, v in zip(d.keys, d.values):
            if k is not None:
                out.append((str(A.const_value(k)), v, how, stmt))
    for n in A.body_nodes(fn):
        if isinstance(n, (ast.Assign, ast.AnnAssign)):
            tgts = n.targets if isinstance(n, ast.Assign) else [n.target]
            for t in tgts:
                if isinstance(t, ast.Name) and t.id in names and n.value is not None:
                    for d in [x for x in ast.walk(n.value) if isinstance(x, ast.Dict)]:
                        from_dict(d, "dict literal", n)
                if isinstance(t, ast.Subscript) and isinstance(t.value, ast.Name) and t.value.id in names:
                    out.append((str(A.const_value(t.slice)), n.value, "subscript store", n))
        if isinstance(n, ast.Call):
            nm = (A.call_name(n) or "").split(".")[-1]
            if nm == "set_optional_params" and n.args and isinstance(n.args[0], ast.Name) and n.args[0].id in names \
                    and len(n.args) > 1 and isinstance(n.args[1], (ast.Tuple, ast.List)):
                for e in n.args[1].elts:
                    if isinstance(e, (ast.Tuple, ast.List)) and len(e.elts) == 2:
                        out.append((str(A.const_value(e.elts[0])), e.elts[1], "set_optional_params", A.stmt_of(n)))
            if nm in ("make_request", "_make_request"):
                for k in n.keywords:
                    if k.arg in ("data", "qs_params") and isinstance(k.value, ast.Dict):
                        from_dict(k.value, "inline dict", A.stmt_of(n))
    return out


def _xor_idiom(fn: loader.Func, v: ast.AST) -> bool:
    """``assert (a is not None) ^ (b is not None)`` ... ``{..a..} if a else {..b..}``: b is set in the else branch."""
    if not isinstance(v, ast.Name):
        return False
    pairs = []
    for n in C.walk_shallow(fn.node):
        if isinstance(n, ast.Assert) and isinstance(n.test, ast.BinOp) and isinstance(n.test.op, ast.BitXor):
            names = []
            for side in (n.test.left, n.test.right):
                if isinstance(side, ast.Compare) and len(side.ops) == 1 and isinstance(side.ops[0], ast.IsNot) \
                        and isinstance(side.left, ast.Name) and A.const_value(side.comparators[0]) is None \
                        and isinstance(side.comparators[0], ast.Constant):
                    names.append(side.left.id)
            if len(names) == 2:
                pairs.append(tuple(names))
    for a, b in pairs:
        other = a if v.id == b else (b if v.id == a else None)
        if other is None:
            continue
        for anc in A.ancestors(v):
            if isinstance(anc, ast.IfExp) and isinstance(anc.test, ast.Name) and anc.test.id == other \
                    and A.is_within(v, anc.orelse):
                return True
            if isinstance(anc, ast.If) and isinstance(anc.test, ast.Name) and anc.test.id == other \
                    and any(A.is_within(v, s_) for s_ in anc.orelse):
                return True
    return False


def rule_outbound(ctx: Ctx) -> None:
    n_vals = n_dec = n_opt = 0
    helper_decimal_inflow: Dict[str, int] = {}
    for mod in CLIENT_MODULES:
        m = ctx.repo.module(mod)
        for fn in [f for f in ctx.repo.all_funcs() if f.module is m]:
            names = _request_maps(fn)
            if not names:
                continue
            for key, v, how, stmt in _map_values(fn, names):
                n_vals += 1
                t = A.type_of(ctx, fn.module, v)
                short = fn.qualname.split(".", 3)[-1]
                inst = f"{short}: '{key}' via {how}"
                if how == "set_optional_params":
                    if _is_decimal_type(t):
                        n_dec += 1
                        callee = next(iter(A.call_index(ctx).callees(fn.module, next(
                            c for c in A.calls(stmt) if (A.call_name(c) or "").endswith("set_optional_params")))), "")
                        helper_decimal_inflow[callee] = helper_decimal_inflow.get(callee, 0) + 1
                        ctx.sample({"rule": "C17.1", "site": inst, "type": t, "through": callee})
                    continue
                cls = _fixed_point(ctx, fn, v)
                if cls is not None:
                    n_dec += 1
                    ok, form = cls
                    ctx.check(ok, "C17.1", inst, fn, stmt, f"fixed-point: {form}",
                              f"Decimal value reaches the request as {form}: small or large values are sent in exponent "
                              "notation (str(Decimal('0.00000085')) == '8.5E-7'), which the exchanges reject or misread",
                              key_text=f"{key}={A.dotted(v) or ast.unparse(v)[:50]}")
                elif _is_optional_type(t) and _xor_idiom(fn, v):
                    ctx.ok("C17.2", inst, fn, stmt, "not None here: 'assert (a is not None) ^ (b is not None)' and this is the "
                           "branch where the other one is unset", key_text=f"{key}={A.dotted(v) or ast.unparse(v)[:50]}")
                elif _is_optional_type(t):
                    n_opt += 1
                    ctx.bad("C17.2", inst, fn, stmt, f"value of type {t} enters the request map without a None guard: an "
                            "unset option is transmitted as the text 'None'", key_text=f"{key} optional")
                else:
                    ctx.ok("C17.2", inst, fn, stmt, f"type {t or 'Any'}: not Optional here (guarded or required)",
                           key_text=f"{key}={A.dotted(v) or ast.unparse(v)[:50]}")
    ctx.floor("C17.1", "request-map values in client modules", n_vals, 60)
    ctx.floor("C17.1", "Decimal-typed request-map values", n_dec, 12)
    # the helpers that Decimal values flow through
    for callee, count in sorted(helper_decimal_inflow.items()):
        hf = ctx.repo.funcs.get(callee)
        ctx.require(hf is not None, f"C17.1: helper {callee} not found")
        ctx.analysed_funcs.add(callee)
        form, where, drops = _optional_params_helper(ctx, hf)
        ctx.check(form[0], "C17.1", f"{callee.rsplit('.', 2)[-2]}.set_optional_params renders Decimals fixed-point "
                  f"({count} Decimal-typed call-site values flow through it)", hf, where,
                  form[1], f"Decimal values are rendered as {form[1]}: exponent notation for small/large values "
                  f"({count} order parameters: quantity, price, stopPrice, ... go through this helper)",
                  key_text="set_optional_params decimal branch")
        ctx.check(drops, "C17.2", f"{callee.rsplit('.', 2)[-2]}.set_optional_params drops unset options", hf, hf.node,
                  "no store is reachable with a None value", "None values are not dropped", key_text="set_optional_params drops None")
    for mod in (f"{BIN}.client.base", f"{BTS}.client"):
        q = f"{mod}.set_optional_params"
        if q in ctx.repo.funcs and q not in helper_decimal_inflow:
            hf = ctx.repo.funcs[q]
            _, _, drops = _optional_params_helper(ctx, hf)
            ctx.check(drops, "C17.2", f"{mod.rsplit('.', 2)[-2]}.set_optional_params drops unset options", hf, hf.node,
                      "if v is None: continue", "None values are not dropped", key_text="set_optional_params drops None")


# -- C17.3 spec tables --------------------------------------------------------------------------------------------
# (verb, path template, security) per client method, from the Binance Spot / Margin API docs and the Bitstamp v2 docs.
# security: NONE | USER_STREAM (API key only) | SIGNED (key + HMAC signature) | AUTH (Bitstamp v2 authentication)
ENDPOINTS: Dict[str, Tuple[str, str, str]] = {
    f"{BIN}.client.APIClient.get_exchange_info": ("GET", "/api/v3/exchangeInfo", "NONE"),
    f"{BIN}.client.APIClient.get_order_book": ("GET", "/api/v3/depth", "NONE"),
    f"{BIN}.client.APIClient.get_candlestick_data": ("GET", "/api/v3/klines", "NONE"),
    f"{BIN}.client.spot.SpotAccount.get_account_information": ("GET", "/api/v3/account", "SIGNED"),
    f"{BIN}.client.spot.SpotAccount.create_order": ("POST", "/api/v3/order", "SIGNED"),
    f"{BIN}.client.spot.SpotAccount.query_order": ("GET", "/api/v3/order", "SIGNED"),
    f"{BIN}.client.spot.SpotAccount.get_open_orders": ("GET", "/api/v3/openOrders", "SIGNED"),
    f"{BIN}.client.spot.SpotAccount.cancel_order": ("DELETE", "/api/v3/order", "SIGNED"),
    f"{BIN}.client.spot.SpotAccount.get_trades": ("GET", "/api/v3/myTrades", "SIGNED"),
    f"{BIN}.client.spot.SpotAccount.create_oco": ("POST", "/api/v3/order/oco", "SIGNED"),
    f"{BIN}.client.spot.SpotAccount.cancel_oco_order": ("DELETE", "/api/v3/orderList", "SIGNED"),
    f"{BIN}.client.spot.SpotAccount.query_oco_order": ("GET", "/api/v3/orderList", "SIGNED"),
    f"{BIN}.client.spot.SpotAccount.create_listen_key": ("POST", "/api/v3/userDataStream", "USER_STREAM"),
    f"{BIN}.client.spot.SpotAccount.keep_alive_listen_key": ("PUT", "/api/v3/userDataStream", "USER_STREAM"),
    f"{BIN}.client.margin.MarginAccount.create_order": ("POST", "/sapi/v1/margin/order", "SIGNED"),
    f"{BIN}.client.margin.MarginAccount.query_order": ("GET", "/sapi/v1/margin/order", "SIGNED"),
    f"{BIN}.client.margin.MarginAccount.get_open_orders": ("GET", "/sapi/v1/margin/openOrders", "SIGNED"),
    f"{BIN}.client.margin.MarginAccount.cancel_order": ("DELETE", "/sapi/v1/margin/order", "SIGNED"),
    f"{BIN}.client.margin.MarginAccount.get_trades": ("GET", "/sapi/v1/margin/myTrades", "SIGNED"),
    f"{BIN}.client.margin.MarginAccount.create_oco": ("POST", "/sapi/v1/margin/order/oco", "SIGNED"),
    f"{BIN}.client.margin.MarginAccount.query_oco_order": ("GET", "/sapi/v1/margin/orderList", "SIGNED"),
    f"{BIN}.client.margin.MarginAccount.cancel_oco_order": ("DELETE", "/sapi/v1/margin/orderList", "SIGNED"),
    f"{BIN}.client.margin.CrossMarginAccount.transfer_from_spot_account": ("POST", "/sapi/v1/margin/transfer", "SIGNED"),
    f"{BIN}.client.margin.CrossMarginAccount.transfer_to_spot_account": ("POST", "/sapi/v1/margin/transfer", "SIGNED"),
    f"{BIN}.client.margin.CrossMarginAccount.get_account_information": ("GET", "/sapi/v1/margin/account", "SIGNED"),
    f"{BIN}.client.margin.CrossMarginAccount.create_listen_key": ("POST", "/sapi/v1/userDataStream", "USER_STREAM"),
    f"{BIN}.client.margin.CrossMarginAccount.keep_alive_listen_key": ("PUT", "/sapi/v1/userDataStream", "USER_STREAM"),
    f"{BIN}.client.margin.IsolatedMarginAccount.transfer_from_spot_account": ("POST", "/sapi/v1/margin/isolated/transfer", "SIGNED"),
    f"{BIN}.client.margin.IsolatedMarginAccount.transfer_to_spot_account": ("POST", "/sapi/v1/margin/isolated/transfer", "SIGNED"),
    f"{BIN}.client.margin.IsolatedMarginAccount.get_account_information": ("GET", "/sapi/v1/margin/isolated/account", "SIGNED"),
    f"{BIN}.client.margin.IsolatedMarginAccount.create_listen_key": ("POST", "/sapi/v1/userDataStream/isolated", "USER_STREAM"),
    f"{BIN}.client.margin.IsolatedMarginAccount.keep_alive_listen_key": ("PUT", "/sapi/v1/userDataStream/isolated", "USER_STREAM"),
    f"{BTS}.client.APIClient.get_trading_pairs_info": ("GET", "/api/v2/trading-pairs-info/", "NONE"),
    f"{BTS}.client.APIClient.get_order_book": ("GET", "/api/v2/order_book/{currency_pair}/", "NONE"),
    f"{BTS}.client.APIClient.get_ticker": ("GET", "/api/v2/ticker/{currency_pair}/", "NONE"),
    f"{BTS}.client.APIClient.get_ohlc_data": ("GET", "/api/v2/ohlc/{currency_pair}/", "NONE"),
    f"{BTS}.client.APIClient.get_websocket_auth_token": ("POST", "/api/v2/websockets_token/", "AUTH"),
    f"{BTS}.client.APIClient.get_account_balances": ("POST", "/api/v2/account_balances/", "AUTH"),
    f"{BTS}.client.APIClient.get_account_balance": ("POST", "/api/v2/account_balances/{currency}/", "AUTH"),
    f"{BTS}.client.APIClient.get_open_orders": ("POST", "/api/v2/open_orders/{}/", "AUTH"),
    f"{BTS}.client.APIClient.get_order_status": ("POST", "/api/v2/order_status/", "AUTH"),
    f"{BTS}.client.APIClient.cancel_order": ("POST", "/api/v2/cancel_order/", "AUTH"),
    f"{BTS}.client.APIClient.create_market_order": ("POST", "/api/v2/{action}/market/{currency_pair}/", "AUTH"),
    f"{BTS}.client.APIClient.create_limit_order": ("POST", "/api/v2/{action}/{currency_pair}/", "AUTH"),
    f"{BTS}.client.APIClient.create_instant_order": ("POST", "/api/v2/{action}/instant/{currency_pair}/", "AUTH"),
}

BINANCE_ORDER_STATUS = {"NEW": True, "PARTIALLY_FILLED": True, "FILLED": False, "CANCELED": False, "PENDING_CANCEL": True,
                        "REJECTED": False, "EXPIRED": False}
BINANCE_OCO_STATUS = {"EXECUTING": True, "ALL_DONE": False, "REJECT": False}


def _path_template(ctx: Ctx, fn: loader.Func, e: ast.AST) -> Optional[str]:
    """The request path with every interpolated value shown as ``{}`` (independent of f-string / format / temporaries)."""
    return S.template(S.segments(fn, e))


def _norm_template(t: str) -> str:
    return re.sub(r"\{[^}]*\}", "{}", t)


def rule_endpoints(ctx: Ctx) -> None:
    seen = 0
    for q, (verb, path, sec) in sorted(ENDPOINTS.items()):
        fn = ctx.repo.funcs.get(q)
        if fn is None:
            ctx.bad("C17.3", f"documented endpoint {verb} {path}", None, None, f"client method {q} not found",
                    key_text=f"missing {q}")
            continue
        ctx.analysed_funcs.add(q)
        reqs = [c for c in A.func_calls(fn) if (A.call_name(c) or "").split(".")[-1] in ("make_request", "_make_request")]
        if len(reqs) != 1:
            ctx.bad("C17.3", f"{q.split('.', 3)[-1]} issues exactly one request", fn, fn.node,
                    f"{len(reqs)} request sites", key_text="one request")
            continue
        seen += 1
        c = reqs[0]
        got_verb = A.const_value(c.args[0]) if c.args else None
        got_path = _path_template(ctx, fn, c.args[1]) if len(c.args) > 1 else None
        short = q.split(".", 3)[-1]
        ctx.check(got_verb == verb and got_path == _norm_template(path), "C17.3", f"{short} -> {verb} {path}", fn, c,
                  "verb and path as documented", f"request goes to {got_verb} {got_path}, documented: {verb} {path}",
                  key_text=f"endpoint {short}")
        if q.startswith(BIN):
            sk = A.const_value(A.kw(c, "send_key")) is True
            ss = A.const_value(A.kw(c, "send_sig")) is True
            got = "SIGNED" if ss else ("USER_STREAM" if sk else "NONE")
        else:
            a = c.args[2] if len(c.args) > 2 else A.kw(c, "authenticate")
            got = "AUTH" if A.const_value(a) is True else "NONE"
        ctx.check(got == sec, "C17.3", f"{short} security type {sec}", fn, c, got,
                  f"request is sent as {got}, the documentation requires {sec}", key_text=f"security {short}")
    ctx.floor("C17.3", "client methods matched against the endpoint table", seen, 40)
    # every client method that issues a request is in the table
    for mod in CLIENT_MODULES:
        m = ctx.repo.module(mod)
        for fn in [f for f in ctx.repo.all_funcs() if f.module is m and f.cls is not None]:
            if fn.name in ("make_request", "_make_request"):
                continue
            if any((A.call_name(c) or "").split(".")[-1] in ("make_request", "_make_request") for c in A.func_calls(fn)):
                ctx.check(fn.qualname in ENDPOINTS, "C17.3", f"{fn.qualname.split('.', 3)[-1]} is covered by the endpoint table",
                          fn, fn.node, "in table", "client method issues a request that the spec table does not know "
                          "(extend sa/rules/c17.py from the API documentation)", key_text=f"covered {fn.qualname}")
    # side / action / type strings and symbol helpers
    h = ctx.func(f"{BIN}.helpers.order_operation_to_side")
    d = [n for n in ast.walk(h.node) if isinstance(n, ast.Dict)]
    got = {A.dotted(k): A.const_value(v) for k, v in zip(d[0].keys, d[0].values)} if d else {}
    ctx.check(got == {"OrderOperation.BUY": "BUY", "OrderOperation.SELL": "SELL"}, "C17.3", "binance side strings", h, h.node,
              str(got), f"operation -> side map is {got}", key_text="binance sides")
    h2 = ctx.func(f"{BIN}.helpers.side_to_order_operation")
    d = [n for n in ast.walk(h2.node) if isinstance(n, ast.Dict)]
    got = {A.const_value(k): A.dotted(v) for k, v in zip(d[0].keys, d[0].values)} if d else {}
    ctx.check(got == {"BUY": "OrderOperation.BUY", "SELL": "OrderOperation.SELL"}, "C17.3", "binance side decoding", h2, h2.node,
              str(got), f"side -> operation map is {got}", key_text="binance sides decode")
    for clsq in (f"{BTS}.requests.ExchangeOrder",):
        ga = ctx.func(f"{clsq}._get_action")
        d = [n for n in ast.walk(ga.node) if isinstance(n, ast.Dict)]
        got = {A.dotted(k): A.const_value(v) for k, v in zip(d[0].keys, d[0].values)} if d else {}
        ctx.check(got == {"OrderOperation.BUY": "buy", "OrderOperation.SELL": "sell"}, "C17.3", "bitstamp action strings", ga,
                  ga.node, str(got), f"operation -> action map is {got}", key_text="bitstamp actions")
    ot = ctx.func(f"{BTS}.helpers.order_type_to_order_operation")
    d = [n for n in ast.walk(ot.node) if isinstance(n, ast.Dict)]
    got = {A.const_value(k): A.dotted(v) for k, v in zip(d[0].keys, d[0].values)} if d else {}
    ctx.check(got == {0: "OrderOperation.BUY", 1: "OrderOperation.SELL"}, "C17.3", "bitstamp order type decoding (0 buy, 1 sell)",
              ot, ot.node, str(got), f"type -> operation map is {got}", key_text="bitstamp type decode")
    ps = ctx.func(f"{BIN}.helpers.pair_to_order_book_symbol")
    src = ast.unparse(ps.node)
    ctx.check("base_symbol.upper()" in src and "quote_symbol.upper()" in src and src.index("base_symbol") < src.index("quote_symbol")
              and "'{}{}'" in src, "C17.3", "binance symbol = BASEQUOTE upper case", ps, ps.node, "ok", "symbol helper changed",
              key_text="binance symbol")
    pc = ctx.func(f"{BTS}.helpers.pair_to_currency_pair")
    src = ast.unparse(pc.node)
    ctx.check("base_symbol.lower()" in src and "quote_symbol.lower()" in src and src.index("base_symbol") < src.index("quote_symbol")
              and "'{}{}'" in src, "C17.3", "bitstamp currency pair = basequote lower case", pc, pc.node, "ok",
              "currency pair helper changed", key_text="bitstamp pair")
    # request classes pass the documented type string and the pair through the symbol helper
    types = {f"{BIN}.spot_requests.MarketOrder": "MARKET", f"{BIN}.spot_requests.LimitOrder": "LIMIT",
             f"{BIN}.spot_requests.StopLimitOrder": "STOP_LOSS_LIMIT", f"{BIN}.margin_requests.MarketOrder": "MARKET",
             f"{BIN}.margin_requests.LimitOrder": "LIMIT", f"{BIN}.margin_requests.StopLimitOrder": "STOP_LOSS_LIMIT"}
    for clsq, ty in types.items():
        fn = ctx.repo.funcs.get(f"{clsq}.create_order")
        if fn is None:
            continue
        ctx.analysed_funcs.add(fn.qualname)
        cs = [c for c in A.func_calls(fn) if (A.call_name(c) or "").endswith(".create_order")]
        okk = bool(cs) and len(cs[0].args) >= 3 and A.const_value(cs[0].args[2]) == ty \
            and (A.call_name(cs[0].args[0]) or "").endswith("pair_to_order_book_symbol") \
            and (A.call_name(cs[0].args[1]) or "").endswith("order_operation_to_side")
        ctx.check(okk, "C17.3", f"{clsq.split('.', 3)[-1]} sends symbol, side and type {ty}", fn, cs[0] if cs else fn.node,
                  "ok", "request class does not pass symbol/side helpers and the documented type string",
                  key_text=f"type {clsq}")
        # each Decimal attribute of the request goes to the keyword of the same meaning
        kwmap = {"quantity": "_amount", "price": "_limit_price", "stop_price": "_stop_price", "quote_order_qty": "_quote_amount"}
        if cs:
            for k in cs[0].keywords:
                if k.arg in kwmap:
                    ctx.check(A.dotted(k.value) == f"self.{kwmap[k.arg]}", "C17.3",
                              f"{clsq.split('.', 3)[-1]}: {k.arg} carries {kwmap[k.arg]}", fn, cs[0], "ok",
                              f"{k.arg} is fed from {A.dotted(k.value)}", key_text=f"{clsq} {k.arg}")
    btypes = {f"{BTS}.requests.MarketOrder": "create_market_order", f"{BTS}.requests.LimitOrder": "create_limit_order",
              f"{BTS}.requests.InstantOrder": "create_instant_order"}
    for clsq, meth in btypes.items():
        fn = ctx.func(f"{clsq}.create_order")
        cs = [c for c in A.func_calls(fn) if (A.call_name(c) or "").endswith("." + meth)]
        okk = bool(cs) and len(cs[0].args) >= 3 and (A.call_name(cs[0].args[0]) or "").endswith("_get_action") \
            and (A.call_name(cs[0].args[1]) or "").endswith("pair_to_currency_pair") and A.dotted(cs[0].args[2]) == "self.amount"
        if meth == "create_limit_order":
            okk = okk and len(cs[0].args) >= 4 and A.dotted(cs[0].args[3]) == "self.limit_price"
        ctx.check(okk, "C17.3", f"{clsq.split('.', 3)[-1]} -> {meth}(action, pair, amount...)", fn, cs[0] if cs else fn.node, "ok",
                  "bitstamp request class does not call the matching client method with action, pair, amount (, price)",
                  key_text=f"bts {clsq}")


def rule_inbound(ctx: Ctx) -> None:
    mods = [f"{BIN}.common", f"{BIN}.user_data", f"{BIN}.trades", f"{BIN}.klines", f"{BIN}.margin", f"{BIN}.order_book",
            f"{BIN}.helpers", f"{BTS}.exchange", f"{BTS}.orders", f"{BTS}.trades", f"{BTS}.order_book"]
    n = 0
    for mod in mods:
        m = ctx.repo.module(mod)
        for fn in [f for f in ctx.repo.all_funcs() if f.module is m]:
            ann = fn.node.returns
            if ann is None or "Decimal" not in ast.unparse(ann):
                continue
            for c in A.func_calls(fn, shallow=False):
                nm = A.call_name(c) or ""
                if nm == "float":
                    ctx.bad("C17.4", f"{fn.qualname.split('.', 3)[-1]} decodes without binary floating point", fn, c,
                            "float() on the way to a Decimal loses digits")
            decs = [c for c in A.func_calls(fn, shallow=False) if (A.call_name(c) or "") == "Decimal" and c.args]
            for c in decs:
                n += 1
                a0 = c.args[0]
                t = A.type_of(ctx, fn.module, a0) or ""
                via_float = t in ("builtins.float",) or any(isinstance(x, ast.Call) and A.call_name(x) == "float" for x in ast.walk(a0))
                ctx.check(not via_float, "C17.4", f"{fn.qualname.split('.', 3)[-1]}: Decimal built from the payload text", fn, c,
                          f"Decimal({ast.unparse(a0)[:40]})", "Decimal built from a float", key_text=f"dec {ast.unparse(a0)[:40]}")
    ctx.floor("C17.4", "Decimal decoders", n, 30)
    # status tables
    for q, spec in ((f"{BIN}.helpers.order_status_is_open", BINANCE_ORDER_STATUS),
                    (f"{BIN}.helpers.oco_order_status_is_open", BINANCE_OCO_STATUS)):
        fn = ctx.func(q)
        d = [x for x in ast.walk(fn.node) if isinstance(x, ast.Dict)]
        got = {A.const_value(k): A.const_value(v) for k, v in zip(d[0].keys, d[0].values)} if d else {}
        ctx.check(got == spec, "C17.4", f"{q.rsplit('.', 1)[-1]} covers the documented statuses with the documented open/closed split",
                  fn, fn.node, f"{len(got)} statuses", f"status table {got} differs from the documentation {spec}",
                  key_text=f"status {q}")
    # timestamps
    t1 = ctx.func(f"{BIN}.helpers.timestamp_to_datetime")
    src = ast.unparse(t1.node)
    ctx.check("fromtimestamp" in src and "/ 1000.0" in src.replace("1e3", "1000.0") and "tz=datetime.timezone.utc" in src, "C17.4",
              "binance ms timestamps decode to timezone-aware UTC", t1, t1.node, "fromtimestamp(ts / 1e3, tz=utc)",
              "timestamp helper no longer divides ms by 1e3 with tz=UTC", key_text="binance ts")
    for q in (f"{BTS}.helpers",):
        pass
    god = ctx.func(f"{BIN}.helpers.get_optional_decimal")
    src = ast.unparse(god.node)
    decs = [c for c in A.func_calls(god) if A.call_name(c) == "Decimal" and c.args and not (isinstance(c.args[0], ast.Constant))]
    okd = bool(decs) and all(isinstance(c.args[0], ast.Name) and any(".get(" in N_.canon(d) and god.params[0] in N_.canon(d) for d in N_.reaching(god, c.args[0].id))
                             for c in decs)
    ctx.check(okd and "float" not in src, "C17.4", "get_optional_decimal builds the Decimal from the text", god,
              god.node, "Decimal(text)", "optional decimal decoder changed", key_text="optional decimal")


def rule_timestamps(ctx: Ctx) -> None:
    """Every epoch -> datetime conversion in the exchange wrappers: integer ticks divided by the documented unit, timezone-aware
    UTC.  Exactness: a double below 2**32 s has half-ulp 2.4e-7 s < 0.5 us and fromtimestamp rounds half-even to microseconds,
    so int(us) / 1e6 is recovered exactly for every instant before 2106 (the property asks for 2010-2100); ms / 1e3 a fortiori."""
    limit_ok = 4102444800 < 2 ** 32        # 2100-01-01T00:00:00Z in seconds
    n = 0
    for fn in ctx.repo.all_funcs():
        if not fn.module.modname.startswith("basana.external") or ".tools." in fn.module.modname:
            continue
        for c in A.func_calls(fn, shallow=False):
            nm = (A.call_name(c) or "").split(".")[-1]
            if nm not in ("fromtimestamp", "utcfromtimestamp") or not c.args:
                continue
            n += 1
            arg = c.args[0]
            d = arg
            if isinstance(arg, ast.Name):
                defs = [s.node.value for s in A.stores(fn) if isinstance(s.target, ast.Name) and s.target.id == arg.id and hasattr(s.node, "value")]
                d = defs[0] if len(defs) == 1 else arg
            unit = None
            if isinstance(d, ast.BinOp) and isinstance(d.op, ast.Div) and isinstance(d.right, ast.Constant):
                unit = float(d.right.value)
            key = "micro" if "micro" in ast.unparse(d).lower() else "milli"
            want = 1e6 if key == "micro" else 1e3
            short = fn.qualname.split(".", 3)[-1]
            ctx.check(unit == want, "C17.4", f"{short}: {key}second ticks are divided by {want:g}", fn, c, ast.unparse(d)[:50],
                      f"timestamp converted as {ast.unparse(d)[:50]}: wrong unit for a {key}second timestamp", key_text=f"ts unit {fn.qualname}")
            if nm == "fromtimestamp":
                tz = A.kw(c, "tz")
                aware = tz is not None and (A.dotted(tz) or "").endswith("timezone.utc")
            else:
                par = c.parent  # type: ignore[attr-defined]
                aware = isinstance(par, ast.Attribute) and par.attr == "replace" and "tzinfo=datetime.timezone.utc" in ast.unparse(par.parent)  # type: ignore
            ctx.check(aware, "C17.4", f"{short}: decoded as a timezone-aware UTC datetime", fn, c, "tz=UTC", "decoded as naive or local time",
                      key_text=f"ts utc {fn.qualname}")
            leaf = d.left if isinstance(d, ast.BinOp) else d
            integral = (isinstance(leaf, ast.Call) and A.call_name(leaf) == "int") or (isinstance(leaf, ast.Name) and leaf.id in fn.params)
            ctx.check(integral and limit_ok, "C17.4", f"{short}: ticks are an integer divided once (exact to the microsecond before 2106)", fn, c,
                      "int(ticks) / unit; half-ulp of a double < 2**32 s is 2.4e-7 s < 0.5 us", "ticks are not an integer divided once: precision "
                      "of the float conversion is not established", key_text=f"ts exact {fn.qualname}")
    ctx.floor("C17.4", "epoch -> datetime conversions", n, 4)


def rule_aggregates(ctx: Ctx) -> None:
    """Per-order totals built from a sequence of trades / transactions must accumulate every element."""
    specs = [
        (f"{BIN}.common.OrderInfo.__init__", "trades", {"self._fees": "commission"}),
        (f"{BTS}.exchange.OrderInfo.__init__", "transactions", {"fees": "fee", "self._filled_base_amount": "base_currency",
                                                                "self._quote_amount_filled": "quote_currency"}),
    ]
    for q, seqname, totals in specs:
        fn = ctx.func(q)
        loops = [n for n in C.walk_shallow(fn.node) if isinstance(n, ast.For) and ast.unparse(n.iter).endswith(seqname)]
        for target, what in totals.items():
            acc = [s for s in A.stores(fn) if isinstance(s.node, ast.AugAssign) and isinstance(s.node.op, ast.Add)
                   and (A.dotted(s.target) == target or (isinstance(s.target, ast.Subscript) and A.dotted(s.target.value) == target))
                   and any(A.is_within(s.stmt, lp) for lp in loops) and what in ast.unparse(s.node.value)]
            lossy = [s for s in A.stores(fn) if A.dotted(s.target) == target and isinstance(s.node, (ast.Assign, ast.AnnAssign))
                     and any(isinstance(x, (ast.DictComp, ast.ListComp, ast.GeneratorExp)) and seqname in ast.unparse(x) for x in ast.walk(s.node.value))
                     and not any(isinstance(x, ast.Call) and A.call_name(x) == "sum" for x in ast.walk(s.node.value))]
            short = q.split(".", 3)[-1]
            if acc and not lossy:
                ctx.ok("C17.4", f"{short}: {target} accumulates the {what} of every element of {seqname}", fn, acc[0].stmt, "+= inside the loop",
                       key_text=f"aggregate {q} {target}")
            elif lossy:
                ctx.bad("C17.4", f"{short}: {target} accumulates the {what} of every element of {seqname}", fn, lossy[0].stmt,
                        f"{target} is built by a comprehension keyed by a non-unique key: a later element overwrites an earlier one, so an "
                        f"order filled by several {seqname} reports only part of its {what}", key_text=f"aggregate {q} {target}")
            else:
                ctx.require(False, f"C17.4: cannot recognise how {target} is aggregated over {seqname} in {q}")


def rule_dependent_options(ctx: Ctx) -> None:
    """Binance: stopLimitTimeInForce may only be sent together with stopLimitPrice (-1106 otherwise), but the high-level API gives it a
    non-None default ("GTC").  On each path from a request object to the wire somebody has to drop it when there is no stop limit price:
    the request class (``None if stop_limit_price is None else ...``) or the client method it calls."""
    from .. import norm as N

    def nulls_when_no_price(fn, tif_names, price_names) -> bool:
        for s_ in A.stores(fn, shallow=False):
            tgt = A.dotted(s_.target) or ""
            if tgt.split(".")[-1].lstrip("_") not in tif_names or not hasattr(s_.node, "value"):
                continue
            v = s_.node.value
            # x = None if price is None else y     /     if price is None: x = None
            if isinstance(v, ast.IfExp):
                t = N.canon(v.test)
                if any(t == f"{p_} is None" for p_ in price_names) and A.const_value(v.body) is None and isinstance(v.body, ast.Constant):
                    return True
                if any(t == f"{p_} is not None" for p_ in price_names) and A.const_value(v.orelse) is None and isinstance(v.orelse, ast.Constant):
                    return True
            if isinstance(v, ast.Constant) and v.value is None:
                for a in A.ancestors(s_.stmt):
                    if isinstance(a, ast.If) and any(N.canon(a.test) == f"{p_} is None" for p_ in price_names) and any(A.is_within(s_.stmt, b) for b in a.body):
                        return True
        return False
    pairs = [(f"{BIN}.spot_requests.OCOOrder.__init__", f"{BIN}.client.spot.SpotAccount.create_oco"),
             (f"{BIN}.margin_requests.OCOOrder.__init__", f"{BIN}.client.margin.MarginAccount.create_oco")]
    n = 0
    for rq, cq in pairs:
        rf, cf = ctx.repo.funcs.get(rq), ctx.repo.funcs.get(cq)
        if rf is None or cf is None:
            continue
        n += 1
        ctx.analysed_funcs.update({rq, cq})
        sent = any(A.const_value(e.elts[0]) == "stopLimitTimeInForce" for t_ in ast.walk(cf.node) if isinstance(t_, ast.Tuple) for e in [t_]
                   if len(t_.elts) == 2) or "stopLimitTimeInForce" in ast.unparse(cf.node)
        ok = (not sent) or nulls_when_no_price(rf, {"stop_limit_time_in_force"}, {"stop_limit_price"}) \
            or nulls_when_no_price(cf, {"stop_limit_time_in_force"}, {"stop_limit_price"})
        ctx.check(ok, "C17.2", f"{cq.rsplit('.', 2)[-2]}.create_oco: stopLimitTimeInForce is dropped when no stop limit price is given", cf, cf.node,
                  "dropped by the request object or by the client method", "an OCO order without a stop limit price is sent with stopLimitTimeInForce=GTC "
                  "(the default of the high-level API reaches the wire): an option the caller left unset is transmitted and Binance rejects the request",
                  key_text=f"tif depends on price {cq}")
    ctx.floor("C17.2", "OCO request/client pairs", n, 2)


def run(ctx: Ctx) -> None:
    rule_dependent_options(ctx)
    rule_timestamps(ctx)
    rule_aggregates(ctx)
    rule_outbound(ctx)
    rule_endpoints(ctx)
    rule_inbound(ctx)
    ctx.assume("request maps are transported by aiohttp FormData / yarl, which render non-str values with str()")
    ctx.assume("the exchanges send amounts and prices as JSON strings (a JSON *number* decoded by resp.json() is a float "
               "before any wrapper sees it: noted as candidate F-C17-2, not armed)")
