"""C20 -- token bucket bounds the request rate."""
from __future__ import annotations

import ast
from typing import Any, Dict, List, Optional

from .. import astutil as A
from .. import norm as N_
from .. import cells as K
from .. import cfg as C
from ..core import Ctx

PROP = "C20"
EXPLANATION = (
    "C20.1 who-may-send: the aiohttp session verbs are reached only from BaseClient.make_request / APIClient._make_request, and "
    "in both, when a limiter is configured, consume() and the sleep on its result dominate the send. C20.2 path rules on "
    "consume(): every return is dominated by reading the clock, storing it as the new reference time, the proportional "
    "refill, the cap at capacity and exactly one decrement, in that order (so no path hands out a token without refilling "
    "and re-stamping first); the value returned is evaluated on the threshold cells of the token count: 0.0 when tokens >= 0 "
    "and -tokens / rate (> 0, with rate > 0 asserted at construction and never reassigned) when tokens < 0, hence never "
    "negative whatever the clock does; consume() contains no suspension point, so its read-modify-write is atomic under "
    "asyncio. The rate bound itself is arithmetic over arrival sequences and is not claimed. This is one of the thinnest claims."
    " C20.1 also: the limiter's truth value is its identity (no __bool__/__len__), since both clients test `if self._tb and ...`."
)
TRUSTED = ["CPython ast parser", "sa.cfg statement CFG", "sa.cells", "mypy callee resolution"]

TB = "basana.core.token_bucket.TokenBucketLimiter"


def rule_who_may_send(ctx: Ctx) -> None:
    senders = {"basana.external.binance.client.base.BaseClient.make_request", "basana.external.bitstamp.client.APIClient._make_request"}
    n = 0
    for fn in ctx.repo.all_funcs():
        if not fn.module.modname.startswith("basana.external"):
            continue
        sess = {"self._session"}
        for w in [x for x in A.body_nodes(fn, shallow=False) if isinstance(x, (ast.With, ast.AsyncWith))]:
            for it in w.items:
                cn = A.call_name(it.context_expr) if isinstance(it.context_expr, ast.Call) else ""
                if (cn or "").split(".")[-1] in ("use_or_create_session", "ClientSession") and isinstance(it.optional_vars, ast.Name):
                    sess.add(it.optional_vars.id)
        for a_ in fn.node.args.args:
            if a_.annotation is not None and "ClientSession" in ast.unparse(a_.annotation):
                sess.add(a_.arg)
        for node in A.body_nodes(fn, shallow=False):
            if isinstance(node, ast.Attribute) and node.attr in ("get", "post", "put", "delete", "request", "patch", "head") \
                    and A.dotted(node.value) in sess:
                n += 1
                ctx.check(fn.qualname in senders, "C20.1", "HTTP requests to the exchanges are sent only by the throttled request functions", fn,
                          A.stmt_of(node), fn.qualname.split(".")[-1], f"session.{node.attr} is used in {fn.qualname}: that request bypasses the limiter")
    ctx.floor("C20.1", "session verb references", n, 6)
    for q in sorted(senders):
        fn = ctx.func(q)
        g = ctx.cfg(fn)
        send = [c for c in A.func_calls(fn) if isinstance(c.func, ast.Name) and c.func.id == "session_method"]
        ctx.require(len(send) == 1, f"C20.1: {q} should have one session_method(...) call")
        sn = g.nodes_for(send[0])[0]
        tests = [n_ for n_ in g.nodes if n_.kind == "test" and "self._tb" in ast.unparse(n_.ast) and ".consume()" in ast.unparse(n_.ast)]
        ok = bool(tests) and g.path_avoiding(g.entry, lambda x: x is sn, lambda x: x in tests) is None
        ctx.check(ok, "C20.1", "the limiter is consulted before every send", fn, send[0], "consume() dominates the send", "a request can be sent "
                  "without consuming a token")
        # `if self._tb and ...` means "a limiter is configured": sound only while the limiter object's truthiness is its identity
        truthy_use = [x for n_ in g.nodes if n_.kind == "test" for x in ([n_.ast] + [v for b in ast.walk(n_.ast) if isinstance(b, ast.BoolOp) for v in b.values]
                                                                       + [u.operand for u in ast.walk(n_.ast) if isinstance(u, ast.UnaryOp) and isinstance(u.op, ast.Not)])
                      if A.dotted(x) == "self._tb"]
        if truthy_use:
            tbc = ctx.repo.cls(TB)
            magic = [m.name for m in tbc.node.body if isinstance(m, (ast.FunctionDef, ast.AsyncFunctionDef)) and m.name in ("__bool__", "__len__")]
            ctx.check(not magic and tbc.bases in ([], ["object"]), "C20.1", "the limiter's truth value is 'a limiter is configured'", fn, truthy_use[0],
                      "TokenBucketLimiter defines neither __bool__ nor __len__", f"TokenBucketLimiter defines {magic or tbc.bases}: `if self._tb and ...` is false for "
                      "a configured limiter in some state (e.g. no whole token left), consume() is skipped exactly when throttling is needed and "
                      "requests are sent unthrottled", key_text="limiter truthiness")
        if tests:
            t = tests[0]
            txt = ast.unparse(t.ast)
            walrus = [x for x in ast.walk(t.ast) if isinstance(x, ast.NamedExpr)]
            okw = bool(walrus) and txt.startswith("self._tb and")
            sl = [c for c in A.func_calls(fn) if (A.call_name(c) or "") == "asyncio.sleep" and walrus and A.dotted(c.args[0]) == walrus[0].target.id]
            oks = bool(sl) and isinstance(sl[0].parent, ast.Await) and any(m is g.nodes_for(sl[0])[0] for (m, l) in t.succ if l == "true")  # type: ignore
            ctx.check(okw and oks, "C20.1", "the caller sleeps exactly the time the limiter returned, when it is non-zero", fn, t.ast,
                      "if tb and (t := tb.consume()): await sleep(t)", "the wait returned by consume() is not slept (or a different value is)")
            p = g.path_avoiding(t, lambda x: x is sn, lambda x: False)
            tb_true = [m for (m, l) in t.succ if l == "true"]
            # the true branch must pass the sleep before the send
            if sl:
                sln = g.nodes_for(sl[0])[0]
                p2 = g.path_avoiding(t, lambda x: x is sn, lambda x: x is sln, {"true", "next"})
                ctx.check(p2 is None or not tb_true, "C20.1", "a non-zero wait is always slept before sending", fn, sl[0], "sleep on the true edge",
                          "the send can be reached on the wait>0 branch without sleeping")


def rule_consume(ctx: Ctx) -> None:
    fn = ctx.func(f"{TB}.consume")
    g = ctx.cfg(fn)
    ctx.check(not any(C.contains_await(n) for n in g.nodes) and not fn.is_async, "C20.2", "consume() cannot be interleaved (no suspension point)", fn,
              fn.node, "synchronous", "consume() suspends: two callers can interleave its read-modify-write")
    st = A.stores(fn)
    now = [s for s in st if isinstance(s.target, ast.Name) and isinstance(s.node, ast.Assign) and ast.unparse(s.node.value) == "time.time()"]
    ctx.require(len(now) == 1, "C20.2: consume() should read the clock once")
    nname = now[0].target.id
    stamp = [s for s in st if A.dotted(s.target) == "self._last" and A.dotted(getattr(s.node, "value", None)) == nname]
    lapse = [s for s in st if isinstance(s.target, ast.Name) and isinstance(s.node, ast.Assign) and ast.unparse(s.node.value) == f"{nname} - self._last"]
    refill = [s for s in st if isinstance(s.node, ast.AugAssign) and isinstance(s.node.op, ast.Add) and A.dotted(s.target) == "self._tokens"]
    min_form = False
    if not refill:
        # idiom 2: self._tokens = min(<tokens> + <refill>, capacity)
        refill = [s for s in st if isinstance(s.node, ast.Assign) and A.dotted(s.target) == "self._tokens" and isinstance(s.node.value, ast.Call)
                  and A.call_name(s.node.value) == "min" and any(isinstance(N_.expand(fn, x), ast.BinOp) and isinstance(N_.expand(fn, x).op, ast.Add)
                                                                 for x in s.node.value.args)]
        min_form = bool(refill)
    # the raw (possibly negative, fractional) token count must be used: the public 'tokens' property clamps and truncates
    prop = ctx.repo.funcs.get(f"{TB}.tokens")
    lossy_prop = prop is not None and any(isinstance(x, ast.Call) and A.call_name(x) in ("max", "int") for x in ast.walk(prop.node))
    clamped_reads = [n for n in A.body_nodes(fn) if isinstance(n, ast.Attribute) and n.attr == "tokens" and A.dotted(n) == "self.tokens"]
    ctx.check(not (clamped_reads and lossy_prop), "C20.2", "consume() works on the raw token count, not the clamped public property", fn,
              A.stmt_of(clamped_reads[0]) if clamped_reads else fn.node, "reads self._tokens only",
              "consume() reads the public 'tokens' property, which is max(int(tokens), 0): the debt left by earlier callers is forgiven on "
              "every call, so simultaneous callers on an empty bucket are all told to wait 1/rate and fire together")
    dec = [s for s in st if isinstance(s.node, ast.AugAssign) and isinstance(s.node.op, ast.Sub) and A.dotted(s.target) == "self._tokens"
           and A.const_value(s.node.value) == 1]
    cap = [s for s in st if isinstance(s.node, ast.Assign) and A.dotted(s.target) == "self._tokens" and A.dotted(s.node.value) == "self._tokens_per_period"]
    if min_form and not cap:
        cap = refill
    if lapse and refill and dec and cap and not stamp:
        ctx.bad("C20.2", "on every path to a return the reference time is moved to now", fn, lapse[0].stmt,
                "consume() never stores the clock reading as the new reference time: the same elapsed time is credited again on every call, so "
                "the bucket refills far faster than the configured rate")
        return
    ctx.require(stamp and lapse and refill and dec and cap, "C20.2: consume() lost one of: lapse, re-stamp, refill, cap, decrement (unrecognised idiom)")
    rets = [n for n in g.nodes if n.kind == "stmt" and isinstance(n.ast, ast.Return)]
    ctx.floor("C20.2", "return statements in consume", len(rets), 2)
    steps = [("the clock is read", now[0].stmt), ("the elapsed time is measured against the previous reference", lapse[0].stmt),
             ("the reference time is moved to now", stamp[0].stmt), ("tokens are refilled for the elapsed time", refill[0].stmt),
             ("one token is taken", dec[0].stmt)]
    for r in rets:
        for what, stmt in steps:
            sn = g.nodes_for(stmt)
            p = g.path_avoiding(g.entry, lambda n: n is r, lambda n: n in sn)
            ctx.check(p is None, "C20.2", f"on every path to a return {what}", fn, r.ast, f"'{ast.unparse(stmt)[:50]}' dominates the return",
                      f"a path returns without '{ast.unparse(stmt)[:50]}': tokens are handed out without refilling/re-stamping, so idle time is "
                      "credited again later and a burst exceeds capacity + rate x L + 1", detail={"path": C.fmt_path(p) if p else []})
    # order: lapse before stamp; refill before cap test before decrement
    ln, sn_, rn = (g.nodes_for(x[0].stmt)[0] for x in (lapse, stamp, refill))
    dn = next((g.nodes_for(d.stmt)[0] for d in dec if g.path_avoiding(g.entry, lambda n, d=d: n is g.nodes_for(d.stmt)[0], lambda n: n is rn) is None),
              g.nodes_for(dec[0].stmt)[0])
    capn = g.nodes_for(cap[0].stmt)[0]
    captest = next((a for a in A.ancestors(cap[0].stmt) if isinstance(a, ast.If)), None)
    if min_form:
        order_ok = g.path_avoiding(g.entry, lambda n: n is sn_, lambda n: n is ln) is None and \
            g.path_avoiding(g.entry, lambda n: n is dn, lambda n: n is rn) is None
    else:
        order_ok = g.path_avoiding(g.entry, lambda n: n is sn_, lambda n: n is ln) is None and \
            g.path_avoiding(g.entry, lambda n: n is dn, lambda n: n is rn) is None and captest is not None and \
            g.path_avoiding(g.entry, lambda n: n is dn, lambda n: n in g.nodes_for(captest.test)) is None and \
            g.path_avoiding(g.entry, lambda n: n is capn, lambda n: n is rn) is None
    ctx.check(order_ok, "C20.2", "statement order: measure, re-stamp, refill, cap at capacity, then take one", fn, dec[0].stmt, "ok",
              "the order of refill / cap / decrement changed (e.g. taking the token before capping lets the bucket hold capacity + 1)")
    if min_form:
        args = refill[0].node.value.args
        okcap = any(A.dotted(a) == "self._tokens_per_period" for a in args)
        ctx.check(okcap, "C20.2", "tokens never exceed the capacity", fn, refill[0].stmt, "min(..., capacity)", "refill is not capped at the capacity")
        rexpr = ast.unparse(refill[0].node.value)
        names = {x.id for x in ast.walk(refill[0].node.value) if isinstance(x, ast.Name)}
        rdefs = " ".join(ast.unparse(s_.node.value) for s_ in st if isinstance(s_.target, ast.Name) and s_.target.id in names and hasattr(s_.node, "value"))
        okref = f"{lapse[0].target.id} / self._period_duration * self._tokens_per_period".replace(" ", "") in (rexpr + rdefs).replace(" ", "")
        ctx.check(okref, "C20.2", "refill = elapsed / period x tokens-per-period", fn, refill[0].stmt, "ok", f"refill is {rexpr}")
    else:
        ctx.check(captest is not None and ast.unparse(captest.test) in ("self._tokens > self._tokens_per_period", "self._tokens >= self._tokens_per_period"),
                  "C20.2", "tokens never exceed the capacity", fn, captest.test if captest is not None else fn.node, "if tokens > capacity: tokens = capacity",
                  "cap test changed")
        ctx.check(ast.unparse(refill[0].node.value).replace(" ", "") == f"{lapse[0].target.id}/self._period_duration*self._tokens_per_period", "C20.2",
                  "refill = elapsed / period x tokens-per-period", fn, refill[0].stmt, "ok", f"refill is {ast.unparse(refill[0].node.value)}")
    decn = [g.nodes_for(d.stmt)[0] for d in dec]
    twice = [d for d in decn if any(x in decn for x in g.reach([d], labels=C.NO_EXC))]
    ctx.check(not twice, "C20.2", "at most one token is taken per call", fn, dec[0].stmt, "no path with two decrements", "more than one decrement on a path")
    # returned value on the cells of the token count
    tests = [n for n in g.nodes if n.kind == "test" and ast.unparse(n.ast).startswith("self._tokens") and n.ast is not (captest.test if captest else None)
             and g.path_avoiding(g.entry, lambda x, n=n: x is n, lambda x: x is dn) is None]
    ctx.require(len(tests) == 1, "C20.2: sign test on the token count (after the decrement) not found")
    tt = K.truth_table(ast.parse(ast.unparse(tests[0].ast).replace("self._tokens", "x"), mode="eval").body, "x", extra=[0.0])
    tb_ret = [m for (m, l) in tests[0].succ if l == "true"]
    fb_ret = [m for (m, l) in tests[0].succ if l == "false"]

    from .. import norm as N

    def ret_expr(nodes):
        for n in g.reach(nodes, include_sources=True, labels=C.NO_EXC):
            if n.kind == "stmt" and isinstance(n.ast, ast.Return):
                return N.canon(N.expand(fn, n.ast.value)).replace(" ", "")
        return None
    rt, rf = ret_expr(tb_ret), ret_expr(fb_ret)
    wait = "-self._tokens/self._tokens_per_period*self._period_duration"
    norm_wait = lambda t: None if t is None else t.replace("(-self._tokens)", "-self._tokens")  # noqa: E731
    cells_ok = True
    rows = {}
    for cell, truth in tt.items():
        val = rt if truth else rf
        rows[cell] = val
        if cell == "(-inf,0)":
            cells_ok &= norm_wait(val) == wait
        else:
            cells_ok &= val in ("0.0", "0")
    ctx.sample({"rule": "C20.2", "returned value per cell of the token count": rows})
    ctx.exhaustive = True
    ctx.check(cells_ok, "C20.2", "wait = 0 when a token was available, -tokens/rate (> 0) when in debt: never negative", fn, tests[0].ast, str(rows),
              f"returned value per cell {rows}: a negative or missing wait")
    init = ctx.func(f"{TB}.__init__")
    asserts = [ast.unparse(n.test) for n in C.walk_shallow(init.node) if isinstance(n, ast.Assert)]
    ctx.check({"tokens_per_period > 0", "period_duration > 0", "initial_tokens >= 0"} <= set(asserts), "C20.2", "rate parameters are positive "
              "(stated at construction)", init, init.node, str(asserts), f"constructor asserts {asserts}")
    for name, f2 in ctx.repo.methods_of(TB).items():
        for s in A.stores(f2):
            if A.dotted(s.target) in ("self._tokens_per_period", "self._period_duration"):
                ctx.check(name == "__init__", "C20.2", "rate parameters are fixed at construction", f2, s.stmt, "constructor", "rate parameter reassigned")
            if A.dotted(s.target) in ("self._tokens", "self._last") and name not in ("__init__", "consume"):
                ctx.bad("C20.2", "bucket state is changed only by consume()", f2, s.stmt, f"{A.dotted(s.target)} written in {name}")
    w = ctx.func(f"{TB}.wait")
    ctx.check("await asyncio.sleep(self.consume())" in ast.unparse(w.node), "C20.2", "wait() sleeps what consume() returns", w, w.node, "ok",
              "wait() changed", key_text="wait")


def run(ctx: Ctx) -> None:
    rule_who_may_send(ctx)
    rule_consume(ctx)
    ctx.assume("every caller sleeps the time returned before sending (C20.1 checks the two HTTP clients)")
    ctx.assume("tokens_per_period > 0 and period_duration > 0 (asserted)")
