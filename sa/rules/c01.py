"""C01 -- ledger conservation: totals change only by fills, fees and interest."""
from __future__ import annotations

import ast
from typing import Any, Dict, List, Optional, Tuple

from .. import astutil as A
from .. import cfg as C
from .. import commitlast as CL
from ..core import Ctx

PROP = "C01"
EXPLANATION = (
    "Effect typing of every ledger write: C01.1 who-may-write -- the three ledger maps of AccountBalances are assigned only "
    "in __init__ and update, never mutated in place or handed to a callee that mutates them (mypy receiver types); C01.2 "
    "site census -- every call resolving to AccountBalances.update is classified by the shape of its keyword arguments "
    "into hold-only | fill | loan-open | loan-repay | loan-cancel, a site that fits no class is a violation (in the loan "
    "shapes balance and borrowed move by the same principal, only interest is extra); C01.3 same-value -- the delta applied "
    "to the account in _process_order is balance_updates + fees of exactly the two objects recorded on the order, both "
    "already rounded and not mutated in between, add_fill post-dominates the commit; the interest debited in repay_loan is "
    "the object recorded as paid, recorded only after the commit; C01.4 the update is all-or-nothing (commit-last walk); "
    "C01.5 Balance.total = available + hold - borrowed with available = balance - hold; C01.6 each ValueMap operator "
    "uses the operator and operand order its name says over the union of keys. The identity then follows by induction "
    "over write sites; Decimal arithmetic itself is not claimed."
    " C01.3 also: a fill reaches the account as one all-or-nothing update (a second update for the fees could be refused after the first was applied)."
    " The delta applied is exactly fill + fees (only pruned between its computation and the update)."
    " The delta must be a fresh '<fill> + <fees>' value (a reused object can carry the amounts of a refused fill)."
)
TRUSTED = ["CPython ast parser", "mypy callee/receiver resolution", "sa.cfg statement CFG", "sa.summaries"]

AB = "basana.backtesting.account_balances.AccountBalances"
OM = "basana.backtesting.order_mgr.OrderManager"
LM = "basana.backtesting.loan_mgr.LoanManager"
VM = "basana.backtesting.value_map.ValueMap"
LEDGER = ("balances", "holds", "borrowed")


def rule_writers(ctx: Ctx, rule: str = "C01.1") -> None:
    n = 0
    for fn in ctx.repo.all_funcs():
        if not fn.module.modname.startswith("basana.backtesting"):
            continue
        for s in A.stores(fn):
            ba = A.base_attr(s.target)
            if ba is None or ba[1] not in LEDGER:
                continue
            recv, attr = ba
            key = A.fact_key(fn.module, recv)
            rt = ctx.facts.types.get(key, "")
            is_ab = AB in rt or (isinstance(recv, ast.Name) and recv.id == "self" and fn.cls is not None and fn.cls.qualname == AB)
            if not is_ab:
                continue
            n += 1
            direct = isinstance(s.target, ast.Attribute) and s.kind == "assign"
            ok = direct and fn.qualname in (f"{AB}.__init__", f"{AB}.update")
            ctx.check(ok, rule, f"ledger map '{attr}' is written only by AccountBalances.__init__/update", fn, s.stmt,
                      "assignment in the owner", f"'{ast.unparse(s.target)}' is {'mutated in place' if not direct else 'assigned'} "
                      f"in {fn.qualname.split('.', 2)[-1]}: the ledger changes without passing the update rules / the census")
        # reads that escape into a mutating callee
        for node in A.body_nodes(fn, shallow=False):
            if isinstance(node, ast.Attribute) and node.attr in LEDGER and isinstance(node.ctx, ast.Load):
                rc = A.recv_class(ctx, fn.module, node)
                if rc != AB and not (isinstance(node.value, ast.Name) and node.value.id == "self" and fn.cls is not None and fn.cls.qualname == AB):
                    continue
                par = node.parent  # type: ignore[attr-defined]
                if isinstance(par, ast.Call) and node in par.args:
                    idx = par.args.index(node)
                    for callee in A.call_index(ctx).callees(fn.module, par):
                        f2 = ctx.repo.funcs.get(callee)
                        if f2 is None:
                            continue
                        params = f2.params[1:] if f2.cls is not None else f2.params
                        if idx < len(params):
                            p = params[idx]
                            mut = [s2 for s2 in A.stores(f2) if (A.base_attr(s2.target) is None) and (
                                (isinstance(s2.target, ast.Subscript) and A.dotted(s2.target.value) == p)
                                or (s2.kind in ("mutcall", "augassign") and A.dotted(s2.target) == p))]
                            n += 1
                            ctx.check(not mut, rule, f"ledger map '{node.attr}' handed to {callee.rsplit('.', 1)[-1]} is only read there",
                                      fn, A.stmt_of(node), "callee does not mutate the parameter",
                                      f"{callee} mutates parameter '{p}', which aliases the ledger map")
    ctx.floor(rule, "ledger write/alias sites", n, 6)


def _kwmap(c: ast.Call) -> Dict[str, ast.AST]:
    return {k.arg: k.value for k in c.keywords if k.arg}


def _local(fn, name: str) -> List[ast.AST]:
    return [s.node.value for s in A.stores(fn) if isinstance(s.target, ast.Name) and s.target.id == name
            and isinstance(s.node, (ast.Assign, ast.AnnAssign)) and s.node.value is not None]


def _unwrap_vm(e: ast.AST) -> ast.AST:
    if isinstance(e, ast.Call) and (A.call_name(e) or "").split(".")[-1] == "ValueMap" and len(e.args) == 1:
        return e.args[0]
    return e


def _is_principal(e: ast.AST, neg: bool) -> bool:
    """{loan.borrowed_symbol: [-]loan.borrowed_amount}"""
    e = _unwrap_vm(e)
    if not (isinstance(e, ast.Dict) and len(e.keys) == 1):
        return False
    k, v = e.keys[0], e.values[0]
    if neg:
        if not (isinstance(v, ast.UnaryOp) and isinstance(v.op, ast.USub)):
            return False
        v = v.operand
    return (A.dotted(k) or "").endswith(".borrowed_symbol") and (A.dotted(v) or "").endswith(".borrowed_amount") \
        and (A.dotted(k) or "").split(".")[0] == (A.dotted(v) or "").split(".")[0]


def _muts_of(fn, name: str):
    out = []
    for s in A.stores(fn):
        t = s.target
        base = t.value if isinstance(t, ast.Subscript) else t
        if A.dotted(base) == name and (s.kind in ("augassign", "mutcall", "subscript", "delete") or isinstance(t, ast.Subscript)):
            out.append(s)
    return out


def classify_update_site(ctx: Ctx, fn, c: ast.Call) -> Tuple[Optional[str], str]:
    kw = _kwmap(c)
    if c.args:
        return None, "positional arguments"
    keys = set(kw)
    if keys == {"hold_updates"}:
        return "hold-only", "only hold_updates"
    if keys in ({"balance_updates", "hold_updates"}, {"balance_updates"}):     # an omitted hold_updates is an empty one
        b = kw["balance_updates"]
        if isinstance(b, ast.Name) and b.id in fn.params:
            return "fill", f"balance_updates is parameter '{b.id}' (callers checked separately)"
        return None, "balance_updates is not the function's parameter"
    if keys == {"balance_updates", "borrowed_updates", "hold_updates"}:
        b, r = kw["balance_updates"], kw["borrowed_updates"]
        if _is_principal(b, neg=False) and _is_principal(r, neg=False) and ast.dump(b) == ast.dump(r):
            return "loan-open", "balance and borrowed both +principal"
        if isinstance(b, ast.Name) and isinstance(r, ast.Name) and b.id == r.id:
            defs = _local(fn, b.id)
            muts = _muts_of(fn, b.id)
            if len(defs) == 1 and _is_principal(defs[0], neg=True) and not muts:
                return "loan-cancel", "same -principal object for balance and borrowed"
            return None, "shared variable is not a plain -principal map"
        if isinstance(b, ast.Name) and _is_principal(r, neg=True):
            defs = _local(fn, b.id)
            muts = _muts_of(fn, b.id)
            only_interest = len(muts) == 1 and isinstance(muts[0].node, ast.AugAssign) and isinstance(muts[0].node.op, ast.Sub) \
                and isinstance(muts[0].node.value, ast.Name) and isinstance(muts[0].target, ast.Name)
            if len(defs) == 1 and _is_principal(defs[0], neg=True) and only_interest:
                return "loan-repay", f"balance = -principal - {muts[0].node.value.id}; borrowed = -principal"
            return None, "balance delta of a repayment is not (-principal) - interest"
        return None, "balance/borrowed deltas are not principal-symmetric"
    return None, f"unrecognised keyword set {sorted(keys)}"


def rule_census(ctx: Ctx, rule: str = "C01.2") -> None:
    ci = A.call_index(ctx)
    sites = ci.callers_of(f"{AB}.update")
    ctx.floor(rule, "call sites of AccountBalances.update", len(sites), 5)
    expected_home = {"hold-only": f"{OM}.add_order", "fill": f"{OM}._update_balances", "loan-open": f"{LM}.create_loan",
                     "loan-repay": f"{LM}.repay_loan", "loan-cancel": f"{LM}.cancel_loan"}
    seen = {}
    for fn, m, c in sites:
        cls, why = classify_update_site(ctx, fn, c)
        ctx.sample({"rule": rule, "site": fn.loc(c) if fn else "?", "function": fn.qualname if fn else "?", "class": cls, "why": why})
        inst = f"ledger update in {fn.qualname.split('.', 2)[-1] if fn else '?'}"
        if cls is None:
            ctx.bad(rule, inst, fn, c, f"update site fits none of hold-only | fill | loan-open | loan-repay | loan-cancel ({why}): "
                    "the total balance can change by something that is not a fill, a fee or interest")
            continue
        seen[cls] = seen.get(cls, 0) + 1
        ctx.check(fn is not None and fn.qualname == expected_home[cls], rule, inst, fn, c, f"class {cls}: {why}",
                  f"a {cls} update appears in {fn.qualname if fn else '?'} (expected only in {expected_home[cls]})")
    # fill: what the callers of _update_balances pass
    ub = f"{OM}._update_balances"
    for fn, m, c in ci.callers_of(ub):
        arg = c.args[1] if len(c.args) > 1 else None
        ok = (isinstance(arg, ast.Dict) and not arg.keys) or (isinstance(arg, ast.Name) and arg.id == "final_updates")
        ctx.check(ok, rule, "_update_balances receives the fill delta or nothing", fn, c, ast.unparse(arg) if arg is not None else "?",
                  f"_update_balances is called with {ast.unparse(arg) if arg is not None else '?'}: a balance delta that is neither a "
                  "recorded fill nor empty")
    for k in expected_home:
        ctx.check(seen.get(k, 0) >= 1, rule, f"census found the {k} site", None, None, f"{seen.get(k, 0)} site(s)",
                  f"no {k} update site found (census anchors changed)", key_text=f"census {k}")


def rule_same_value(ctx: Ctx, rule: str = "C01.3") -> None:
    po = ctx.func(f"{OM}._process_order")
    g = ctx.cfg(po)
    fin = [s for s in A.stores(po) if isinstance(s.target, ast.Name) and s.target.id == "final_updates" and isinstance(s.node, ast.Assign)]
    ctx.require(len(fin) == 1, f"{rule}: expected one definition of final_updates in _process_order")
    v = fin[0].node.value
    okdef = isinstance(v, ast.BinOp) and isinstance(v.op, ast.Add) and isinstance(v.left, ast.Name) and isinstance(v.right, ast.Name)
    if not okdef:
        ctx.bad(rule, "the delta applied is exactly the fill plus the fees", po, fin[0].stmt,
                f"the delta handed to the account is '{ast.unparse(v)[:60]}', not a fresh '<fill> + <fees>': whatever else that object holds (e.g. the amounts of an "
                "earlier fill that was refused) is applied to the account but not recorded on the order", key_text="delta is fill + fees")
        return
    bu, fe = v.left.id, v.right.id
    fills = [c for c in A.func_calls(po) if (A.call_name(c) or "").endswith(".add_fill")]
    ups = [c for c in A.func_calls(po) if (A.call_name(c) or "") == "self._update_balances"]
    ctx.require(len(fills) == 1 and len(ups) >= 1, f"{rule}: expected one add_fill and an _update_balances in _process_order")
    ctx.check(len(ups) == 1, rule, "a fill (amounts and fees) reaches the account as ONE all-or-nothing update", po, ups[-1],
              "one _update_balances call", f"{len(ups)} account updates for one fill: when a later one is refused (NotEnoughBalance) the earlier "
              "ones stay applied while the order is treated as not filled: the balance moved with no fill or fee on record", key_text="one update per fill")
    af = fills[0]
    ctx.check(len(af.args) == 3 and A.dotted(af.args[1]) == bu and A.dotted(af.args[2]) == fe, rule,
              "the order records exactly the fill and fees that were applied", po, af, f"add_fill(when, {bu}, {fe}); applied {bu} + {fe}",
              f"applied {bu} + {fe} but recorded {[ast.unparse(a) for a in af.args[1:]]}: what the account is charged is not what "
              "the order reports")
    ctx.check(len(ups[0].args) == 2 and A.dotted(ups[0].args[1]) == "final_updates", rule, "the delta applied is final_updates", po,
              ups[0], "ok", "the account is updated with something other than final_updates")
    # final_updates is fill + fees and nothing else: between its definition and the update it may only be pruned
    touched = [s_ for s_ in A.stores(po, shallow=False) if (A.dotted(s_.target) == "final_updates" and s_.node is not fin[0].node
                                                           and not (s_.kind == "mutcall" and isinstance(s_.node, ast.Call) and isinstance(s_.node.func, ast.Attribute)
                                                                    and s_.node.func.attr == "prune"))
               or (isinstance(s_.target, ast.Subscript) and A.dotted(s_.target.value) == "final_updates")]
    ctx.check(not touched, rule, "the delta applied is exactly the fill plus the fees", po, touched[0].stmt if touched else fin[0].stmt,
              "final_updates = fill + fees, only pruned", f"'{ast.unparse(touched[0].stmt)[:70] if touched else ''}' changes the delta after it was computed as "
              "fill + fees: the account is charged something different from what the order records as its fill and fees", key_text="delta is fill + fees")
    # rounding precedes the sum; no mutation of the two maps between the sum and add_fill
    fn_n = g.nodes_for(fin[0].stmt)[0]
    af_n = g.nodes_for(af)[0]
    up_n = g.nodes_for(ups[0])[0]
    between = g.reach([fn_n], stop=lambda n: n is af_n, labels=C.NO_EXC)
    for nm in (bu, fe):
        muts = [s for s in A.stores(po) if (A.dotted(s.target) == nm or (isinstance(s.target, ast.Subscript) and A.dotted(s.target.value) == nm))
                and any(n in between for n in g.nodes_for(s.stmt)) and s.stmt is not fin[0].stmt]
        calls_mut = [c for c in A.func_calls(po) if any(isinstance(a, ast.Name) and a.id == nm for a in c.args)
                     and (A.call_name(c) or "").startswith("self._round") and any(n in between for n in g.nodes_for(c))]
        ctx.check(not muts and not calls_mut, rule, f"'{nm}' is not modified between being applied and being recorded", po,
                  (muts[0].stmt if muts else (calls_mut[0] if calls_mut else fin[0].stmt)), "unchanged",
                  f"'{nm}' is modified after the account was charged and before the order records it")
    rounds = {"_round_balance_updates": bu, "_round_fees": fe}
    for meth, nm in rounds.items():
        cs = [c for c in A.func_calls(po) if (A.call_name(c) or "") == f"self.{meth}" and c.args and A.dotted(c.args[0]) == nm]
        okr = bool(cs) and g.path_avoiding(g.entry, lambda n: n is fn_n, lambda n: n in g.nodes_for(cs[0])) is None
        ctx.check(okr, rule, f"'{nm}' is rounded before it is summed, applied and recorded", po, cs[0] if cs else fin[0].stmt,
                  f"self.{meth}({nm}, ...) dominates the sum", f"'{nm}' is not rounded before use (rounding after applying makes the "
                  "applied and recorded numbers differ)")
    p = g.always_followed_by(up_n, lambda n: n is af_n, labels=C.NO_EXC)
    ctx.check(p is None, rule, "every applied fill is recorded on the order", po, af, "add_fill post-dominates the commit",
              "a path applies the delta to the account without recording the fill", detail={"path": C.fmt_path(p) if p else []})
    # between commit and record nothing may fail -- stated beliefs (asserts) included: the account was already charged
    ci = A.call_index(ctx)
    for callee in ci.callees(po.module, af):
        for tq in ci.overrides_of(callee):
            f2 = ctx.repo.funcs.get(tq)
            if f2 is None:
                continue
            ctx.analysed_funcs.add(tq)
            risky = [n for n in C.walk_shallow(f2.node) if isinstance(n, (ast.Assert, ast.Raise))]
            ctx.check(not risky, rule, f"recording a fill cannot fail ({tq.split('.', 2)[-1]} has no assert/raise)", f2,
                      risky[0] if risky else f2.node, "no assert / raise on the record path",
                      f"'{ast.unparse(risky[0])[:70] if risky else ''}' can fail after the account was already charged for the fill: the fill and "
                      "its fee are then never recorded on the order (account totals != initial + reported fills - reported fees)")
    # fees come from the fee strategy on the rounded fill
    fdef = _local(po, fe)
    okf = bool(fdef) and "calculate_fees" in ast.unparse(fdef[0]) and bu in ast.unparse(fdef[0])
    ctx.check(okf, rule, "fees are computed for the rounded fill", po, fdef[0] if fdef else po.node, "calculate_fees(order, fill)",
              "fees are not computed from the fill that is applied")
    # interest: debited object == recorded object, recorded after the commit
    rp = ctx.func(f"{LM}.repay_loan")
    g2 = ctx.cfg(rp)
    ups2 = [c for c in A.func_calls(rp) if (A.call_name(c) or "").endswith("account_balances.update")]
    paid = [c for c in A.func_calls(rp) if (A.call_name(c) or "").endswith(".add_paid_interest")]
    ctx.require(len(ups2) >= 1 and len(paid) == 1, f"{rule}: repay_loan lost its update / add_paid_interest")
    cls, why = classify_update_site(ctx, rp, ups2[0])
    iname = why.split(" - ")[-1].split(";")[0] if cls == "loan-repay" else None
    ctx.check(cls == "loan-repay" and A.dotted(paid[0].args[0]) == iname, rule, "the interest debited is the interest recorded as paid",
              rp, paid[0], f"balance -= {iname}; add_paid_interest({iname})", "the interest recorded on the loan is not the object that "
              "was debited")
    pn = g2.nodes_for(paid[0])[0]
    un = [n for c in ups2 for n in g2.nodes_for(c)]
    pth = g2.path_avoiding(g2.entry, lambda n: n is pn, lambda n: n in un)
    ctx.check(pth is None, rule, "interest is recorded as paid only after the debit was committed", rp, paid[0],
              "account_balances.update dominates add_paid_interest", "interest is recorded as paid before (or without) the debit: if "
              "the update is refused the loan reports interest nobody paid", detail={"path": C.fmt_path(pth) if pth else []})
    if iname:
        muts = [s for s in A.stores(rp) if A.dotted(s.target) == iname and s.kind in ("augassign", "mutcall", "subscript")
                and A.seq(s.stmt) > A.seq(ups2[0])]
        ctx.check(not muts, rule, "interest is not modified between debit and record", rp, muts[0].stmt if muts else paid[0], "unchanged",
                  "interest changed after being debited")
    # Order.add_fill / Loan.add_paid_interest record what they are given
    af_fn = ctx.func("basana.backtesting.orders.Order.add_fill")
    src = ast.unparse(af_fn.node)
    ctx.check("self._balance_updates += balance_updates" in src and "self._fees += fees" in src, rule,
              "Order.add_fill accumulates the amounts it is given", af_fn, af_fn.node, "+= balance_updates, += fees",
              "add_fill no longer accumulates its arguments", key_text="add_fill accumulates")
    ap = ctx.func("basana.backtesting.lending.base.Loan.add_paid_interest")
    ctx.check("self._paid_interest += interest" in ast.unparse(ap.node), rule, "Loan.add_paid_interest accumulates the interest it is given",
              ap, ap.node, "+= interest", "add_paid_interest changed", key_text="add_paid_interest accumulates")


def rule_atomic_update(ctx: Ctx, rule: str = "C01.4") -> None:
    an = CL.Analysis(ctx, [])
    q = f"{AB}.update"
    ok = an.check(q)
    fn = ctx.repo.func(q)
    bad = [r for r in an.reports[q] if r["kind"] != "compensated"]
    ctx.check(ok, rule, "AccountBalances.update is all-or-nothing", fn, bad[0]["node"].ast if bad else fn.node,
              "every rule runs before the first of the three stores", "a rule (or anything that may raise) runs after part of the "
              "ledger was already replaced: a refused update leaves a partial change")
    g = ctx.cfg(fn)
    stores = [s for s in A.stores(fn) if A.dotted(s.target) in ("self.balances", "self.holds", "self.borrowed") and s.kind == "assign"]
    ctx.check(len(stores) == 3, rule, "all three maps are committed", fn, fn.node, "balances, holds, borrowed", f"{len(stores)} of the three "
              "ledger maps are committed", key_text="three stores")
    want = {"self.balances": ("self.balances", "balance_updates"), "self.holds": ("self.holds", "hold_updates"),
            "self.borrowed": ("self.borrowed", "borrowed_updates")}
    for s in stores:
        tgt = A.dotted(s.target)
        v = s.node.value
        d = [x for x in A.stores(fn) if isinstance(x.target, ast.Name) and isinstance(v, ast.Name) and x.target.id == v.id]
        okv = bool(d) and isinstance(d[0].node.value, ast.BinOp) and isinstance(d[0].node.value.op, ast.Add) \
            and (A.dotted(d[0].node.value.left), A.dotted(d[0].node.value.right)) == want[tgt]
        ctx.check(okv, rule, f"{tgt} becomes {want[tgt][0]} + {want[tgt][1]}", fn, s.stmt, "old + delta of the same name",
                  f"{tgt} is committed from {ast.unparse(d[0].node.value) if d else ast.unparse(v)}")


def rule_formula(ctx: Ctx, rule: str = "C01.5") -> None:
    bal = ctx.func("basana.backtesting.exchange.Balance.__post_init__")
    st = [s for s in A.stores(bal) if A.dotted(s.target) == "self.total"]
    ok = bool(st) and ast.unparse(st[0].node.value).replace(" ", "") in ("self.available+self.hold-self.borrowed",)
    ctx.check(ok, rule, "Balance.total = available + hold - borrowed", bal, st[0].stmt if st else bal.node, "as documented",
              f"total is computed as {ast.unparse(st[0].node.value) if st else '?'}", key_text="total formula")
    gb = ctx.func("basana.backtesting.exchange.Exchange._get_balance")
    want = {"available": "get_available_balance", "hold": "get_balance_on_hold", "borrowed": "get_borrowed_balance"}
    ctor = [c for c in A.func_calls(gb) if (A.call_name(c) or "") == "Balance"]
    ctx.require(ctor, f"{rule}: _get_balance no longer builds a Balance")
    for k in ctor[0].keywords:
        if k.arg in want:
            d = _local(gb, k.value.id) if isinstance(k.value, ast.Name) else [k.value]
            okk = bool(d) and want[k.arg] in ast.unparse(d[0]) and "symbol" in ast.unparse(d[0])
            ctx.check(okk, rule, f"Balance.{k.arg} is fed from {want[k.arg]}(symbol)", gb, ctor[0], "same-named getter",
                      f"Balance.{k.arg} is fed from {ast.unparse(d[0]) if d else '?'}", key_text=f"balance field {k.arg}")
    ga = ctx.func(f"{AB}.get_available_balance")
    src = ast.unparse(ga.node).replace(" ", "")
    ctx.check("self.balances.get(symbol,Decimal(0))-self.holds.get(symbol,Decimal(0))" in src, rule,
              "available = balance - hold (so total is independent of holds)", ga, ga.node, "balances - holds",
              "available is no longer balance - hold", key_text="available formula")
    for name, m in (("get_balance_on_hold", "holds"), ("get_borrowed_balance", "borrowed")):
        f2 = ctx.func(f"{AB}.{name}")
        ctx.check(f"self.{m}.get(symbol" in ast.unparse(f2.node), rule, f"{name} reads the {m} map", f2, f2.node, "ok", f"{name} does not read "
                  f"self.{m}", key_text=f"getter {name}")


OPS = {"__add__": (ast.Add, "self", "other", False), "__iadd__": (ast.Add, "self", "other", True),
       "__sub__": (ast.Sub, "self", "other", False), "__isub__": (ast.Sub, "self", "other", True),
       "__rsub__": (ast.Sub, "other", "self", False), "__mul__": (ast.Mult, "self", "other", False),
       "__imul__": (ast.Mult, "self", "other", True)}
DELEGATES = {"__radd__": "__add__", "__rmul__": "__mul__"}


def rule_valuemap(ctx: Ctx, rule: str = "C01.6") -> None:
    for name, (op, lhs, rhs, inplace) in OPS.items():
        fn = ctx.func(f"{VM}.{name}")
        binops = [n for n in ast.walk(fn.node) if isinstance(n, ast.BinOp) and isinstance(n.left, ast.Call) and isinstance(n.right, ast.Call)
                  and (A.call_name(n.left) or "").endswith(".get") and (A.call_name(n.right) or "").endswith(".get")]
        ok = len(binops) == 1 and isinstance(binops[0].op, op) and (A.call_name(binops[0].left) or "") == f"{lhs}.get" \
            and (A.call_name(binops[0].right) or "") == f"{rhs}.get"
        keys = "set(itertools.chain(self.keys(), other.keys()))" in ast.unparse(fn.node)
        ret_self = any(isinstance(n, ast.Return) and A.dotted(n.value) == "self" for n in ast.walk(fn.node))
        ctx.check(ok and keys and (ret_self if inplace else not ret_self), rule,
                  f"ValueMap.{name} computes {lhs} {op.__name__} {rhs} over the union of keys", fn, fn.node, "ok",
                  f"ValueMap.{name}: operator/operand order/key set is not what the name says", key_text=f"valuemap {name}")
        d0 = all(A.is_decimal_literal(a, "0") for b in binops for a in (b.left.args[1], b.right.args[1]) if len(b.left.args) > 1)
        ctx.check(d0, rule, f"ValueMap.{name}: missing keys count as 0", fn, fn.node, "default ZERO", "missing keys do not default to 0",
                  key_text=f"valuemap {name} default")
    for name, target in DELEGATES.items():
        fn = ctx.func(f"{VM}.{name}")
        ok = f"return self.{target}(other)" in ast.unparse(fn.node)
        ctx.check(ok, rule, f"ValueMap.{name} delegates to {target} (commutative)", fn, fn.node, "ok", f"{name} no longer delegates to {target}",
                  key_text=f"valuemap {name}")
    pr = ctx.func(f"{VM}.prune")
    ctx.check("if not value" in ast.unparse(pr.node) and "del self[key]" in ast.unparse(pr.node), rule,
              "ValueMap.prune removes only zero entries", pr, pr.node, "ok", "prune removes non-zero entries", key_text="prune zero only")


def run(ctx: Ctx) -> None:
    rule_writers(ctx)
    rule_census(ctx)
    rule_same_value(ctx)
    rule_atomic_update(ctx)
    rule_formula(ctx)
    rule_valuemap(ctx)
    ctx.assume("Decimal addition/subtraction is exact at the magnitudes involved (context precision 28)")
    ctx.assume("take_liquidity raising between commit and record is structurally possible, not feasible (C08.2)")
