"""C09 -- percentage fees are exact, rounded up once, never negative."""
from __future__ import annotations

import ast
from typing import Any, Dict, List, Optional, Set

from .. import astutil as A
from .. import cells as K
from .. import cfg as C
from ..core import Ctx
from . import c01, c08

PROP = "C09"
EXPLANATION = (
    "C09.1: Percentage.calculate_fees stores only under the order's quote symbol, and the guard of its only storing path is "
    "evaluated on threshold cells: a fee entry is produced exactly when the pending fee is < 0 (fees are debits), so the fee "
    "reported to users (negated) is never negative and no refund is ever produced; NoFee returns an empty mapping on every "
    "path. C09.2 dependence set: the amount charged depends on the order's cumulative quote amount, this fill's quote amount, "
    "the fees already charged, the percentage and the minimum, and is total-due minus already-charged (the mechanism that "
    "makes the total independent of how the order was split into fills). C09.3: what is charged is what is recorded (shared "
    "with C01.3), fees are rounded away from zero once on the pending difference (shared with C08.3), and calculate_fees is "
    "reached only from _process_order after the fill test and from the reservation estimate, so an order that never traded "
    "is never charged. The arithmetic identity total = ceil(max(pct x quote, min)) for every partition is not claimed: the "
    "mechanism is decided, not the number. This is one of the thinnest claims."
)
TRUSTED = ["CPython ast parser", "sa.cells", "mypy callee resolution"]

FEES = "basana.backtesting.fees"
OM = "basana.backtesting.order_mgr.OrderManager"


def rule_sign(ctx: Ctx) -> None:
    fn = ctx.func(f"{FEES}.Percentage.calculate_fees")
    st = [s for s in A.stores(fn) if isinstance(s.target, ast.Subscript)]
    ctx.floor("C09.1", "stores into the fee map", len(st), 1)
    symdef = [s for s in A.stores(fn) if isinstance(s.target, ast.Name) and s.target.id == "symbol"]
    oksym = bool(symdef) and ast.unparse(symdef[0].node.value) == "order.pair.quote_symbol"
    for s in st:
        ctx.check(oksym and A.dotted(s.target.slice) == "symbol", "C09.1", "fees are charged in the quote symbol only", fn, s.stmt,
                  "ret[order.pair.quote_symbol]", "a fee is stored under a key other than the order's quote symbol")
        guard = next((a.test for a in A.ancestors(s.stmt) if isinstance(a, ast.If)), None)
        val = s.node.value
        tt = None
        if guard is not None and isinstance(val, ast.Name):
            names = {x.id for x in ast.walk(guard) if isinstance(x, ast.Name)} - {"Decimal"}
            if names == {val.id}:
                tt = K.truth_table(guard, val.id, extra=[0.0])
            elif isinstance(guard, ast.Name) and guard.id == val.id:
                tt = {"(-inf,0)": True, "{0}": False, "(0,+inf)": True}
        ctx.sample({"rule": "C09.1", "store": ast.unparse(s.stmt), "guard": ast.unparse(guard) if guard is not None else None, "truth_table": tt})
        ctx.check(tt == {"(-inf,0)": True, "{0}": False, "(0,+inf)": False}, "C09.1",
                  "a fee entry is produced exactly when the pending fee is a debit (< 0)", fn, s.stmt, str(tt),
                  f"the fee entry is stored for cells {tt}: a positive pending fee (earlier fills were over-charged by rounding) becomes a "
                  "refund, i.e. a negative fee, and the order's total fee drops below the exact amount")
    ctx.exhaustive = True
    nf = ctx.func(f"{FEES}.NoFee.calculate_fees")
    rets = [n for n in C.walk_shallow(nf.node) if isinstance(n, ast.Return)]
    ctx.check(len(rets) >= 1 and all(isinstance(r.value, ast.Dict) and not r.value.keys for r in rets), "C09.1",
              "the no-fee scheme never charges", nf, nf.node, "returns {} on every path", "NoFee can return a non-empty fee map")
    oi = ctx.func("basana.backtesting.orders.Order.get_order_info")
    ctx.check("fees={symbol: -amount for symbol, amount in self._fees.items() if amount}" in ast.unparse(oi.node), "C09.1",
              "reported fees are the negated charges", oi, oi.node, "-amount", "OrderInfo.fees is no longer the negated accumulated fees",
              key_text="reported fees")
    init = ctx.func(f"{FEES}.Percentage.__init__")
    asserts = [ast.unparse(n.test) for n in C.walk_shallow(init.node) if isinstance(n, ast.Assert)]
    ctx.check("percentage >= 0 and percentage < 100" in asserts and "min_fee >= 0" in asserts, "C09.1", "percentage in [0, 100) and minimum >= 0 "
              "are stated at construction", init, init.node, str(asserts), f"constructor asserts {asserts}", key_text="ctor asserts")


def _slice(fn, name: str, seen: Optional[Set[str]] = None) -> Set[str]:
    """source terms the local ``name`` is computed from (backward slice over single assignments)."""
    seen = seen or set()
    if name in seen:
        return set()
    seen.add(name)
    out: Set[str] = set()
    for s in A.stores(fn):
        if isinstance(s.target, ast.Name) and s.target.id == name and hasattr(s.node, "value"):
            v = s.node.value
            for x in ast.walk(v):
                if isinstance(x, ast.Name) and x.id not in ("Decimal", "abs", "max", "min"):
                    if any(isinstance(s2.target, ast.Name) and s2.target.id == x.id for s2 in A.stores(fn)):
                        out |= _slice(fn, x.id, seen)
                    else:
                        out.add(x.id)
                d = A.dotted(x) if isinstance(x, ast.Attribute) else None
                if d and d.startswith(("self.", "order.")):
                    out.add(d)
    return out


def rule_dependence(ctx: Ctx) -> None:
    fn = ctx.func(f"{FEES}.Percentage.calculate_fees")
    st = [s for s in A.stores(fn) if isinstance(s.target, ast.Subscript)]
    val = st[0].node.value
    ctx.require(isinstance(val, ast.Name), "C09.2: the stored fee is not a local name")
    deps = _slice(fn, val.id)
    need = {"order.fees": "the fees already charged to the order", "order.balance_updates": "the order's cumulative quote amount",
            fn.params[2]: "this fill's quote amount", "self._percentage": "the percentage", "self._min_fee": "the minimum fee"}
    ctx.sample({"rule": "C09.2", "charged fee depends on": sorted(deps)})
    for term, what in need.items():
        ctx.check(any(d == term or d.startswith(term + ".") for d in deps), "C09.2", f"the fee charged depends on {what}", fn, st[0].stmt,
                  f"{term} in the slice", f"the fee charged does not depend on {what}: the total is no longer independent of how the order "
                  "was split into fills / ignores the configuration")
    src = ast.unparse(fn.node)
    defs = {s.target.id: s.node.value for s in A.stores(fn) if isinstance(s.target, ast.Name) and hasattr(s.node, "value")}

    def resolve(e, depth=0):
        while isinstance(e, ast.Name) and e.id in defs and isinstance(defs[e.id], ast.Name) and depth < 5:
            e = defs[e.id]
            depth += 1
        return e
    pv = defs.get(val.id)
    okp = isinstance(pv, ast.BinOp) and isinstance(pv.op, ast.Sub) and isinstance(resolve(pv.right), ast.Name) \
        and "order.fees" in ast.unparse(defs.get(resolve(pv.right).id, ast.Constant(value=""))) and isinstance(resolve(pv.left), ast.Name)
    ctx.check(okp, "C09.2", "pending fee = total due - already charged", fn, st[0].stmt, ast.unparse(pv) if pv is not None else "?",
              f"pending fee is computed as {ast.unparse(pv) if pv is not None else '?'}")
    if okp:
        tv = defs.get(resolve(pv.left).id)
        txt = ast.unparse(tv) if tv is not None else ""
        ctx.check(txt.startswith("-max(") and "self._percentage / Decimal(100)" in txt and "self._min_fee" in txt and "abs(" in txt, "C09.2",
                  "total due = -max(|cumulative quote| x pct / 100, minimum)", fn, st[0].stmt, txt, f"total due is {txt}")
        tq = [k for k, v in defs.items() if "order.balance_updates.get(symbol" in ast.unparse(v) and f"{fn.params[2]}.get(symbol" in ast.unparse(v)]
        ctx.check(bool(tq) and tq[0] in txt, "C09.2", "the cumulative quote amount is what the order traded so far plus this fill", fn, st[0].stmt,
                  "order.balance_updates[quote] + fill[quote]", "cumulative quote amount is not order-so-far + this fill")


def rule_charged_recorded(ctx: Ctx) -> None:
    c01.rule_same_value(ctx, rule="C09.3")
    c08.rule_quantisation(ctx) if False else None
    rf = ctx.func(f"{OM}._round_fees")
    calls = [c for c in A.func_calls(rf) if (A.call_name(c) or "").endswith("round_decimal")]
    okr = len(calls) == 1 and A.dotted(A.kw(calls[0], "rounding")) == "decimal.ROUND_UP"
    ctx.check(okr, "C09.3", "the pending fee is rounded away from zero (up, for a debit) to the quote precision", rf, calls[0] if calls else rf.node,
              "ROUND_UP", "fee rounding is not away from zero")
    po = ctx.func(f"{OM}._process_order")
    n_round = [c for c in A.func_calls(po) if (A.call_name(c) or "") == "self._round_fees"]
    ctx.check(len(n_round) == 1, "C09.3", "fees are rounded once per fill", po, n_round[0] if n_round else po.node, "one call", f"{len(n_round)} calls")
    ci = A.call_index(ctx)
    callers = ci.callers_of(f"{FEES}.FeeStrategy.calculate_fees")
    ctx.floor("C09.3", "call sites of calculate_fees", len(callers), 2)
    for fn, m, c in callers:
        ok = fn is not None and fn.qualname in (f"{OM}._process_order", f"{OM}._estimate_required_balances")
        ctx.check(ok, "C09.3", "fees are computed only for a fill being processed or for the reservation estimate", fn, c, "ok",
                  f"calculate_fees is called from {fn.qualname if fn else '?'}")
        if fn is not None and fn.qualname == f"{OM}._process_order":
            g = ctx.cfg(fn)
            tests = [n for n in g.nodes if n.kind == "test" and "not in balance_updates" in ast.unparse(n.ast)]
            cn = g.nodes_for(c)[0]
            okd = bool(tests) and g.path_avoiding(g.entry, lambda n: n is cn, lambda n: n is tests[0]) is None
            ctx.check(okd, "C09.3", "no fee without a fill: the empty-fill test dominates the fee computation", fn, c, "fill test dominates",
                      "fees can be computed (and charged) for a bar that produced no fill")
            ctx.check(A.dotted(c.args[0]) == fn.params[1] and A.dotted(c.args[1]) == "balance_updates", "C09.3", "fees are computed for this order and this "
                      "(rounded) fill", fn, c, "calculate_fees(order, balance_updates)", "fees computed for other arguments")
    # the estimate's fees are never applied
    est = ctx.func(f"{OM}._estimate_required_balances")
    ctx.check(not any((A.call_name(c) or "").endswith("account_balances.update") for c in A.func_calls(est)), "C09.3",
              "estimated fees are never applied to the account", est, est.node, "no ledger update in the estimate", "the estimate updates the ledger")


def run(ctx: Ctx) -> None:
    rule_sign(ctx)
    rule_dependence(ctx)
    rule_charged_recorded(ctx)
    ctx.assume("percentage in [0,100) and min_fee >= 0 (asserted at construction)")
