"""C09 -- percentage fees are exact, rounded up once, never negative."""
from __future__ import annotations

import ast
from typing import Any, Dict, List, Optional, Set

from .. import astutil as A
from .. import cells as K
from .. import cfg as C
from ..core import Ctx
from . import c01, c08

PROP = "C09"
EXPLANATION = (
    "C09.1: Percentage.calculate_fees stores only under the order's quote symbol, and the guard of its only storing path is "
    "evaluated on threshold cells: a fee entry is produced exactly when the pending fee is < 0 (fees are debits), so the fee "
    "reported to users (negated) is never negative and no refund is ever produced; NoFee returns an empty mapping on every "
    "path. C09.2 dependence set: the amount charged depends on the order's cumulative quote amount, this fill's quote amount, "
    "the fees already charged, the percentage and the minimum, and is total-due minus already-charged (the mechanism that "
    "makes the total independent of how the order was split into fills). C09.3: what is charged is what is recorded (shared "
    "with C01.3), fees are rounded away from zero once on the pending difference (shared with C08.3), and calculate_fees is "
    "reached only from _process_order after the fill test and from the reservation estimate, so an order that never traded "
    "is never charged. The arithmetic identity total = ceil(max(pct x quote, min)) for every partition is not claimed: the "
    "mechanism is decided, not the number. This is one of the thinnest claims."
    " C09.3 also (shared with C08.5): fees are rounded to the pair's precision."
)
TRUSTED = ["CPython ast parser", "sa.cells", "mypy callee resolution"]

FEES = "basana.backtesting.fees"
OM = "basana.backtesting.order_mgr.OrderManager"


def fee_entries(fn):
    """Every place where Percentage.calculate_fees produces a fee entry: ``ret[K] = V`` or ``return {K: V}``; (key, value, stmt)."""
    out = []
    for s in A.stores(fn):
        if isinstance(s.target, ast.Subscript) and hasattr(s.node, "value"):
            out.append((s.target.slice, s.node.value, s.stmt))
    for r in C.walk_shallow(fn.node):
        if isinstance(r, ast.Return) and isinstance(r.value, ast.Dict) and r.value.keys:
            for k, v in zip(r.value.keys, r.value.values):
                out.append((k, v, r))
        elif isinstance(r, ast.Return) and isinstance(r.value, ast.IfExp):
            for br, neg in ((r.value.body, False), (r.value.orelse, True)):
                if isinstance(br, ast.Dict) and br.keys:
                    for k, v in zip(br.keys, br.values):
                        g = ast.UnaryOp(op=ast.Not(), operand=r.value.test) if neg else r.value.test
                        out.append((k, v, r, ast.fix_missing_locations(ast.copy_location(g, r))))
    return out


def fee_returns_recognised(fn) -> list:
    """Returns that are none of: the map stored into, {}, {K: V}, ``{K: V} if G else {}`` -- the rule cannot see what they produce."""
    stored = {A.dotted(s.target.value) for s in A.stores(fn) if isinstance(s.target, ast.Subscript)}

    def ok(v):
        if v is None:
            return False
        if isinstance(v, ast.Dict):
            return all(k is not None for k in v.keys)
        if isinstance(v, ast.IfExp):
            return ok(v.body) and ok(v.orelse)
        return A.dotted(v) in stored or (isinstance(v, ast.Name) and not stored and False)
    return [r for r in C.walk_shallow(fn.node) if isinstance(r, ast.Return) and not ok(r.value)
            and not (isinstance(r.value, ast.Name) and _is_empty_map(fn, r.value.id))]


def _is_empty_map(fn, name: str) -> bool:
    ds = [s for s in A.stores(fn) if isinstance(s.target, ast.Name) and s.target.id == name]
    return bool(ds) and all(hasattr(d.node, "value") and ast.unparse(d.node.value) in ("{}", "dict()") for d in ds)


def rule_sign(ctx: Ctx) -> None:
    from .. import norm as N
    fn = ctx.func(f"{FEES}.Percentage.calculate_fees")
    st = fee_entries(fn)
    ctx.floor("C09.1", "stores into the fee map", len(st), 1)
    unk = fee_returns_recognised(fn)
    ctx.check(not unk, "C09.1", "every return of calculate_fees is the fee map, {} or a {quote: fee} literal", fn, unk[0] if unk else fn.node,
              "recognised", "a return whose entries the rule cannot enumerate", key_text="returns recognised")
    for ent in st:
        key, val, stmt = ent[:3]
        ctx.check(key is not None and N.canon(N.expand(fn, key)) == "order.pair.quote_symbol", "C09.1", "fees are charged in the quote symbol only", fn, stmt,
                  "ret[order.pair.quote_symbol]", "a fee is stored under a key other than the order's quote symbol")
        guard = ent[3] if len(ent) > 3 else next((a.test for a in A.ancestors(stmt) if isinstance(a, ast.If) and A.is_within(stmt, a)
                                                  and not any(A.is_within(stmt, o) or o is stmt for o in a.orelse)), None)
        tt = None
        if guard is not None and isinstance(val, ast.Name):
            names = {x.id for x in ast.walk(guard) if isinstance(x, ast.Name)} - {"Decimal"}
            if names == {val.id}:
                tt = K.truth_table(guard, val.id, extra=[0.0])
            elif isinstance(guard, ast.Name) and guard.id == val.id:
                tt = {"(-inf,0)": True, "{0}": False, "(0,+inf)": True}
        ctx.sample({"rule": "C09.1", "store": ast.unparse(stmt), "guard": ast.unparse(guard) if guard is not None else None, "truth_table": tt})
        ctx.check(tt == {"(-inf,0)": True, "{0}": False, "(0,+inf)": False}, "C09.1",
                  "a fee entry is produced exactly when the pending fee is a debit (< 0)", fn, stmt, str(tt),
                  f"the fee entry is stored for cells {tt}: a positive pending fee (earlier fills were over-charged by rounding) becomes a "
                  "refund, i.e. a negative fee, and the order's total fee drops below the exact amount")
    ctx.exhaustive = True
    nf = ctx.func(f"{FEES}.NoFee.calculate_fees")
    rets = [n for n in C.walk_shallow(nf.node) if isinstance(n, ast.Return)]
    ctx.check(len(rets) >= 1 and all(isinstance(r.value, ast.Dict) and not r.value.keys for r in rets), "C09.1",
              "the no-fee scheme never charges", nf, nf.node, "returns {} on every path", "NoFee can return a non-empty fee map")
    oi = ctx.func("basana.backtesting.orders.Order.get_order_info")
    ctx.check("fees={symbol: -amount for symbol, amount in self._fees.items() if amount}" in ast.unparse(oi.node), "C09.1",
              "reported fees are the negated charges", oi, oi.node, "-amount", "OrderInfo.fees is no longer the negated accumulated fees",
              key_text="reported fees")
    init = ctx.func(f"{FEES}.Percentage.__init__")
    asserts = [ast.unparse(n.test) for n in C.walk_shallow(init.node) if isinstance(n, ast.Assert)]
    ctx.check("percentage >= 0 and percentage < 100" in asserts and "min_fee >= 0" in asserts, "C09.1", "percentage in [0, 100) and minimum >= 0 "
              "are stated at construction", init, init.node, str(asserts), f"constructor asserts {asserts}", key_text="ctor asserts")


def _slice(fn, name: str, seen: Optional[Set[str]] = None) -> Set[str]:
    """source terms the local ``name`` is computed from (backward slice over single assignments)."""
    seen = seen or set()
    if name in seen:
        return set()
    seen.add(name)
    out: Set[str] = set()
    for s in A.stores(fn):
        if isinstance(s.target, ast.Name) and s.target.id == name and hasattr(s.node, "value"):
            v = s.node.value
            for x in ast.walk(v):
                if isinstance(x, ast.Name) and x.id not in ("Decimal", "abs", "max", "min"):
                    if any(isinstance(s2.target, ast.Name) and s2.target.id == x.id for s2 in A.stores(fn)):
                        out |= _slice(fn, x.id, seen)
                    else:
                        out.add(x.id)
                d = A.dotted(x) if isinstance(x, ast.Attribute) else None
                if d and d.startswith(("self.", "order.")):
                    out.add(d)
    return out


def rule_dependence(ctx: Ctx) -> None:
    from .. import norm as N
    fn = ctx.func(f"{FEES}.Percentage.calculate_fees")
    st = fee_entries(fn)
    val, stmt = st[0][1], st[0][2]
    ctx.require(isinstance(val, ast.Name), "C09.2: the stored fee is not a local name")
    deps = _slice(fn, val.id)
    need = {"order.fees": "the fees already charged to the order", "order.balance_updates": "the order's cumulative quote amount",
            fn.params[2]: "this fill's quote amount", "self._percentage": "the percentage", "self._min_fee": "the minimum fee"}
    ctx.sample({"rule": "C09.2", "charged fee depends on": sorted(deps)})
    for term, what in need.items():
        ctx.check(any(d == term or d.startswith(term + ".") for d in deps), "C09.2", f"the fee charged depends on {what}", fn, stmt,
                  f"{term} in the slice", f"the fee charged does not depend on {what}: the total is no longer independent of how the order "
                  "was split into fills / ignores the configuration")
    # shape of the computation with every local temporary expanded
    pv = N.expand(fn, val, depth=8)
    ptxt = N.canon(pv)
    okp = isinstance(pv, ast.BinOp) and isinstance(pv.op, ast.Sub) and N.canon(pv.right).startswith("order.fees.get(order.pair.quote_symbol")
    ctx.check(okp, "C09.2", "pending fee = total due - already charged", fn, stmt, ptxt[:160], f"pending fee is computed as {ptxt[:160]}",
              key_text="pending = total - charged")
    if okp:
        txt = N.canon(pv.left)
        ctx.check(txt.startswith("-max(") and "self._percentage / Decimal(100)" in txt and "self._min_fee" in txt and "abs(" in txt, "C09.2",
                  "total due = -max(|cumulative quote| x pct / 100, minimum)", fn, stmt, txt, f"total due is {txt}", key_text="total due")
        absargs = [N.canon(c.args[0]).replace(" ", "") for c in ast.walk(pv.left) if isinstance(c, ast.Call) and A.call_name(c) == "abs" and c.args]
        so_far, this = "order.balance_updates.get(order.pair.quote_symbol,Decimal(0))", f"{fn.params[2]}.get(order.pair.quote_symbol,Decimal(0))"
        ctx.check(bool(absargs) and absargs[0] in (f"{so_far}+{this}", f"{this}+{so_far}"), "C09.2",
                  "the cumulative quote amount is what the order traded so far plus this fill", fn, stmt,
                  "order.balance_updates[quote] + fill[quote]", "cumulative quote amount is not order-so-far + this fill", key_text="cumulative quote")


def rule_charged_recorded(ctx: Ctx) -> None:
    c01.rule_same_value(ctx, rule="C09.3")
    # 'rounded up to the quote precision': the precision _round_fees applies is the pair's (shared with C08.5)
    ctx.rule_map = {"C08.5": "C09.3"}
    try:
        c08.rule_precision_sources(ctx)
    finally:
        ctx.rule_map = {}
    c08.rule_quantisation(ctx) if False else None
    rf = ctx.func(f"{OM}._round_fees")
    calls = [c for c in A.func_calls(rf) if (A.call_name(c) or "").endswith("round_decimal")]
    okr = len(calls) == 1 and A.dotted(A.kw(calls[0], "rounding")) == "decimal.ROUND_UP"
    ctx.check(okr, "C09.3", "the pending fee is rounded away from zero (up, for a debit) to the quote precision", rf, calls[0] if calls else rf.node,
              "ROUND_UP", "fee rounding is not away from zero")
    po = ctx.func(f"{OM}._process_order")
    n_round = [c for c in A.func_calls(po) if (A.call_name(c) or "") == "self._round_fees"]
    ctx.check(len(n_round) == 1, "C09.3", "fees are rounded once per fill", po, n_round[0] if n_round else po.node, "one call", f"{len(n_round)} calls")
    ci = A.call_index(ctx)
    callers = ci.callers_of(f"{FEES}.FeeStrategy.calculate_fees")
    ctx.floor("C09.3", "call sites of calculate_fees", len(callers), 2)
    for fn, m, c in callers:
        ok = fn is not None and fn.qualname in (f"{OM}._process_order", f"{OM}._estimate_required_balances")
        ctx.check(ok, "C09.3", "fees are computed only for a fill being processed or for the reservation estimate", fn, c, "ok",
                  f"calculate_fees is called from {fn.qualname if fn else '?'}")
        if fn is not None and fn.qualname == f"{OM}._process_order":
            g = ctx.cfg(fn)
            tests = [n for n in g.nodes if n.kind == "test" and "not in balance_updates" in ast.unparse(n.ast)]
            cn = g.nodes_for(c)[0]
            okd = bool(tests) and g.path_avoiding(g.entry, lambda n: n is cn, lambda n: n is tests[0]) is None
            ctx.check(okd, "C09.3", "no fee without a fill: the empty-fill test dominates the fee computation", fn, c, "fill test dominates",
                      "fees can be computed (and charged) for a bar that produced no fill")
            ctx.check(A.dotted(c.args[0]) == fn.params[1] and A.dotted(c.args[1]) == "balance_updates", "C09.3", "fees are computed for this order and this "
                      "(rounded) fill", fn, c, "calculate_fees(order, balance_updates)", "fees computed for other arguments")
    # the estimate's fees are never applied
    est = ctx.func(f"{OM}._estimate_required_balances")
    ctx.check(not any((A.call_name(c) or "").endswith("account_balances.update") for c in A.func_calls(est)), "C09.3",
              "estimated fees are never applied to the account", est, est.node, "no ledger update in the estimate", "the estimate updates the ledger")


def run(ctx: Ctx) -> None:
    rule_sign(ctx)
    rule_dependence(ctx)
    rule_charged_recorded(ctx)
    ctx.assume("percentage in [0,100) and min_fee >= 0 (asserted at construction)")
