"""C14 -- dispatcher lifecycle, fault isolation, bounded concurrency, logging restored."""
from __future__ import annotations

import ast
from typing import Dict, List, Optional, Set, Tuple

from .. import astutil as A
from .. import cfg as C
from ..core import Ctx
from .c13 import isolated

PROP = "C14"
EXPLANATION = (
    "Static analysis of basana/core/{dispatcher,helpers,logs}.py. C14.1 phase ordering in EventDispatcher.run on the CFG "
    "(initialize group exits before main group starts; finalize of every producer awaited in finally through the "
    "no-raise gather after pool.cancel() then pool.wait(); TaskGroup.__aexit__ cancels and awaits in finally). "
    "C14.2 every invocation of a user handler/job is inside except Exception without re-raise and handler coroutines "
    "are only created as arguments of TaskPool.push (who-may-call over mypy-resolved callees). C14.3 in TaskPool.push the "
    "insertion is dominated by the false edge of the capacity test (evaluated on the 3 orderings of {len, max}) with no "
    "suspension point in between. C14.4 re-entrancy: async methods reachable from two coroutines of one gather may "
    "drive only idempotent/guarded mutations of shared state with values obtained across an await. C14.5 every "
    "@contextmanager generator runs its post-yield statements on the exception path too (role-anchored)."
    " C14.1 also: an exception or cancellation that ends the initialize phase cannot be followed by main(); the phase context manager lets exceptions propagate."
    " C14.2 also: the isolating handler does not read attributes of the user-supplied callable."
)
TRUSTED = ["CPython ast parser", "sa.cfg statement CFG", "mypy callee resolution (call graph)",
           "asyncio semantics: only await/async for/async with suspend"]

DISP = "basana.core.dispatcher"
HELP = "basana.core.helpers"


def _calls_named(fn, suffix: str) -> List[ast.Call]:
    return [c for c in A.func_calls(fn) if (A.call_name(c) or "").endswith(suffix)]


# -- C14.1 ------------------------------------------------------------------------------------------------------
def rule_phases(ctx: Ctx) -> None:
    run = ctx.func(f"{DISP}.EventDispatcher.run")
    g = ctx.cfg(run)
    init = _calls_named(run, ".initialize")
    main = _calls_named(run, ".main")
    fin = _calls_named(run, ".finalize")
    loop = _calls_named(run, "self._dispatch_loop")
    ctx.floor("C14.1", "producer.initialize() sites in run", len(init), 1)
    ctx.floor("C14.1", "producer.main() sites in run", len(main), 1)
    ctx.floor("C14.1", "producer.finalize() sites in run", len(fin), 1)
    ctx.floor("C14.1", "_dispatch_loop() sites in run", len(loop), 1)

    def with_of(c: ast.Call) -> Optional[ast.AST]:
        for a in A.ancestors(c):
            if isinstance(a, (ast.AsyncWith, ast.With)):
                return a
        return None

    # every initialize()/main() is handed to a task group created by self._task_group()
    for c in init + main + loop:
        w = with_of(c)
        good = w is not None and any((A.call_name(i.context_expr) or "") == "self._task_group"
                                     for i in w.items if isinstance(i.context_expr, ast.Call))
        par = c.parent  # type: ignore[attr-defined]
        created = isinstance(par, ast.Call) and (A.call_name(par) or "").endswith(".create_task")
        ctx.check(good and created, "C14.1", "producer coroutine runs as a task of a dispatcher task group", run, c,
                  "tg.create_task(...) inside 'async with self._task_group()'",
                  "producer coroutine is not started through a task group (it is neither awaited at group exit nor "
                  "cancelled on stop)")
    # initialise group is left (all initialize() awaited) before any main() task is created
    init_withs = {id(with_of(c)): with_of(c) for c in init if with_of(c) is not None}
    for c in main + loop:
        for mn in g.nodes_for(c):
            exits = [n for n in g.nodes if n.kind == "withexit" and id(n.ast) in init_withs]
            same = with_of(c) is not None and id(with_of(c)) in init_withs
            path = g.path_avoiding(g.entry, lambda n: n is mn, lambda n: n in exits) if not same else [g.entry, mn]
            ctx.check(path is None, "C14.1", "main()/dispatch loop start only after the initialize group exited", run, c,
                      "the exit of the initialize task group dominates this create_task",
                      "a producer's main loop (or the dispatch loop) can start before every producer finished "
                      "initialize()", detail={"path": C.fmt_path(path) if path else []})
    # an exception or a cancellation that ends the initialize phase never falls through into the main phase
    init_nodes = [n for n in g.nodes if n.ast is not None and any(A.is_within(n.ast, w) or n.ast is w for w in init_withs.values())]
    after_exc = g.reach([m for n in init_nodes for (m, l) in n.succ if l == "exc"], include_sources=True)
    leaked = [c for c in main + loop if any(mn in after_exc for mn in g.nodes_for(c))]
    ctx.check(not leaked, "C14.1", "a failed or cancelled initialize phase is never followed by main()", run, leaked[0] if leaked else run.node,
              "no handler between the two phases", "an exception raised while initialising is handled in a way that continues with the main "
              "phase: main() starts for producers that were not initialised", key_text="init failure skips main")
    # ... and the context manager both phases run in lets exceptions through (a stop() during initialize cancels the group: that
    # CancelledError has to leave the 'async with', otherwise run() carries on to main())
    for w in {id(with_of(c)): with_of(c) for c in init + main if with_of(c) is not None}.values():
        for item in w.items:
            cm = item.context_expr
            if isinstance(cm, ast.Call) and (A.call_name(cm) or "").startswith("self."):
                cmf = ctx.repo.funcs.get(f"{run.cls.qualname}.{A.call_name(cm).split('.', 1)[1]}") if run.cls else None
                if cmf is None:
                    continue
                ctx.analysed_funcs.add(cmf.qualname)
                gc = ctx.cfg(cmf)
                ys_ = [n for n in gc.nodes if n.ast is not None and any(isinstance(x, ast.Yield) for x in C.walk_shallow(n.ast))] if hasattr(C, "walk_shallow") else []
                swallow = False
                for yn in ys_:
                    from_exc = gc.reach([m for (m, l) in yn.succ if l == "exc"], include_sources=True)
                    swallow |= gc.exit in from_exc
                ctx.check(bool(ys_) and not swallow, "C14.1", f"{cmf.name}() lets an exception raised inside the phase propagate", cmf, cmf.node,
                          "no handler around the yield completes normally", f"{cmf.name}() can swallow an exception (e.g. the CancelledError "
                          "of a stop() during initialize): the phase ends 'normally' and run() moves on to main()", key_text=f"cm propagates {cmf.name}")
    # every initialize site iterates self._producers; same for main and finalize
    for c in init + main + fin:
        it = None
        for a in A.ancestors(c):
            if isinstance(a, (ast.For, ast.AsyncFor)):
                it = a.iter
                break
            if isinstance(a, (ast.ListComp, ast.GeneratorExp)):
                it = a.generators[0].iter
                break
        ctx.check(it is not None and A.dotted(it) == "self._producers", "C14.1",
                  "phase covers every registered producer", run, c, "iterates self._producers",
                  "phase does not iterate over self._producers (some producer is skipped)")
    # finalize: in the finally of the try that encloses both groups, awaited through gather_no_raise,
    # after pool.cancel() and await pool.wait()
    tries = [n for n in C.walk_shallow(run.node) if isinstance(n, ast.Try) and n.finalbody]
    for c in fin:
        t = next((t for t in tries if any(A.is_within(c, s) for s in t.finalbody)), None)
        encl = t is not None and all(any(A.is_within(x, s) for s in t.body) for x in init + main + loop)
        ctx.check(encl, "C14.1", "finalize() runs in the finally that encloses both phases", run, c,
                  "in finalbody of the enclosing try", "finalize() is not in a finally enclosing initialize/main: "
                  "some exit path skips finalisation")
        gn = None
        for a in A.ancestors(c):
            if isinstance(a, ast.Call) and (A.call_name(a) or "").split(".")[-1] == "gather_no_raise":
                gn = a
                break
        ctx.check(gn is not None and isinstance(gn.parent, ast.Await), "C14.1",  # type: ignore
                  "finalize() awaited through the no-raise gather", run, c, "await gather_no_raise(...)",
                  "finalize() is not awaited via gather_no_raise: one failing finalize skips the others")
        if t is not None and gn is not None:
            stmts = t.finalbody
            idx = next(i for i, s in enumerate(stmts) if A.is_within(gn, s))
            before = stmts[:idx]
            cancel_i = next((i for i, s in enumerate(before) if any(
                (A.call_name(x) or "").endswith("_handlers_task_pool.cancel") for x in A.calls(s))), None)
            wait_i = next((i for i, s in enumerate(before) if any(
                isinstance(x, ast.Await) and isinstance(x.value, ast.Call)
                and (A.call_name(x.value) or "").endswith("_handlers_task_pool.wait") for x in ast.walk(s))), None)
            # ... and the cancellation is not conditional: on every path into the wait the pool was told to cancel
            uncond = False
            if cancel_i is not None and wait_i is not None:
                cnodes = [n_ for x in A.calls(before[cancel_i], shallow=False) if (A.call_name(x) or "").endswith("_handlers_task_pool.cancel") for n_ in g.nodes_for(x)]
                wnodes = [n_ for x in ast.walk(before[wait_i]) if isinstance(x, ast.Call) and (A.call_name(x) or "").endswith("_handlers_task_pool.wait") for n_ in g.nodes_for(x)]
                uncond = bool(cnodes) and bool(wnodes) and all(
                    g.path_avoiding(g.entry, lambda n, w=w: n is w, lambda n: n in cnodes) is None for w in wnodes)
            ctx.check(cancel_i is not None and wait_i is not None and cancel_i < wait_i and uncond, "C14.1",
                      "in-flight handlers are cancelled, then awaited, before producers are finalised", run, c,
                      "pool.cancel(); await pool.wait(); finalize", "handlers still in flight are awaited without "
                      "being cancelled (run does not end promptly) or are not reaped before finalize")
    ctx.check(len(fin) == 1, "C14.1", "exactly one finalize site", run, run.node, "one site",
              f"{len(fin)} finalize() sites: a producer may be finalised more than once", key_text="finalize sites")
    # CancelledError swallowed only when stop() was requested
    for h in [h for t in [n for n in C.walk_shallow(run.node) if isinstance(n, ast.Try)] for h in t.handlers]:
        nm = A.dotted(h.type) if h.type is not None else "BaseException"
        if nm and nm.endswith("CancelledError"):
            ok = any(isinstance(s, ast.If) and "stopped" in ast.unparse(s.test) and "not" in ast.unparse(s.test)
                     and any(isinstance(x, ast.Raise) for x in ast.walk(s)) for s in h.body)
            ctx.check(ok, "C14.1", "external cancellation is re-raised unless stop() was requested", run, h,
                      "if not self.stopped: raise", "CancelledError is swallowed (or always raised) regardless of stop()")
    # gather_no_raise / await_no_raise / no_raise
    gnr = ctx.func(f"{DISP}.gather_no_raise")
    anr = ctx.func(f"{DISP}.await_no_raise")
    nr = ctx.func(f"{HELP}.no_raise")
    ctx.check(any((A.call_name(c) or "").endswith("await_no_raise") for c in A.func_calls(gnr)), "C14.1",
              "gather_no_raise wraps each awaitable in await_no_raise", gnr, gnr.node, "wraps", "does not wrap",
              key_text="gather_no_raise wraps")
    aw = [n for n in C.walk_shallow(anr.node) if isinstance(n, ast.Await)]
    okw = bool(aw) and all(any(isinstance(a, ast.With) and any(
        (A.call_name(i.context_expr) or "").endswith("no_raise") for i in a.items if isinstance(i.context_expr, ast.Call))
        for a in A.ancestors(x)) for x in aw)
    ctx.check(okw, "C14.1", "await_no_raise awaits inside helpers.no_raise", anr, anr.node, "with no_raise: await",
              "await not protected by no_raise", key_text="await_no_raise protected")
    ys = [n for n in C.walk_shallow(nr.node) if isinstance(n, ast.Yield)]
    ctx.require(ys, "C14.1: helpers.no_raise has no yield")
    ok, why = isolated(ys[0])
    ctx.check(ok, "C14.1", "no_raise swallows Exception", nr, ys[0], why, why)
    # TaskGroup.__aexit__
    ax = ctx.func(f"{HELP}.TaskGroup.__aexit__")
    tr = [n for n in C.walk_shallow(ax.node) if isinstance(n, ast.Try) and n.finalbody]
    okx = False
    if tr:
        t = tr[0]
        gathers = [c for s in t.body for c in A.calls(s) if (A.call_name(c) or "").endswith("gather")]
        cancels = [c for s in t.finalbody for c in A.calls(s, shallow=False) if (A.call_name(c) or "").endswith("_cancel") or (A.call_name(c) or "").endswith(".cancel")]
        awaits_pending = [c for s in t.finalbody for c in A.calls(s) if (A.call_name(c) or "").endswith("gather")
                          and any(k.arg == "return_exceptions" and A.const_value(k.value) is True for k in c.keywords)]
        okx = bool(gathers) and bool(cancels) and bool(awaits_pending)
    ctx.check(okx, "C14.1", "TaskGroup exit awaits its tasks, and in finally cancels and awaits what is pending", ax,
              ax.node, "try: gather(tasks) finally: cancel + gather(pending, return_exceptions=True)",
              "TaskGroup.__aexit__ does not await its tasks / does not cancel and reap pending tasks on every exit",
              key_text="TaskGroup.__aexit__ shape")
    # stop(): cancels the active group and the pool
    stop = ctx.func(f"{DISP}.EventDispatcher.stop")
    names = [A.call_name(c) or "" for c in A.func_calls(stop)]
    ctx.check("self._active_tasks.cancel" in names and "self._handlers_task_pool.cancel" in names, "C14.1",
              "stop() cancels producers/dispatch loop and in-flight handlers", stop, stop.node,
              "cancels task group and pool", "stop() does not cancel both the task group and the handler pool",
              key_text="stop cancels")
    sets = [s for s in A.stores(stop) if isinstance(s.target, ast.Attribute) and s.target.attr == "_stopped"
            and A.const_value(getattr(s.node, "value", None)) is True]
    ctx.check(bool(sets), "C14.1", "stop() records the request", stop, stop.node, "_stopped = True",
              "stop() does not set _stopped", key_text="stop sets flag")


# -- C14.2 ------------------------------------------------------------------------------------------------------
def rule_isolation(ctx: Ctx) -> None:
    ceh = ctx.func(f"{DISP}.EventDispatcher._call_event_handler")
    params = ceh.params
    aw = [n for n in C.walk_shallow(ceh.node) if isinstance(n, ast.Await) and isinstance(n.value, ast.Call)
          and isinstance(n.value.func, ast.Name) and n.value.func.id in params]
    ctx.floor("C14.2", "await handler(event) in _call_event_handler", len(aw), 1)
    for a in aw:
        ok, why = isolated(a)
        ctx.check(ok, "C14.2", "handler exception is contained", ceh, a, why, why)
    from .c13 import job_invocations
    sites = job_invocations(ctx)
    ctx.floor("C14.2", "invocations of the scheduled job callable", len(sites), 1)
    for f2, node, what in sites:
        ok, why = isolated(node)
        ctx.check(ok, "C14.2", f"job exception is contained ({what})", f2, node, why, why)
    # _dispatch_event calls handlers only through _call_event_handler, in gathers
    de = ctx.func(f"{DISP}.EventDispatcher._dispatch_event")
    for c in A.func_calls(de):
        if isinstance(c.func, ast.Name) and c.func.id in ("handler",):
            ctx.bad("C14.2", "handlers invoked only via _call_event_handler", de, c,
                    "handler called directly in _dispatch_event: its exception aborts the other handlers of the event")
    # who-may-call: coroutine factories of handler work are only created as arguments of TaskPool.push
    ci = A.call_index(ctx)
    n_sites = 0
    for target in (f"{DISP}.EventDispatcher._dispatch_event", f"{DISP}.EventDispatcher._execute_scheduled"):
        for fn, m, c in ci.callers_of(target):
            n_sites += 1
            pushed = _flows_only_into_push(ctx, fn, m, c)
            ctx.check(pushed, "C14.2", f"{target.rsplit('.', 1)[-1]} coroutine goes through TaskPool.push", fn, c,
                      "argument of TaskPool.push", "handler/job coroutine is started outside the bounded pool")
    ctx.floor("C14.2", "creation sites of handler/job coroutines", n_sites, 4)
    idle_calls = []
    for nm_, oi in sorted(ctx.repo.methods_of(f"{DISP}.RealtimeDispatcher").items()):
        for node in ast.walk(oi.node):
            gens = node.generators if isinstance(node, (ast.ListComp, ast.GeneratorExp, ast.SetComp)) else ([node] if isinstance(node, (ast.For, ast.AsyncFor)) else [])
            for g_ in gens:
                if A.dotted(g_.iter) == "self._idle_handlers" and isinstance(g_.target, ast.Name):
                    idle_calls += [(oi, c) for c in ast.walk(node) if isinstance(c, ast.Call) and isinstance(c.func, ast.Name) and c.func.id == g_.target.id]
    ctx.floor("C14.2", "idle handler invocations", len(idle_calls), 1)
    for oi, c in idle_calls:
        par = c.parent  # type: ignore[attr-defined]
        ctx.check(isinstance(par, ast.Call) and (A.call_name(par) or "").endswith("_handlers_task_pool.push"), "C14.2",
                  "idle handler goes through TaskPool.push", oi, c, "argument of pool.push",
                  "idle handler started outside the bounded pool")
    # create_task is only used by TaskGroup.create_task and TaskPool.push
    for fn in ctx.repo.all_funcs():
        if not fn.module.modname.startswith("basana.core."):
            continue
        for c in A.func_calls(fn):
            if A.call_name(c) in ("asyncio.create_task", "asyncio.ensure_future"):
                allowed = fn.qualname in (f"{HELP}.TaskPool.push", f"{HELP}.TaskGroup.create_task")
                ctx.check(allowed, "C14.2", "tasks are spawned only by TaskPool.push / TaskGroup.create_task", fn, c,
                          "allowed spawner", "a task is spawned outside the pool and the task group: it is neither "
                          "bounded nor cancelled/awaited at the end of the run")


def _flows_only_into_push(ctx: Ctx, fn, m, c: ast.Call) -> bool:
    """The coroutine object created by ``c`` is handed to TaskPool.push -- directly, or through a local temporary whose only
    use is as the argument of TaskPool.push."""
    ci = A.call_index(ctx)
    par = c.parent  # type: ignore[attr-defined]
    if isinstance(par, ast.Call) and c in par.args and ci.resolves_to(ci.callees(m, par), f"{HELP}.TaskPool.push"):
        return True
    if isinstance(par, ast.Assign) and len(par.targets) == 1 and isinstance(par.targets[0], ast.Name) and par.value is c and fn is not None:
        nm = par.targets[0].id
        uses = [n for n in A.body_nodes(fn, shallow=False) if isinstance(n, ast.Name) and n.id == nm and isinstance(n.ctx, ast.Load)]
        if not uses:
            return False
        for u in uses:
            up = u.parent  # type: ignore[attr-defined]
            if not (isinstance(up, ast.Call) and u in up.args and ci.resolves_to(ci.callees(m, up), f"{HELP}.TaskPool.push")):
                return False
        return True
    return False


# -- C14.3 ------------------------------------------------------------------------------------------------------
def _cap_test_truth(test: ast.AST) -> Optional[Dict[str, bool]]:
    """Evaluate the capacity test on the three orderings of L=len(self._tasks) and M=self._max_size."""
    def sym(e: ast.AST) -> Optional[str]:
        if isinstance(e, ast.Call) and A.call_name(e) == "len" and len(e.args) == 1 \
                and A.dotted(e.args[0]) == "self._tasks":
            return "L"
        if A.dotted(e) == "self._max_size":
            return "M"
        return None

    def ev(e: ast.AST, val: Dict[str, int]) -> Optional[bool]:
        if isinstance(e, ast.UnaryOp) and isinstance(e.op, ast.Not):
            r = ev(e.operand, val)
            return None if r is None else (not r)
        if isinstance(e, ast.Compare) and len(e.ops) == 1:
            a, b = sym(e.left), sym(e.comparators[0])
            if a is None or b is None:
                return None
            x, y = val[a], val[b]
            op = e.ops[0]
            return {ast.Lt: x < y, ast.LtE: x <= y, ast.Gt: x > y, ast.GtE: x >= y, ast.Eq: x == y,
                    ast.NotEq: x != y}.get(type(op))
        return None
    out = {}
    for name, val in (("L<M", {"L": 1, "M": 2}), ("L==M", {"L": 2, "M": 2}), ("L>M", {"L": 3, "M": 2})):
        r = ev(test, val)
        if r is None:
            return None
        out[name] = r
    return out


def rule_bound(ctx: Ctx) -> None:
    push = ctx.func(f"{HELP}.TaskPool.push")
    g = ctx.cfg(push)
    adds = [s for s in A.stores(push) if s.kind == "mutcall" and A.dotted(s.target) == "self._tasks"
            and s.node.func.attr == "add"]  # type: ignore[attr-defined]
    ctx.floor("C14.3", "insertions into TaskPool._tasks in push", len(adds), 1)
    tests = [n for n in g.nodes if n.kind == "test" and _cap_test_truth(n.ast) is not None]
    ctx.require(tests, "C14.3: capacity test on len(self._tasks) vs self._max_size not found in TaskPool.push "
                       "(unrecognised idiom)")
    for t in tests:
        tt = _cap_test_truth(t.ast)
        ctx.sample({"rule": "C14.3", "capacity_test": ast.unparse(t.ast), "truth_on_orderings": tt})
        ctx.check(tt["L==M"] and tt["L>M"], "C14.3", "capacity test holds whenever len(tasks) >= max", push, t.ast,
                  f"truth table {tt}", f"capacity test {ast.unparse(t.ast)} is false for a full pool ({tt}): push admits "
                  "a task beyond max_concurrent")
    for s in adds:
        for an in g.nodes_for(s.node):
            # walk backwards: every way to reach the add must come straight from the false edge of a capacity
            # test, with no suspension point in between
            bad = None
            seen = set()
            work = [(an, [an])]
            while work and bad is None:
                n, path = work.pop()
                for (p, lab) in n.pred:
                    if (p.id, lab) in seen:
                        continue
                    seen.add((p.id, lab))
                    if p in tests and lab == "false":
                        continue
                    if p is g.entry:
                        bad = ("reaches the insertion without passing the capacity test", [p] + path)
                        break
                    if C.contains_await(p):
                        bad = ("a suspension point lies between the capacity test and the insertion (another pusher "
                               "can fill the pool in between)", [p] + path)
                        break
                    work.append((p, [p] + path))
            ctx.check(bad is None, "C14.3", "insertion dominated by 'not full', no await in between", push, s.node,
                      "dominated by the false edge of the capacity test; no suspension in between",
                      bad[0] if bad else "", detail={"path": C.fmt_path(bad[1]) if bad else []})
            ctx.check(not C.contains_await(an), "C14.3", "insertion itself does not suspend", push, s.node,
                      "no await in the inserting statement", "the inserting statement suspends before inserting")
    # writers of _tasks/_max_size
    tp = ctx.repo.methods_of(f"{HELP}.TaskPool")
    for name, fn in sorted(tp.items()):
        for s in A.stores(fn):
            d = A.dotted(s.target)
            if d == "self._max_size":
                ctx.check(name == "__init__", "C14.3", "max size fixed at construction", fn, s.stmt, "__init__ only",
                          "_max_size reassigned after construction")
            if d == "self._tasks" and s.kind == "mutcall" and s.node.func.attr in ("add", "update") and name != "push":  # type: ignore
                ctx.bad("C14.3", "tasks enter the pool only through push", fn, s.stmt,
                        "task inserted into the pool outside push(): bypasses the capacity test")
    init = ctx.func(f"{HELP}.TaskPool.__init__")
    has_assert = any(isinstance(n, ast.Assert) and "size" in ast.unparse(n.test) and ">" in ast.unparse(n.test)
                     for n in C.walk_shallow(init.node))
    ctx.check(has_assert, "C14.3", "pool size validated > 0", init, init.node, "assert size > 0",
              "pool size is not validated", key_text="size validated")


# -- C14.4 ------------------------------------------------------------------------------------------------------
def _gather_sites(ctx: Ctx):
    """(function, gather call, [coroutine-creating call expressions], replicated?)"""
    out = []
    for fn in ctx.repo.all_funcs():
        if not fn.module.modname.startswith("basana.core."):
            continue
        for c in A.func_calls(fn):
            nm = (A.call_name(c) or "").split(".")[-1]
            if nm not in ("gather", "gather_no_raise"):
                continue
            coros: List[Tuple[ast.Call, bool]] = []
            for a in c.args:
                if isinstance(a, ast.Call):
                    coros.append((a, False))
                elif isinstance(a, ast.Starred) and isinstance(a.value, (ast.ListComp, ast.GeneratorExp)) \
                        and isinstance(a.value.elt, ast.Call):
                    coros.append((a.value.elt, True))
            if coros:
                out.append((fn, c, coros))
    return out


def rule_reentrancy(ctx: Ctx) -> None:
    ci = A.call_index(ctx)
    sites = _gather_sites(ctx)
    ctx.floor("C14.4", "gather sites in basana.core", len(sites), 4)
    concurrent: Dict[str, List[str]] = {}
    for fn, gc, coros in sites:
        reach_sets = []
        for (call, replicated) in coros:
            roots = []
            for callee in ci.callees(fn.module, call):
                roots.extend(t for t in ci.overrides_of(callee) if t in ctx.repo.funcs)
            # calls nested in the arguments (e.g. push(idle_handler())) also run
            for inner in A.calls(call):
                if inner is call:
                    continue
                for callee in ci.callees(fn.module, inner):
                    roots.extend(t for t in ci.overrides_of(callee) if t in ctx.repo.funcs)
            r = A.reachable(ctx, roots)
            reach_sets.append((r, replicated, ast.unparse(call)[:60]))
        for i, (r1, rep1, t1) in enumerate(reach_sets):
            if rep1:
                for q in r1:
                    concurrent.setdefault(q, []).append(f"{fn.qualname}: [{t1} for ...] (replicated)")
            for j in range(i + 1, len(reach_sets)):
                r2, rep2, t2 = reach_sets[j]
                for q in r1 & r2:
                    concurrent.setdefault(q, []).append(f"{fn.qualname}: {t1} || {t2}")
    conc_async = {q: why for q, why in concurrent.items() if ctx.repo.funcs[q].is_async
                  and ctx.repo.funcs[q].cls is not None and ctx.repo.funcs[q].module.modname.startswith("basana.core.")}
    ctx.note(f"C14.4 concurrently re-entrant async methods: {sorted(conc_async)}")
    ctx.floor("C14.4", "concurrently re-entrant async methods", len(conc_async), 2)
    ctx.require(f"{HELP}.TaskPool._wait_impl" in conc_async or f"{HELP}.TaskPool.push" in conc_async,
                "C14.4: TaskPool.push/_wait_impl not found re-entrant from RealtimeDispatcher (resolver broken)")
    for q in sorted(conc_async):
        fn = ctx.repo.funcs[q]
        ctx.analysed_funcs.add(q)
        ctx.sample({"rule": "C14.4", "reentrant": q, "because": conc_async[q][:2]})
        # taint: names bound from an await expression (directly or by unpacking / iteration over a tainted name)
        tainted: Set[str] = set()
        changed = True
        while changed:
            changed = False
            for n in C.walk_shallow(fn.node):
                tgts: List[ast.AST] = []
                src: Optional[ast.AST] = None
                if isinstance(n, ast.Assign):
                    tgts, src = n.targets, n.value
                elif isinstance(n, ast.AnnAssign) and n.value is not None:
                    tgts, src = [n.target], n.value
                elif isinstance(n, (ast.For, ast.AsyncFor)):
                    tgts, src = [n.target], n.iter
                elif isinstance(n, ast.NamedExpr):
                    tgts, src = [n.target], n.value
                if src is None:
                    continue
                is_t = any(isinstance(x, ast.Await) for x in ast.walk(src)) or any(
                    isinstance(x, ast.Name) and x.id in tainted for x in ast.walk(src))
                if is_t:
                    for t in tgts:
                        for x in ast.walk(t):
                            if isinstance(x, ast.Name) and x.id not in tainted and x.id != "_":
                                tainted.add(x.id)
                                changed = True
        n_mut = 0
        for s in A.stores(fn):
            if s.kind != "mutcall":
                continue
            d = A.dotted(s.target) or ""
            if not d.startswith("self."):
                continue
            call = s.node
            args_tainted = any(isinstance(x, ast.Name) and x.id in tainted for a in call.args for x in ast.walk(a))  # type: ignore
            if not args_tainted:
                continue
            n_mut += 1
            meth = call.func.attr  # type: ignore[attr-defined]
            # membership guard: an enclosing ``if <tainted> in <same container>``
            guarded = False
            for a in A.ancestors(call):
                if isinstance(a, ast.If) and any(A.is_within(call, b) for b in a.body):
                    for x in ast.walk(a.test):
                        if isinstance(x, ast.Compare) and len(x.ops) == 1 and isinstance(x.ops[0], (ast.In,)) \
                                and (A.dotted(x.comparators[0]) or "").startswith("self."):
                            guarded = True
            idem = meth in ("discard", "add") or guarded
            ctx.check(idem, "C14.4", f"{d}.{meth}() driven by a value obtained across an await is idempotent/guarded",
                      fn, s.stmt, "idempotent or membership-guarded",
                      f"{q} can be active in two coroutines at once ({conc_async[q][0]}); after the await both see the "
                      f"same result and both run {d}.{meth}(...): the second one fails or duplicates "
                      "(internal error escaping run())")
        ctx.count("eval:C14.4 tainted mutations", n_mut)


# -- C14.5 ------------------------------------------------------------------------------------------------------
def rule_contextmanagers(ctx: Ctx) -> None:
    gens = [fn for fn in ctx.repo.all_funcs()
            if any(d.split(".")[-1] in ("contextmanager", "asynccontextmanager") for d in A.decorators(fn))]
    ctx.floor("C14.5", "@contextmanager generators in basana", len(gens), 5)
    for fn in gens:
        g = ctx.cfg(fn)
        ynodes = [n for n in g.nodes if n.kind == "stmt" and any(isinstance(x, ast.Yield) for x in C.walk_shallow(n.ast))]
        if not ynodes:
            ctx.bad("C14.5", "context manager yields", fn, fn.node, "no yield in a @contextmanager generator")
            continue
        for yn in ynodes:
            # statements executed after the yield on the normal path
            normal_after = g.reach([yn], labels=C.NO_EXC)
            post = {id(n.ast): n for n in normal_after if n.kind in ("stmt", "test", "for", "with") and n.ast is not None}
            if not post:
                ctx.ok("C14.5", "nothing to restore after yield", fn, yn.ast, "no post-yield statements")
                continue
            # nodes reachable when the with-body raises: start from the yield's exception successors
            exc_succ = [m for (m, l) in yn.succ if l == "exc"]
            exc_after = g.reach(exc_succ, include_sources=True)
            exc_asts = {id(n.ast) for n in exc_after if n.ast is not None}
            missing = [n for k, n in post.items() if k not in exc_asts]
            # restoring statements = post-yield calls/assignments (tests and bare expressions without effect ignored)
            missing = [n for n in missing if n.kind == "stmt" and not isinstance(n.ast, (ast.Pass,))]
            inst = "post-yield statements also run when the body raises"
            if missing:
                for n in missing:
                    ctx.bad("C14.5", inst, fn, n.ast,
                            f"'{n.text()}' runs only when the with-body exits normally: it is not in a finally "
                            "enclosing the yield, so an exception in the body leaves the swapped state in place")
            else:
                ctx.ok("C14.5", inst, fn, yn.ast, f"{len(post)} post-yield node(s) all on the exception path too")
    # the log-mode context manager restores exactly what it saved, and run() uses it as a with item
    lm = ctx.func("basana.core.logs.backtesting_log_mode")
    gets = [s for s in A.stores(lm) if isinstance(s.node, ast.Assign) and isinstance(s.node.value, ast.Call)
            and (A.call_name(s.node.value) or "").endswith("getLogRecordFactory")]
    sets = [c for c in A.func_calls(lm) if (A.call_name(c) or "").endswith("setLogRecordFactory")]
    ctx.require(gets and len(sets) >= 2, "C14.5: backtesting_log_mode no longer saves/sets/restores the record factory")
    saved = gets[0].target.id if isinstance(gets[0].target, ast.Name) else None
    restore = [c for c in sets if c.args and isinstance(c.args[0], ast.Name) and c.args[0].id == saved]
    ctx.check(bool(restore) and A.seq(gets[0].stmt) < min(A.seq(c) for c in sets), "C14.5",
              "the factory restored is the one saved before the swap", lm, lm.node, f"restores {saved}",
              "the restored log-record factory is not the one that was installed before the run",
              key_text="restore saved factory")
    run = ctx.func(f"{DISP}.BacktestingDispatcher.run")
    ws = [n for n in C.walk_shallow(run.node) if isinstance(n, ast.With) and any(
        (A.call_name(i.context_expr) or "").endswith("backtesting_log_mode") for i in n.items
        if isinstance(i.context_expr, ast.Call))]
    sup = [c for c in A.func_calls(run) if (A.call_name(c) or "") == "super().run"]
    ctx.check(bool(ws) and bool(sup) and all(A.is_within(c, ws[0]) for c in sup), "C14.5",
              "BacktestingDispatcher.run runs entirely inside backtesting_log_mode", run, run.node,
              "with logs.backtesting_log_mode(self): await super().run(...)",
              "the run is not wrapped by the log-mode context manager", key_text="run wrapped")


def run(ctx: Ctx) -> None:
    rule_phases(ctx)
    rule_isolation(ctx)
    rule_bound(ctx)
    rule_reentrancy(ctx)
    rule_contextmanagers(ctx)
    ctx.assume("only await / async for / async with suspend a coroutine (asyncio)")
    ctx.assume("user handlers, jobs and producers are arbitrary coroutines: only the dispatcher's own code is analysed")
