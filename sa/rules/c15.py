"""C15 -- realtime dispatcher never runs anything early and keeps per-source order."""
from __future__ import annotations

import ast
from typing import Any, Dict, List, Optional

from .. import astutil as A
from .. import cfg as C
from ..core import Ctx

PROP = "C15"
EXPLANATION = (
    "C15.1: in RealtimeDispatcher every pop from the scheduler queue is dominated by the due test next <= dt, every event comes "
    "from pop_while(dt), and dt flows from one utc_now() read made inside the loop iteration; the clock is re-read every "
    "iteration and the pool wait inside the loop has a timeout. C15.2: in _push_events the branch 'event older than its "
    "predecessor from the same source' reports through on_error and continues before any push, and the per-source "
    "predecessor time is updated only for delivered events. C15.3: _on_idle is control-dependent on the pool being idle, idle "
    "means no tracked task, and the set of tracked tasks is only changed by push (add) and by removing tasks that finished "
    "(never rebound), so a running handler cannot be forgotten. This claim is thin by nature (three guards); eventual "
    "dispatch, per-source order under slow handlers and timing are liveness and are not claimed."
    " C15.1 also (shared with C13.4): the time queued is the time given."
    " C15.1 also: in _push_scheduled the job started is the job popped, popped before the pool is awaited. C15.3 locates idle-handler invocations by content and checks their CFG path conditions."
)
TRUSTED = ["CPython ast parser", "sa.cfg statement CFG"]

RD = "basana.core.dispatcher.RealtimeDispatcher"
TP = "basana.core.helpers.TaskPool"


def rule_not_early(ctx: Ctx) -> None:
    ps = ctx.func(f"{RD}._push_scheduled")
    g = ctx.cfg(ps)
    bound = ps.params[1]
    pops = [c for c in A.func_calls(ps) if (A.call_name(c) or "").endswith("_scheduler_queue.pop")]
    ctx.floor("C15.1", "scheduler pops in _push_scheduled", len(pops), 1)

    def due(n):
        if n.kind != "test":
            return False
        return any(isinstance(x, ast.Compare) and len(x.ops) == 1 and (
            (isinstance(x.ops[0], ast.LtE) and A.dotted(x.comparators[0]) == bound) or (isinstance(x.ops[0], ast.GtE) and A.dotted(x.left) == bound))
            for x in ast.walk(n.ast))
    from .c13 import _path_without_true_edge
    for p in pops:
        pn = g.nodes_for(p)[0]
        path = _path_without_true_edge(g, pn, due)
        ctx.check(path is None, "C15.1", "a job is popped only when its time has come (next <= now)", ps, p, "due test dominates the pop",
                  "a job can be popped (and run) before its scheduled time", detail={"path": C.fmt_path(path) if path else []})
    tests = [n for n in g.nodes if due(n)]
    for t in tests:
        ok = "peek_next_event_dt()" in ast.unparse(t.ast)
        ctx.check(ok, "C15.1", "the due test looks at the head of the queue each time", ps, t.ast, "peek_next_event_dt() in the loop test",
                  "the due test does not re-read the queue head")
    pe = ctx.func(f"{RD}._push_events")
    loops = [n for n in C.walk_shallow(pe.node) if isinstance(n, ast.For)]
    ctx.require(loops, "C15.1: _push_events has no loop")
    ctx.check(ast.unparse(loops[0].iter) == f"self._event_mux.pop_while({pe.params[1]})", "C15.1", "events are taken only up to now", pe, loops[0].iter,
              "pop_while(now)", "events are not bounded by the current time")
    dl = ctx.func(f"{RD}._dispatch_loop")
    lp = [n for n in C.walk_shallow(dl.node) if isinstance(n, ast.While)]
    ctx.require(lp, "C15.1: _dispatch_loop has no while loop")
    nows = [s for s in A.stores(dl) if isinstance(s.target, ast.Name) and isinstance(s.node, ast.Assign) and ast.unparse(s.node.value) == "dt.utc_now()"]
    okn = len(nows) == 1 and A.is_within(nows[0].stmt, lp[0])
    ctx.check(okn, "C15.1", "the clock is read once per loop iteration", dl, nows[0].stmt if nows else dl.node, "now = dt.utc_now() inside the loop",
              "the current time is not re-read every iteration (stale bound: nothing new becomes due) or read elsewhere")
    if nows:
        nm = nows[0].target.id
        for meth in ("_push_scheduled", "_push_events"):
            cs = [c for c in A.func_calls(dl) if (A.call_name(c) or "") == f"self.{meth}"]
            ctx.check(bool(cs) and A.dotted(cs[0].args[0]) == nm, "C15.1", f"{meth} is bounded by that reading of the clock", dl, cs[0] if cs else dl.node,
                      f"{meth}({nm})", f"{meth} is given a different bound")
    waits = [c for c in A.func_calls(dl) if (A.call_name(c) or "").endswith("_handlers_task_pool.wait")]
    ctx.check(bool(waits) and A.kw(waits[0], "timeout") is not None, "C15.1", "the loop never blocks on running handlers (wait has a timeout)", dl,
              waits[0] if waits else dl.node, "wait(timeout=...)", "the loop waits for all handlers without timeout: due events/jobs are delayed "
              "behind a slow handler")
    now = ctx.func(f"{RD}.now")
    ctx.check("return dt.utc_now()" in ast.unparse(now.node), "C15.1", "now() is the wall clock", now, now.node, "ok", "now() changed", key_text="now")
    un = ctx.func("basana.core.dt.utc_now")
    ctx.check("utcnow()" in ast.unparse(un.node) and "tzinfo=datetime.timezone.utc" in ast.unparse(un.node), "C15.1", "utc_now is timezone-aware UTC", un,
              un.node, "ok", "utc_now changed", key_text="utc_now")


def rule_order(ctx: Ctx) -> None:
    pe = ctx.func(f"{RD}._push_events")
    g = ctx.cfg(pe)
    loops = [n for n in C.walk_shallow(pe.node) if isinstance(n, ast.For)]
    lp = loops[0]
    sv, ev = [e.id for e in lp.target.elts]
    tests = [n for n in g.nodes if n.kind == "test" and f"{ev}.when <" in ast.unparse(n.ast)]
    ctx.require(tests, "C15.2: out-of-order test not found in _push_events")
    t = tests[0]
    txt = ast.unparse(t.ast)
    prev = [s for s in A.stores(pe) if isinstance(s.target, ast.Name) and isinstance(s.node, ast.Assign) and f"self._prev_event_dt.get({sv})" == ast.unparse(s.node.value)]
    ctx.check(bool(prev) and f"{prev[0].target.id} is not None and {ev}.when < {prev[0].target.id}" == txt, "C15.2",
              "an event is out of order iff it is strictly older than its predecessor from the same source", pe, t.ast, txt,
              f"out-of-order test is '{txt}'")
    body = t.ast.parent.body  # type: ignore[attr-defined]
    okb = any(isinstance(s, ast.Expr) and isinstance(s.value, ast.Call) and (A.call_name(s.value) or "") == "self.on_error" for s in body) \
        and isinstance(body[-1], ast.Continue)
    ctx.check(okb, "C15.2", "an out-of-order event is reported and skipped", pe, t.ast, "on_error(...); continue", "an out-of-order event is not "
              "reported, or is delivered anyway")
    pushes = [c for c in A.func_calls(pe) if (A.call_name(c) or "").endswith("_handlers_task_pool.push")]
    ctx.floor("C15.2", "pool pushes in _push_events", len(pushes), 1)
    upd = [s for s in A.stores(pe) if isinstance(s.target, ast.Subscript) and A.dotted(s.target.value) == "self._prev_event_dt"]
    ctx.require(len(upd) == 1, "C15.2: predecessor time should be stored once")
    un = g.nodes_for(upd[0].stmt)[0]
    for pu in pushes:
        pn = g.nodes_for(pu)[0]
        # within an iteration: the push is reached only through the false edge of the out-of-order test
        from .c10 import _path_without_edge
        head = g.nodes_for(lp)[0]
        p = g.path_avoiding(head, lambda n: n is pn, lambda n: n is t)
        ctx.check(p is None, "C15.2", "nothing is delivered without passing the order test", pe, pu, "test dominates the push in each iteration",
                  "an event can be delivered without the order test", detail={"path": C.fmt_path(p) if p else []})
        tb = [m for (m, l) in t.succ if l == "true"]
        reach = g.reach(tb, include_sources=True, stop=lambda n: n is head)
        ctx.check(pn not in reach and un not in reach, "C15.2", "the out-of-order branch neither delivers nor records the event", pe, pu,
                  "true branch reaches neither push nor the predecessor store", "the out-of-order branch delivers the event or updates the "
                  "predecessor time (later in-order events would then be dropped)")
        p2 = g.path_avoiding(head, lambda n: n is pn, lambda n: n is un)
        ctx.check(p2 is None, "C15.2", "a delivered event becomes the source's predecessor", pe, upd[0].stmt, "store dominates the push",
                  "an event is delivered without being recorded as predecessor: an older event after it would be delivered too")
    head0 = g.nodes_for(lp)[0]
    p3 = g.path_avoiding(head0, lambda n: n is un, lambda n: n is t)
    ctx.check(p3 is None, "C15.2", "the predecessor time is updated only after the event passed the order test", pe, upd[0].stmt,
              "order test dominates the store", "the predecessor time is overwritten before the order test: a dropped stale event becomes the "
              "reference, so the next event older than the last delivered one is delivered", detail={"path": C.fmt_path(p3) if p3 else []})
    ctx.check(A.dotted(upd[0].target.slice) == sv, "C15.2", "predecessor time is kept per source", pe, upd[0].stmt, "prev[source] = ...",
              "predecessor bookkeeping is not per source")
    if pushes:
        from .. import norm as N
        txt = N.canon(N.expand(pe, pushes[0]))
        ctx.check(f"event={ev}" in txt and f"self._event_handlers.get({sv}, [])" in txt, "C15.2", "an event goes to the handlers of its own source",
                  pe, pushes[0], "ok", "event/handlers pairing changed")


def rule_idle(ctx: Ctx) -> None:
    dl = ctx.func(f"{RD}._dispatch_loop")
    IDLE = "self._handlers_task_pool.idle"
    # every place an idle handler is invoked (wherever it lives: _on_idle, or the dispatch loop itself) is reached only when the pool is idle
    sites = []
    for name, fn in sorted(ctx.repo.methods_of(RD).items()):
        for node in ast.walk(fn.node):
            gens = node.generators if isinstance(node, (ast.ListComp, ast.GeneratorExp, ast.SetComp)) else ([node] if isinstance(node, (ast.For, ast.AsyncFor)) else [])
            for g_ in gens:
                if A.dotted(g_.iter) == "self._idle_handlers" and isinstance(g_.target, ast.Name):
                    for c in ast.walk(node):
                        if isinstance(c, ast.Call) and isinstance(c.func, ast.Name) and c.func.id == g_.target.id:
                            sites.append((fn, c))
    ctx.floor("C15.3", "idle handler invocation sites", len(sites), 1)

    def guarded(fn, node, depth=0) -> bool:
        g_ = ctx.cfg(fn)
        ns = g_.nodes_for(node)
        if ns and any(t == IDLE and v for t, v, _ in g_.path_conditions(g_.entry, ns[0])):
            return True
        if depth >= 2:
            return False
        callers = A.call_index(ctx).callers_of(fn.qualname)
        return bool(callers) and all(f2 is not None and guarded(f2, c2, depth + 1) for f2, _, c2 in callers)
    for fn, c in sites:
        ctx.check(guarded(fn, c), "C15.3", "idle handlers run only when nothing is being handled", fn, c, f"reached only under {IDLE}",
                  f"an idle handler can be started on a path where '{IDLE}' does not hold (handlers or jobs may still be running)",
                  key_text="idle handlers only when idle")
    idle = ctx.func(f"{TP}.idle")
    rets_ = [ast.unparse(r.value).replace(" ", "") for r in C.walk_shallow(idle.node) if isinstance(r, ast.Return) and r.value is not None]
    ctx.check(len(rets_) == 1 and rets_[0] in ("len(self._tasks)==0", "notself._tasks", "0==len(self._tasks)", "notlen(self._tasks)"), "C15.3", "idle means no tracked task", idle, idle.node, "len(tasks) == 0",
              "idle no longer means 'no tracked task'")
    n = 0
    for name, fn in sorted(ctx.repo.methods_of(TP).items()):
        for s in A.stores(fn):
            if A.dotted(s.target) != "self._tasks":
                continue
            n += 1
            if s.kind == "assign":
                ctx.check(name == "__init__", "C15.3", "the set of tracked tasks is never rebound", fn, s.stmt, "constructor only",
                          "self._tasks is replaced by another set: tasks added by a concurrent pusher since the snapshot was taken are forgotten "
                          "(pool looks idle / below capacity while a handler is still running)")
            elif s.kind == "mutcall":
                meth = s.node.func.attr  # type: ignore[attr-defined]
                if meth == "add":
                    ctx.check(name == "push", "C15.3", "tasks are tracked from the moment they are created", fn, s.stmt, "push adds", "add outside push")
                elif meth in ("remove", "discard"):
                    arg = s.node.args[0] if s.node.args else None  # type: ignore[attr-defined]
                    loop = next((a for a in A.ancestors(s.stmt) if isinstance(a, ast.For)), None)
                    ok = loop is not None and A.dotted(loop.iter) == "done" and isinstance(arg, ast.Name) and A.dotted(loop.target) == arg.id
                    ctx.check(ok, "C15.3", "only finished tasks stop being tracked", fn, s.stmt, "for task in done: remove(task)",
                              "a task can be untracked although it has not finished")
                else:
                    ctx.bad("C15.3", "tracked-task set is changed only by add / remove of finished tasks", fn, s.stmt, f"self._tasks.{meth}(...)")
            else:
                ctx.bad("C15.3", "tracked-task set is changed only by add / remove of finished tasks", fn, s.stmt, f"{s.kind} on self._tasks")
    ctx.floor("C15.3", "writes to TaskPool._tasks", n, 3)
    wi = ctx.func(f"{TP}._wait_impl")
    dn = [s for s in A.stores(wi) if isinstance(s.target, ast.Tuple) and "asyncio.wait(self._tasks" in ast.unparse(getattr(s.node, "value", ast.Constant(value="")))]
    ctx.check(any("done" in ast.unparse(s.stmt).split("=")[0] for s in A.stores(wi) if "asyncio.wait(self._tasks" in ast.unparse(s.stmt)), "C15.3",
              "'done' is what asyncio.wait reports finished", wi, wi.node, "done, _ = await asyncio.wait(self._tasks, ...)", "'done' no longer comes from asyncio.wait",
              key_text="done from wait")


def run(ctx: Ctx) -> None:
    from . import c13
    c13.rule_time_passthrough(ctx, rule="C15.1")
    c13.rule_pushed_is_popped(ctx, f"{RD}._push_scheduled", "C15.1")
    # 'every event is eventually dispatched once due' needs the multiplexer to keep (or hand out) every event it takes from a source
    # (shared with C12.3)
    from . import c12
    ctx.rule_map = {"C12.3": "C15.2"}
    try:
        c12.rule_mux(ctx)
    finally:
        ctx.rule_map = {}
    rule_not_early(ctx)
    rule_order(ctx)
    rule_idle(ctx)
    ctx.assume("asyncio.wait returns as 'done' exactly tasks that finished")
