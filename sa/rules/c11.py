"""C11 -- loan lifecycle and interest."""
from __future__ import annotations

import ast
from typing import Any, Dict, List, Optional

from .. import astutil as A
from .. import cfg as C
from ..core import Ctx
from . import c01

PROP = "C11"
EXPLANATION = (
    "C11.1 typestate + who-may-call on the mypy-resolved call graph: Loan._is_open is written only by the constructor "
    "(True) and close() (asserted open); close() <- LoanManager.repay_loan / cancel_loan only; repay_loan <- "
    "Exchange.repay_loan and OrderManager._repay_loans; _repay_loans <- _order_closed under 'auto_repay and amount_filled'; "
    "cancel_loan <- the rollback handler of _borrow only: this is the property's closed list of ways a loan can close. "
    "C11.2 the unknown/closed-loan guards dominate everything in repay/cancel. C11.3 same-value in repay_loan: interest is "
    "truncated to the symbol precision before use, the balance delta is -principal - interest, borrowed delta -principal, "
    "the same interest object is recorded as paid, close() and the collateral pop follow the commit. C11.4 auto-repay: "
    "candidates are the open loans in the symbol the order acquired (base for BUY, quote for SELL), iterated in descending "
    "principal, and a loan that cannot be afforded is skipped (handler neither breaks, returns nor raises). C11.5 the "
    "interest returned is max(..., min_interest) in the interest symbol. Non-negativity, proportionality and "
    "monotonicity of interest are arithmetic over unvalidated configuration and are not claimed."
    " C11.4 also (shared with C06.2): every way an order closes goes through _order_closed."
)
TRUSTED = ["CPython ast parser", "mypy callee resolution", "sa.cfg statement CFG"]

LM = "basana.backtesting.loan_mgr.LoanManager"
OM = "basana.backtesting.order_mgr.OrderManager"
EX = "basana.backtesting.exchange.Exchange"
LOAN = "basana.backtesting.lending.base.Loan"


def rule_typestate(ctx: Ctx) -> None:
    ci = A.call_index(ctx)
    n = 0
    for fn in ctx.repo.all_funcs():
        for s in A.stores(fn):
            if isinstance(s.target, ast.Attribute) and s.target.attr == "_is_open":
                n += 1
                v = A.const_value(getattr(s.node, "value", None))
                ok = (fn.qualname == f"{LOAN}.__init__" and v is True) or (fn.qualname == f"{LOAN}.close" and v is False)
                ctx.check(ok, "C11.1", "a loan's open flag is set by the constructor and cleared by close() only", fn, s.stmt, f"= {v}",
                          f"_is_open is written in {fn.qualname} (= {v}): a closed loan can reopen or a loan closes without repayment")
    ctx.floor("C11.1", "stores to Loan._is_open", n, 2)
    cl = ctx.func(f"{LOAN}.close")
    ctx.check(any(isinstance(x, ast.Assert) and "self._is_open" in ast.unparse(x.test) for x in C.walk_shallow(cl.node)), "C11.1",
              "close() states that the loan is open", cl, cl.node, "assert self._is_open", "close() no longer asserts the loan is open",
              key_text="close asserts open")
    allowed = {
        f"{LOAN}.close": {f"{LM}.repay_loan", f"{LM}.cancel_loan"},
        f"{LM}.repay_loan": {f"{EX}.repay_loan", f"{OM}._repay_loans"},
        f"{LM}.cancel_loan": {f"{OM}._borrow"},
        f"{OM}._repay_loans": {f"{OM}._order_closed"},
    }
    for target, who in allowed.items():
        callers = ci.callers_of(target)
        ctx.floor("C11.1", f"call sites of {target.rsplit('.', 1)[-1]}", len(callers), 1)
        for fn, m, c in callers:
            ctx.check(fn is not None and fn.qualname in who, "C11.1",
                      f"{target.split('.', 2)[-1]} is reached only from {sorted(w.split('.', 2)[-1] for w in who)}", fn, c, "ok",
                      f"{target.rsplit('.', 1)[-1]} is also called from {fn.qualname if fn else '?'}: a loan can be closed by something "
                      "other than an explicit repayment, an auto-repay order that traded, or the rollback of its own auto-borrow")
    # cancel_loan only inside the rollback handler
    bo = ctx.func(f"{OM}._borrow")
    for c in [c for c in A.func_calls(bo) if (A.call_name(c) or "").endswith(".cancel_loan")]:
        inh = any(isinstance(a, ast.ExceptHandler) for a in A.ancestors(c))
        ctx.check(inh, "C11.1", "loans are cancelled only while rolling back a failed auto-borrow", bo, c, "inside the except handler",
                  "cancel_loan is called outside the rollback handler")
    # _repay_loans guarded by auto_repay and amount_filled
    oc = ctx.func(f"{OM}._order_closed")
    for c in [c for c in A.func_calls(oc) if (A.call_name(c) or "") == "self._repay_loans"]:
        guard = next((a.test for a in A.ancestors(c) if isinstance(a, ast.If)), None)
        txt = ast.unparse(guard) if guard is not None else ""
        ctx.check("order.auto_repay" in txt and "order.amount_filled" in txt and " and " in txt, "C11.1",
                  "auto-repay runs only for an auto_repay order that traded", oc, c, txt, f"auto-repay guard is '{txt}'")
    g_oc = ctx.cfg(oc)
    rel = [c for c in A.func_calls(oc) if (A.call_name(c) or "") == "self._update_balances"]
    for c in [c for c in A.func_calls(oc) if (A.call_name(c) or "") == "self._repay_loans"]:
        rn_ = [n for r in rel for n in g_oc.nodes_for(r)]
        p = g_oc.path_avoiding(g_oc.entry, lambda n: n is g_oc.nodes_for(c)[0], lambda n: n in rn_) if rn_ else [g_oc.entry]
        ctx.check(p is None, "C11.4", "the closed order's funds on hold are released before its loans are repaid", oc, c,
                  "release dominates _repay_loans", "auto-repay runs while the closed order's leftover hold is still in place: a loan the "
                  "freed funds would cover is refused by the hold <= balance rule and silently stays open ('as far as funds allow' fails)",
                  detail={"path": C.fmt_path(p) if p else []})
    # cancel_loan states the loan was created in this very step
    cn = ctx.func(f"{LM}.cancel_loan")
    ctx.check(any(isinstance(x, ast.Assert) and "created_at" in ast.unparse(x.test) and "now()" in ast.unparse(x.test)
                  for x in C.walk_shallow(cn.node)), "C11.1", "cancel_loan only applies to loans created in the current step", cn, cn.node,
              "assert loan.created_at == now()", "cancel_loan no longer states the loan was just created", key_text="cancel just created")


def rule_repay(ctx: Ctx) -> None:
    rp = ctx.func(f"{LM}.repay_loan")
    g = ctx.cfg(rp)
    ups = [c for c in A.func_calls(rp) if (A.call_name(c) or "").endswith("account_balances.update")]
    ctx.require(len(ups) >= 1, "C11.3: repay_loan has no ledger update")
    ctx.check(len(ups) == 1, "C11.3", "repayment is one atomic ledger update", rp, ups[-1], "one update", f"{len(ups)} ledger updates: "
              "principal and interest can be committed separately (partial repayment of a loan that stays open)", key_text="one update")
    cls, why = c01.classify_update_site(ctx, rp, ups[0])
    ctx.check(cls == "loan-repay", "C11.3", "repaying debits exactly principal plus interest and returns exactly the principal", rp, ups[0],
              why, f"update shape is {cls}: {why}")
    iname = why.split(" - ")[-1].split(";")[0] if cls == "loan-repay" else None
    get = [c for c in A.func_calls(rp) if (A.call_name(c) or "") == "self._get_open_loan"]
    ctx.require(get, "C11.3: repay_loan does not look the loan up through _get_open_loan")
    loan_var = None
    par = get[0].parent  # type: ignore[attr-defined]
    if isinstance(par, ast.Assign) and isinstance(par.targets[0], ast.Name):
        loan_var = par.targets[0].id
    ctx.check(A.dotted(get[0].args[0]) == rp.params[1] if get[0].args else False, "C11.3", "the loan repaid is the one asked for", rp, get[0],
              "ok", "a different loan id is looked up")
    if iname and loan_var:
        calc = [c for c in A.func_calls(rp) if (A.call_name(c) or "") == f"{loan_var}.calculate_interest"]
        trunc = [c for c in A.func_calls(rp) if (A.call_name(c) or "") == f"{iname}.truncate"]
        ctx.check(bool(calc) and "now()" in ast.unparse(calc[0]), "C11.3", "interest accrued up to now is what is charged", rp,
                  calc[0] if calc else rp.node, "loan.calculate_interest(now, prices)", "interest is not computed for the current time")
        un = g.nodes_for(ups[0])[0]
        okt = bool(trunc) and g.path_avoiding(g.entry, lambda n: n is un, lambda n: n in g.nodes_for(trunc[0])) is None
        ctx.check(okt, "C11.3", "interest is truncated to the symbol precision before it is debited", rp, trunc[0] if trunc else ups[0],
                  f"{iname}.truncate(config) dominates the update", "interest is debited untruncated (sub-precision dust) or truncated after "
                  "being debited")
        paid = [c for c in A.func_calls(rp) if (A.call_name(c) or "") == f"{loan_var}.add_paid_interest"]
        close = [c for c in A.func_calls(rp) if (A.call_name(c) or "") == f"{loan_var}.close"]
        pop = [c for c in A.func_calls(rp) if (A.call_name(c) or "") == "self._collateral_by_loan.pop"]
        for what, cs in (("recording the interest as paid", paid), ("closing the loan", close), ("dropping the collateral record", pop)):
            ok = bool(cs) and g.path_avoiding(g.entry, lambda n: n is g.nodes_for(cs[0])[0], lambda n: n is un) is None \
                and g.always_followed_by(un, lambda n: n in g.nodes_for(cs[0]), labels=C.NO_EXC) is None
            ctx.check(ok, "C11.3", f"{what} happens after, and whenever, the repayment was committed", rp, cs[0] if cs else ups[0],
                      "dominated and post-dominated by the commit", f"{what} is not tied to a successful commit")
        ctx.check(bool(paid) and A.dotted(paid[0].args[0]) == iname, "C11.3", "the interest recorded as paid is the interest debited", rp,
                  paid[0] if paid else rp.node, iname, "a different value is recorded as paid")
    cn = ctx.func(f"{LM}.cancel_loan")
    ups2 = [c for c in A.func_calls(cn) if (A.call_name(c) or "").endswith("account_balances.update")]
    cls2, why2 = c01.classify_update_site(ctx, cn, ups2[0]) if ups2 else (None, "no update")
    ctx.check(cls2 == "loan-cancel", "C11.3", "cancelling returns exactly the principal and charges nothing", cn, ups2[0] if ups2 else cn.node,
              why2, f"update shape is {cls2}: {why2}")


def rule_auto_repay(ctx: Ctx) -> None:
    fn = ctx.func(f"{OM}._repay_loans")
    src = ast.unparse(fn.node)
    from .. import norm as N
    # symbol acquired: the name compared with loan.borrowed_symbol, and the values it takes under the BUY test
    cmp_names = [c.comparators[0].id for c in ast.walk(fn.node) if isinstance(c, ast.Compare) and len(c.ops) == 1 and isinstance(c.ops[0], ast.Eq)
                 and ast.unparse(c.left).endswith(".borrowed_symbol") and isinstance(c.comparators[0], ast.Name)]
    oks, gv = False, []
    if cmp_names:
        gv = N.guarded_values(fn, cmp_names[0])
        by = {}
        for t, pol, v in gv:
            tt = N.canon(t) if t is not None else None
            if tt in ("order.operation == OrderOperation.BUY", "OrderOperation.BUY == order.operation", "order.operation != OrderOperation.SELL"):
                by[pol] = N.canon(v)
            elif tt in ("order.operation == OrderOperation.SELL", "OrderOperation.SELL == order.operation", "order.operation != OrderOperation.BUY"):
                by[not pol] = N.canon(v)
            else:
                by["?"] = tt
        oks = by == {True: "order.pair.base_symbol", False: "order.pair.quote_symbol"}
    ctx.check(oks, "C11.4", "the symbol whose loans are repaid is the one the order acquired (base for BUY, quote for SELL)", fn,
              fn.node, "BUY -> base, SELL -> quote", "auto-repay targets the wrong symbol", key_text="acquired symbol")
    # the loop that repays: its iterable, with temporaries expanded, must list the open loans of that symbol in descending principal
    loops = [n for n in C.walk_shallow(fn.node) if isinstance(n, ast.For)
             and any((A.call_name(c) or "").endswith("loan_mgr.repay_loan") for s_ in n.body for c in A.calls(s_, shallow=False))]
    ctx.require(loops, "C11.4: loop that repays the candidate loans not found")
    lp = loops[0]
    it = N.expand(fn, lp.iter)
    it_txt = N.canon(it)
    okc = "get_loans(is_open=True)" in it_txt and ".borrowed_symbol ==" in it_txt
    ctx.check(okc, "C11.4", "candidates are the open loans in that symbol", fn, lp.iter,
              "get_loans(is_open=True) filtered by borrowed_symbol", f"candidate loans are not the open loans in the acquired symbol ({it_txt[:80]})")

    def desc_sort(c: ast.Call) -> bool:
        k = A.kw(c, "key")
        rev = A.const_value(A.kw(c, "reverse")) is True
        if isinstance(k, ast.Lambda):
            body = ast.unparse(k.body)
            return (body.endswith(".borrowed_amount") and not body.startswith("-") and rev) or \
                (body.startswith("-") and body.endswith(".borrowed_amount") and not rev)
        return False
    sorted_calls = [c for c in ast.walk(it) if isinstance(c, ast.Call) and A.call_name(c) == "sorted"]
    inplace = []
    if isinstance(lp.iter, ast.Name):
        inplace = [c for c in A.func_calls(fn) if (A.call_name(c) or "") == f"{lp.iter.id}.sort" and A.seq(c) < A.seq(lp)]
    sorts = sorted_calls + inplace
    okd = any(desc_sort(c) for c in sorts)
    ctx.check(okd, "C11.4", "loans are tried largest principal first", fn, (inplace[0] if inplace else lp.iter), "sorted by borrowed_amount descending",
              "candidates are not sorted by principal in descending order")
    rps = [c for s in lp.body for c in A.calls(s, shallow=False) if (A.call_name(c) or "").endswith("loan_mgr.repay_loan")]
    ctx.require(rps, "C11.4: repay_loan is not called inside the loop")
    t = next((a for a in A.ancestors(rps[0]) if isinstance(a, ast.Try)), None)
    ok = False
    why = "repay_loan is not inside a try within the loop"
    if t is not None and any(a is lp for a in A.ancestors(t)):
        hs = [h for h in t.handlers if "NotEnoughBalance" in ast.unparse(h.type if h.type is not None else ast.Constant(value=""))]
        if hs:
            leaves = [x for s in hs[0].body for x in ast.walk(s) if isinstance(x, (ast.Break, ast.Return, ast.Raise))]
            ok = not leaves
            why = "handler skips to the next loan" if ok else f"handler leaves the loop ({type(leaves[0]).__name__.lower()}): smaller loans that " \
                "are affordable stay open"
        else:
            why = "no handler for NotEnoughBalance"
    ctx.check(ok, "C11.4", "a loan that cannot be afforded is skipped and the next one is tried", fn, rps[0], why, why)
    ctx.check(A.dotted(rps[0].args[0]).endswith(".id") if rps[0].args else False, "C11.4", "the loan repaid is the loop's loan", fn, rps[0], "ok",
              "repay_loan is not given the loop variable's id")


def rule_interest(ctx: Ctx) -> None:
    fn = ctx.func("basana.backtesting.lending.margin.MarginLoan.calculate_interest")
    rets = [n for n in C.walk_shallow(fn.node) if isinstance(n, ast.Return) and n.value is not None]
    ctx.require(len(rets) == 1 and isinstance(rets[0].value, ast.Dict), "C11.5: calculate_interest no longer returns one {symbol: interest} map")
    d = rets[0].value
    key = ast.unparse(d.keys[0])
    val = d.values[0]
    ctx.check(key == "self._conditions.interest_symbol", "C11.5", "interest is charged in the configured interest symbol", fn, rets[0], key,
              f"interest keyed by {key}")
    defs = [s for s in A.stores(fn) if isinstance(s.target, ast.Name) and isinstance(val, ast.Name) and s.target.id == val.id]
    last = sorted(defs, key=lambda s: A.seq(s.stmt))[-1] if defs else None
    okm = last is not None and isinstance(last.node, ast.Assign) and isinstance(last.node.value, ast.Call) and A.call_name(last.node.value) == "max" \
        and {ast.unparse(a) for a in last.node.value.args} == {val.id, "self._conditions.min_interest"}
    ctx.check(okm, "C11.5", "the interest is never below the configured minimum (last definition is max(interest, min))", fn,
              last.stmt if last else rets[0], "max(interest, min_interest)", "the returned interest is not bounded below by min_interest")
    src = ast.unparse(fn.node)
    ctx.check("self._conditions.interest_percentage / Decimal(100) * self.borrowed_amount" in src, "C11.5",
              "interest is proportional to the principal", fn, fn.node, "pct/100 * principal", "interest is no longer pct/100 x principal",
              key_text="proportional principal")
    ctx.check("at - self._created_at" in src and "total_seconds() / self._conditions.interest_period.total_seconds()" in src, "C11.5",
              "interest is proportional to elapsed time over the interest period", fn, fn.node, "elapsed / period",
              "interest no longer scales with (at - created_at) / period", key_text="proportional time")
    conv = [c for c in A.func_calls(fn) if (A.call_name(c) or "") == "prices.convert"]
    okc = bool(conv) and [ast.unparse(a) for a in conv[0].args[1:]] == ["self._borrowed_symbol", "self._conditions.interest_symbol"]
    ctx.check(okc, "C11.5", "interest in another symbol is converted from the borrowed symbol", fn, conv[0] if conv else fn.node,
              "convert(interest, borrowed -> interest symbol)", "conversion direction changed")


def run(ctx: Ctx) -> None:
    rule_typestate(ctx)
    rule_repay(ctx)
    rule_auto_repay(ctx)
    # 'when an auto-repay order closes ...': every way an order can close goes through _order_closed, where the repayment lives
    # (shared with C06.2)
    from . import c06
    ctx.rule_map = {"C06.2": "C11.4"}
    try:
        c06.rule_release(ctx)
    finally:
        ctx.rule_map = {}
    rule_interest(ctx)
    ctx.assume("interest percentage, period and minimum are non-negative (unvalidated configuration)")
