"""COMMIT-LAST (DESIGN.md section 4): in a request function every call that may raise precedes the first persistent
mutation, or the raise is compensated by a handler that applies the registered inverse to everything done so far and
re-raises.  A function that satisfies the rule is *transactional*: when it raises it has changed nothing, so its callers
may treat the whole call as "raise first, then commit".

The walk is on the statement CFG; may-raise sets and mutation facts come from sa.summaries (mypy-resolved callees),
refined by a table of call-site exclusions, each carrying its reason (printed in the evidence).
"""
from __future__ import annotations

import ast
from typing import Any, Callable, Dict, List, Optional, Set, Tuple

from . import astutil as A
from . import cfg as C
from . import loader
from . import summaries as S

INVERSES = {"create_loan": "cancel_loan"}


class SiteExclusion:
    def __init__(self, caller: str, callee_suffix: str, shape: Callable[[ast.Call], bool], excluded: Optional[Set[str]],
                 reason: str, name: str):
        self.caller, self.callee_suffix, self.shape, self.excluded, self.reason, self.name = \
            caller, callee_suffix, shape, excluded, reason, name
        self.hits = 0


class Analysis:
    def __init__(self, ctx: Any, exclusions: List[SiteExclusion]):
        self.ctx = ctx
        self.repo: loader.Repo = ctx.repo
        self.sm = S.get(ctx)
        self.ci = A.call_index(ctx)
        self.excl = exclusions
        self.status: Dict[str, Optional[bool]] = {}      # qualname -> transactional?
        self.reports: Dict[str, List[Dict[str, Any]]] = {}
        self.refined: Dict[str, Set[str]] = {}           # refined escaping set of checked functions

    # -- refined raise set of one call -------------------------------------------------------------------------------
    def call_raises(self, fn: loader.Func, c: ast.Call) -> Set[str]:
        out: Set[str] = set()
        for callee in self.ci.callees(fn.module, c):
            for t in self.ci.overrides_of(callee):
                if t in S.ENV_LOOKUP:
                    continue
                r = self.refined[t] if t in self.refined else self.sm._may_raise.get(t, set())
                out |= set(r)
                init = f"{t}.__init__"
                out |= self.sm._may_raise.get(init, set())
        nm = A.call_name(c) or ""
        for e in self.excl:
            if e.caller == fn.qualname and nm.endswith(e.callee_suffix) and e.shape(c):
                e.hits += 1
                out = set() if e.excluded is None else out - e.excluded
        return out

    def call_mutates(self, fn: loader.Func, c: ast.Call) -> bool:
        return self.sm.call_mutates(fn.module, c)

    def callee_quals(self, fn: loader.Func, c: ast.Call) -> List[str]:
        out = []
        for callee in self.ci.callees(fn.module, c):
            out.extend(t for t in self.ci.overrides_of(callee) if t in self.repo.funcs)
        return out

    # -- the walk -----------------------------------------------------------------------------------------------------
    def check(self, q: str) -> bool:
        fn = self.repo.func(q)
        self.ctx.analysed_funcs.add(q)
        g = self.ctx.cfg(fn)
        rep: List[Dict[str, Any]] = []
        node_info: Dict[C.Node, Dict[str, Any]] = {}
        direct_mut_stmts = self._direct_mutation_stmts(fn)
        for n in g.nodes:
            raises: Set[str] = set()
            mut = False
            nontx: List[str] = []
            for e in C.exprs_of(n):
                for x in C.walk_shallow(e):
                    if isinstance(x, ast.Call):
                        r = self.call_raises(fn, x)
                        m = self.call_mutates(fn, x)
                        if r and m:
                            for t in self.callee_quals(fn, x):
                                if self.sm._mutates.get(t) and (self.refined.get(t, self.sm._may_raise.get(t)) or set()):
                                    if self.status.get(t) is not True:
                                        nontx.append(t)
                        raises |= r
                        mut |= m
                    elif isinstance(x, ast.Raise):
                        f = x.exc.func if isinstance(x.exc, ast.Call) else x.exc
                        if f is not None:
                            raises.add((A.dotted(f) or "Exception").split(".")[-1])
            if n.kind == "stmt" and isinstance(n.ast, ast.Raise) and n.ast.exc is not None:
                f = n.ast.exc.func if isinstance(n.ast.exc, ast.Call) else n.ast.exc
                raises.add((A.dotted(f) or "Exception").split(".")[-1])
            if n.ast is not None and id(n.ast) in direct_mut_stmts and n.kind == "stmt":
                mut = True
            node_info[n] = {"raises": raises, "mut": mut, "nontx": nontx}
        mut_nodes = [n for n, i in node_info.items() if i["mut"]]
        dirty_after: Set[C.Node] = g.reach(mut_nodes, labels=C.NO_EXC) if mut_nodes else set()
        escaping_total: Set[str] = set()
        ok = True
        for n, info in node_info.items():
            if not info["raises"]:
                continue
            esc, comp = self._escape(fn, n, info["raises"])
            escaping_total |= esc
            if info["nontx"] and esc:
                ok = False
                rep.append({"kind": "non-atomic callee", "node": n, "raises": sorted(esc), "callee": info["nontx"]})
                continue
            if n in dirty_after and esc:
                if comp:
                    rep.append({"kind": "compensated", "node": n, "raises": sorted(esc), "handler": comp})
                    continue
                ok = False
                first = next((m for m in mut_nodes if n in g.reach([m], labels=C.NO_EXC)), None)
                path = g.path_avoiding(first, lambda x: x is n, lambda x: False, C.NO_EXC) if first is not None else None
                rep.append({"kind": "raise after mutation", "node": n, "raises": sorted(esc), "mutation": first,
                            "path": C.fmt_path(path) if path else []})
        self.status[q] = ok
        self.refined[q] = escaping_total
        self.reports[q] = rep
        return ok

    def _direct_mutation_stmts(self, fn: loader.Func) -> Set[int]:
        out: Set[int] = set()
        if fn.cls is None or not self.sm._is_state_class(fn.cls.qualname):
            return out
        aliases: Set[str] = set()
        for s in A.stores(fn):
            if isinstance(s.target, ast.Name) and isinstance(s.node, (ast.Assign, ast.NamedExpr)):
                v = s.node.value
                if isinstance(v, ast.Call) and isinstance(v.func, ast.Attribute) and v.func.attr in ("get", "setdefault") \
                        and (A.dotted(v.func.value) or "").startswith("self."):
                    aliases.add(s.target.id)
                elif isinstance(v, ast.Subscript) and (A.dotted(v.value) or "").startswith("self."):
                    aliases.add(s.target.id)
        for s in A.stores(fn):
            t = s.target
            if isinstance(t, ast.Name):
                if s.kind == "augassign" and t.id in aliases:
                    out.add(id(s.stmt))
                continue
            depth = 0
            root = t
            while isinstance(root, (ast.Attribute, ast.Subscript)):
                depth += isinstance(root, ast.Attribute)
                root = root.value
            if isinstance(root, ast.Name) and root.id == "self" and depth >= 1 and fn.name != "__init__":
                out.add(id(s.stmt))
        return out

    def _escape(self, fn: loader.Func, n: C.Node, raises: Set[str]) -> Tuple[Set[str], Optional[str]]:
        """(exception names that leave the function from node n, description of a compensating handler or None)."""
        a = n.ast
        remaining = set(raises)
        comp: Optional[str] = None
        cur = a
        for anc in A.ancestors(a) if a is not None else []:
            if isinstance(anc, (ast.FunctionDef, ast.AsyncFunctionDef, ast.Lambda)):
                break
            if isinstance(anc, ast.Try) and any(cur is s or A.is_within(cur, s) for s in anc.body):
                for h in anc.handlers:
                    names = self.sm.handler_names(h)
                    caught = {e for e in remaining if any(self.sm.is_sub(e, hn) for hn in names)}
                    if not caught:
                        continue
                    reraises = any(isinstance(x, ast.Raise) for s in h.body for x in C.walk_shallow(s))
                    if not reraises:
                        remaining -= caught
                    else:
                        c = self._compensates(fn, anc, h)
                        if c and caught == remaining:
                            comp = c
            cur = anc
        return remaining, comp

    def _compensates(self, fn: loader.Func, t: ast.Try, h: ast.ExceptHandler) -> Optional[str]:
        """Handler undoes every success recorded by the try body: ``for x in L: inverse(x)`` ... ``raise`` where the body
        does ``r = forward(...)`` immediately followed by ``L.append(r.id)``."""
        fwd = []
        for s in t.body:
            for x in ast.walk(s):
                if isinstance(x, ast.Call):
                    nm = (A.call_name(x) or "").split(".")[-1]
                    if nm in INVERSES:
                        fwd.append((nm, x))
        if not fwd:
            return None
        nm, call = fwd[0]
        st = A.stmt_of(call)
        par = st.parent  # type: ignore[attr-defined]
        body = par.body if hasattr(par, "body") else []
        idx = body.index(st) if st in body else -1
        nxt = body[idx + 1] if 0 <= idx < len(body) - 1 else None
        lst = None
        if isinstance(nxt, ast.Expr) and isinstance(nxt.value, ast.Call) and isinstance(nxt.value.func, ast.Attribute) \
                and nxt.value.func.attr == "append" and isinstance(nxt.value.func.value, ast.Name):
            lst = nxt.value.func.value.id
        if lst is None:
            return None
        loops = [x for s in h.body for x in ast.walk(s) if isinstance(x, ast.For) and isinstance(x.iter, ast.Name) and x.iter.id == lst]
        if not loops:
            return None
        inv = [x for x in ast.walk(loops[0]) if isinstance(x, ast.Call) and (A.call_name(x) or "").split(".")[-1] == INVERSES[nm]]
        ends_raise = isinstance(h.body[-1], ast.Raise) and h.body[-1].exc is None
        if inv and ends_raise:
            return f"for x in {lst}: {INVERSES[nm]}(x); raise  (inverse of {nm})"
        return None
