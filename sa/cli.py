"""./check <ID> [--tier quick|thorough] [--replay FILE] [--repo DIR] [--verbose]

exit 0: every obligation discharged (known findings print ``KNOWN-FINDING`` lines and do not fail the run)
exit 1: ``VIOLATION property=<id> replay=<path>`` for each violated obligation not listed as an open finding
exit 2: ``ANALYSIS-ERROR`` -- the analysis could not decide (never a verdict on basana)
"""
from __future__ import annotations

import argparse
import importlib
import json
import os
import sys
import time
import traceback

from . import core, loader


def run_rules(prop: str, root: str, tier: str, use_cache: bool = True) -> core.Ctx:
    mod = importlib.import_module(f"sa.rules.{prop.lower()}")
    repo = loader.Repo(root)
    ctx = core.Ctx(prop, repo, tier=tier, use_cache=use_cache)
    mod.run(ctx)
    return ctx


def main(argv=None) -> int:
    ap = argparse.ArgumentParser(prog="check")
    ap.add_argument("prop")
    ap.add_argument("--tier", default=os.environ.get("VERIF_TIER") or "quick", choices=["quick", "thorough"])
    ap.add_argument("--replay")
    ap.add_argument("--repo", default=loader.REPO)
    ap.add_argument("--verbose", "-v", action="store_true")
    ap.add_argument("--no-evidence", action="store_true")
    args = ap.parse_args(argv)
    prop = args.prop.upper()
    t0 = time.time()
    try:
        mod = importlib.import_module(f"sa.rules.{prop.lower()}")
    except ModuleNotFoundError:
        print(f"ANALYSIS-ERROR property={prop} no rule module")
        return 2
    try:
        ctx = run_rules(prop, args.repo, args.tier, use_cache=(args.tier == "quick"))
        selftest = None
        if args.tier == "thorough" and not args.replay:
            from . import selftest as st
            selftest = st.run_for(prop, args.repo)
    except (core.AnalysisError, loader.AnchorMissing) as e:
        print(f"ANALYSIS-ERROR property={prop} {type(e).__name__}: {e}")
        return 2
    except Exception as e:  # a traceback must never look like a violation
        traceback.print_exc()
        print(f"ANALYSIS-ERROR property={prop} internal error {type(e).__name__}: {e}")
        return 2

    if args.replay:
        with open(args.replay) as f:
            rp = json.load(f)
        hits = [o for o in ctx.obs if o.key == rp.get("key")]
        if not hits:
            print(f"replay: no obligation with key {rp.get('key')!r} on the current tree (construct gone)")
            return 0
        rc = 0
        for o in hits:
            print(o.line())
            print(json.dumps(o.detail, indent=1, default=str))
            if not o.ok:
                rc = 1
        return rc

    known = core.load_known()
    viol = [o for o in ctx.obs if not o.ok]
    new = []
    for o in viol:
        ent = next((e for e in known if core.finding_matches(e, o, prop)), None)
        if ent is not None:
            print(f"KNOWN-FINDING: property={prop} {ent.get('what', o.msg)} [{o.where} {o.rule}]")
        else:
            new.append(o)
    if args.verbose:
        for o in ctx.obs:
            print(o.line())
    for o in new:
        print(o.line())
        for ln in o.detail.get("path", [])[:25]:
            print("      " + str(ln))
    nfun = len(ctx.analysed_funcs)
    print(f"[{prop}] tier={args.tier} modules={len(ctx.repo.modules)} functions={nfun} obligations={len(ctx.obs)} "
          f"discharged={sum(1 for o in ctx.obs if o.ok)} violations={len(viol)} new={len(new)} "
          f"rules={sorted({o.rule for o in ctx.obs})}")
    extra = {}
    rc_self = 0
    if selftest is not None:
        extra["self_validation"] = selftest.summary()
        print(f"[{prop}] self-validation: {selftest.line()}")
        if selftest.failed:
            for f in selftest.failed:
                print(f"ANALYSIS-ERROR property={prop} self-validation: {f}")
            rc_self = 2
    if not args.no_evidence:
        core.write_evidence(ctx, prop, args.tier, time.time() - t0, len(new), mod.EXPLANATION,
                            getattr(mod, "TRUSTED", []), extra)
    if new:
        for o in new:
            path = core.write_replay(prop, o)
            print(f"VIOLATION property={prop} replay={path}")
        return 1
    return rc_self


if __name__ == "__main__":
    sys.stdout.reconfigure(line_buffering=True)
    rc = main()
    sys.stdout.flush()
    os._exit(rc)
