"""Abstract evaluation of string-building code into an ordered list of segments.

Rules about wire formats (what is signed, what is sent, request paths) must not depend on whether the string is built with
``+=``, ``"".join``, ``str.format`` or an f-string, nor on the names of temporaries.  ``segments(fn, expr)`` evaluates ``expr``
in the string-composition domain:

    Seg(kind, text, node, guard)
      kind = "lit"    text = the literal characters
             "enc"    text = "<encoder>(<kw,...>)" , arg = the encoded expression (a parameter / variable name when plain)
             "expr"   text = canonical text of any other expression (locals expanded by copy propagation)

A local name is evaluated through its definitions *in textual order*: a plain assignment starts the value (a self-reference
splices the value so far), ``+=`` appends.  Branch conditions are recorded on the segment (``guard``) and otherwise ignored,
so the result is the *maximal* composition; the callers compare encoders and order, and check guards where they matter.
"""
from __future__ import annotations

import ast
import dataclasses
import string
from typing import Dict, List, Optional

from . import astutil as A
from . import loader
from . import norm as N

ENCODERS = ("urlencode", "quote", "quote_plus", "dumps")


@dataclasses.dataclass
class Seg:
    kind: str
    text: str
    node: Optional[ast.AST] = None
    guard: Optional[str] = None
    arg: Optional[str] = None      # for "enc": dotted text of what is encoded
    tag: Optional[str] = None      # key when the segment was read out of a local dict literal (``headers["X-Auth"]``)
    xform: str = "$"               # for "enc": what is done to the variable ``arg`` before it is encoded ("$" = nothing)

    def label(self) -> str:
        return self.text if self.kind != "enc" else f"{self.text}:{self.arg}"


def _guard_of(stmt: ast.AST, fn_node: ast.AST) -> Optional[str]:
    cur = getattr(stmt, "parent", None)
    child = stmt
    while cur is not None and cur is not fn_node:
        if isinstance(cur, ast.If):
            t = N.canon(cur.test)
            return t if child in cur.body else f"not ({t})"
        child, cur = cur, getattr(cur, "parent", None)
    return None


class Builder:
    def __init__(self, fn: loader.Func):
        self.fn = fn
        self._stack: List[str] = []

    # -- names -------------------------------------------------------------------------------------------------
    def _name(self, name: str, depth: int) -> List[Seg]:
        if name in self._stack or depth > 10:
            return [Seg("expr", name)]
        ds = []
        for s in A.stores(self.fn):
            if isinstance(s.target, ast.Name) and s.target.id == name and isinstance(s.node, (ast.Assign, ast.AnnAssign, ast.AugAssign, ast.NamedExpr)) \
                    and getattr(s.node, "value", None) is not None:
                if isinstance(s.node, ast.Assign) and isinstance(s.node.targets[0], (ast.Tuple, ast.List)):
                    return [Seg("expr", name)]
                ds.append(s)
        ds.sort(key=lambda s: A.seq(s.stmt))
        cur: List[Seg] = [Seg("expr", name)] if name in self.fn.params else []
        if not ds:
            return [Seg("expr", name)]
        self._stack.append(name)
        try:
            for s in ds:
                g = _guard_of(s.stmt, self.fn.node)
                if isinstance(s.node, ast.AugAssign):
                    if not isinstance(s.node.op, ast.Add):
                        return [Seg("expr", name)]
                    new = self.eval(s.node.value, depth + 1)
                    for x in new:
                        x.guard = x.guard or g
                    cur = cur + new
                else:
                    new = self.eval(s.node.value, depth + 1, selfname=name, selfval=cur)
                    if g is not None:
                        for x in new:
                            if not any(x is y for y in cur):
                                x.guard = x.guard or g
                    cur = new
        finally:
            self._stack.pop()
        if len(ds) == 1 and len(cur) == 1 and cur[0].kind == "expr" and cur[0].node is ds[0].node.value and cur[0].tag is None:
            # nothing string-structural in the definition: keep the variable's identity (two reads of `timestamp` are the same value,
            # two evaluations of its defining expression need not be)
            return [Seg("expr", name, ds[0].node.value, cur[0].guard)]
        return cur

    # -- expressions ---------------------------------------------------------------------------------------------
    def eval(self, e: ast.AST, depth: int = 0, selfname: Optional[str] = None, selfval: Optional[List[Seg]] = None) -> List[Seg]:
        def rec(x):
            return self.eval(x, depth + 1, selfname, selfval)
        if isinstance(e, ast.Constant):
            if isinstance(e.value, str):
                return [Seg("lit", e.value, e)] if e.value else []
            return [Seg("expr", repr(e.value), e)]
        if isinstance(e, ast.Name):
            if selfname is not None and e.id == selfname:
                return list(selfval or [])
            if e.id in self.fn.params and not any(isinstance(s.target, ast.Name) and s.target.id == e.id for s in A.stores(self.fn)):
                return [Seg("expr", e.id, e)]
            r = self._name(e.id, depth)
            return r
        if isinstance(e, ast.BinOp) and isinstance(e.op, ast.Add):
            return rec(e.left) + rec(e.right)
        if isinstance(e, ast.JoinedStr):
            out: List[Seg] = []
            for p in e.values:
                if isinstance(p, ast.Constant):
                    out += rec(p)
                elif isinstance(p, ast.FormattedValue):
                    if p.format_spec is not None or p.conversion not in (-1, 115):
                        out.append(Seg("expr", N.canon(p), p))
                    else:
                        out += rec(p.value)
            return out
        if isinstance(e, ast.IfExp):
            b, o = rec(e.body), rec(e.orelse)
            t = N.canon(e.test)
            if b and o and not any(x.kind == "enc" for x in b + o):
                return [Seg("expr", N.canon(e), e)]     # a choice between two non-empty texts: opaque (one placeholder)
            pick, g = (b, t) if (any(x.kind == "enc" for x in b) or not any(x.kind == "enc" for x in o)) and (b or not o) else (o, f"not ({t})")
            other = o if pick is b else b
            # the other branch must be a prefix-compatible reduction (typically "" or the bare value); record the guard on what is extra
            for x in pick:
                if not any(x is y or (x.kind, x.text) == (y.kind, y.text) for y in other):
                    x.guard = x.guard or g
            return pick
        if isinstance(e, ast.Call):
            nm = A.call_name(e) or ""
            last = nm.split(".")[-1]
            if last in ENCODERS and e.args:
                extra = sorted(k.arg for k in e.keywords if k.arg)
                arg = N.expand(self.fn, e.args[0]) if not isinstance(e.args[0], ast.Name) else e.args[0]
                var, xf = N.split_arg(arg)
                return [Seg("enc", last + (f"({','.join(extra)})" if extra else ""), e, None, var if var is not None else N.canon(arg), None, xf)]
            if isinstance(e.func, ast.Attribute):
                recv = e.func.value
                if e.func.attr in ("encode", "decode") and len(e.args) <= 1:
                    return rec(recv)
                if e.func.attr == "format" and isinstance(recv, ast.Constant) and isinstance(recv.value, str) and not e.keywords:
                    out = []
                    i = 0
                    try:
                        for lit, field, spec, conv in string.Formatter().parse(recv.value):
                            if lit:
                                out.append(Seg("lit", lit, recv))
                            if field is None:
                                continue
                            if spec or conv:
                                return [Seg("expr", N.canon(e), e)]
                            idx = i if field == "" else int(field)
                            i += 1
                            out += rec(e.args[idx])
                        return out
                    except (ValueError, IndexError):
                        return [Seg("expr", N.canon(e), e)]
                if e.func.attr == "join" and isinstance(recv, ast.Constant) and recv.value == "" and len(e.args) == 1:
                    return self._sequence(e.args[0], depth + 1)
            if nm == "str" and len(e.args) == 1 and not e.keywords:
                inner = rec(e.args[0])
                if all(x.kind in ("lit", "enc") for x in inner):
                    return inner
                return [Seg("expr", N.canon(e), e)]
        if isinstance(e, ast.Await):
            return rec(e.value)
        key, recv, default = None, None, None
        if isinstance(e, ast.Subscript) and isinstance(e.value, ast.Name) and isinstance(A.const_value(e.slice), str):
            key, recv = A.const_value(e.slice), e.value.id
        elif isinstance(e, ast.Call) and isinstance(e.func, ast.Attribute) and e.func.attr == "get" and isinstance(e.func.value, ast.Name) \
                and e.args and isinstance(A.const_value(e.args[0]), str):
            key, recv = A.const_value(e.args[0]), e.func.value.id
            default = e.args[1] if len(e.args) > 1 else ast.Constant(value=None)
        if key is not None and recv not in self.fn.params:
            vals = self.dict_entries(recv).get(key)
            if vals:
                out = []
                for v, g in vals:
                    segs = rec(v)
                    if not segs and default is not None:
                        continue
                    for x in segs:
                        x.guard = x.guard or g
                        x.tag = key
                    out += segs
                if len(vals) == 1:
                    return out
        return [Seg("expr", N.canon(e), e)]

    def dict_entries(self, name: str) -> Dict[str, list]:
        """key -> [(value expression, guard)] for a local built as a dict literal plus ``name[K] = V`` stores"""
        out: Dict[str, list] = {}
        for s in sorted(A.stores(self.fn), key=lambda s: A.seq(s.stmt)):
            if isinstance(s.target, ast.Name) and s.target.id == name and isinstance(s.node, (ast.Assign, ast.AnnAssign)) \
                    and isinstance(s.node.value, ast.Dict):
                for k, v in zip(s.node.value.keys, s.node.value.values):
                    if k is not None and isinstance(A.const_value(k), str):
                        out.setdefault(A.const_value(k), []).append((v, _guard_of(s.stmt, self.fn.node)))
            elif isinstance(s.target, ast.Subscript) and A.dotted(s.target.value) == name and isinstance(A.const_value(s.target.slice), str) \
                    and isinstance(s.node, ast.Assign):
                out.setdefault(A.const_value(s.target.slice), []).append((s.node.value, _guard_of(s.stmt, self.fn.node)))
        return out

    def _sequence(self, e: ast.AST, depth: int) -> List[Seg]:
        """elements of a list / tuple / comprehension over a literal tuple, concatenated"""
        if isinstance(e, ast.Name):
            if e.id in self.fn.params:
                return [Seg("expr", N.canon(e), e)]
            # a local list: its literal definition, then .append(x) / .extend([..]) / += [..] in textual order (guards recorded)
            evs = []
            for s_ in A.stores(self.fn):
                if A.dotted(s_.target) != e.id:
                    continue
                if isinstance(s_.node, (ast.Assign, ast.AnnAssign)) and getattr(s_.node, "value", None) is not None:
                    evs.append((A.seq(s_.stmt), "def", s_.node.value, s_.stmt))
                elif isinstance(s_.node, ast.AugAssign) and isinstance(s_.node.op, ast.Add):
                    evs.append((A.seq(s_.stmt), "extend", s_.node.value, s_.stmt))
                elif s_.kind == "mutcall" and isinstance(s_.node, ast.Call) and isinstance(s_.node.func, ast.Attribute) \
                        and s_.node.func.attr in ("append", "extend") and len(s_.node.args) == 1:
                    evs.append((A.seq(s_.stmt), s_.node.func.attr, s_.node.args[0], s_.stmt))
                else:
                    return [Seg("expr", N.canon(e), e)]
            evs.sort(key=lambda t: t[0])
            if not evs or evs[0][1] != "def" or sum(1 for t in evs if t[1] == "def") != 1:
                return [Seg("expr", N.canon(e), e)]
            out: List[Seg] = []
            for _, kind, val, stmt in evs:
                segs = self.eval(val, depth + 1) if kind == "append" else self._sequence(val, depth + 1)
                g = _guard_of(stmt, self.fn.node)
                for x in segs:
                    x.guard = x.guard or g
                out += segs
            return out
        if isinstance(e, (ast.List, ast.Tuple)):
            out: List[Seg] = []
            for x in e.elts:
                out += self.eval(x, depth + 1)
            return out
        if isinstance(e, (ast.ListComp, ast.GeneratorExp)) and len(e.generators) == 1 and isinstance(e.generators[0].target, ast.Name) \
                and isinstance(e.generators[0].iter, (ast.Tuple, ast.List)):
            gen = e.generators[0]
            out = []
            for item in gen.iter.elts:
                class Sub(ast.NodeTransformer):
                    def visit_Name(self, node):
                        return ast.copy_location(__import__("copy").deepcopy(item), node) if node.id == gen.target.id else node
                import copy
                elt = Sub().visit(copy.deepcopy(e.elt))
                ast.fix_missing_locations(elt)
                segs = self.eval(elt, depth + 1)
                if gen.ifs:
                    g = " and ".join(N.canon(Sub().visit(copy.deepcopy(i))) for i in gen.ifs)
                    for x in segs:
                        x.guard = x.guard or g
                out += segs
            return out
        return [Seg("expr", N.canon(e), e)]


def segments(fn: loader.Func, e: ast.AST) -> List[Seg]:
    segs = Builder(fn).eval(e)
    # merge adjacent literals
    out: List[Seg] = []
    for s in segs:
        if s.kind == "lit" and out and out[-1].kind == "lit" and out[-1].guard == s.guard:
            out[-1] = Seg("lit", out[-1].text + s.text, out[-1].node, s.guard)
        else:
            out.append(s)
    return out


def template(segs: List[Seg]) -> str:
    """literal text with every non-literal segment shown as ``{}``"""
    return "".join(s.text if s.kind == "lit" else "{}" for s in segs)
