"""Normalisation helpers that make structural rules independent of temporaries and renamings.

* ``defs(fn)``            name -> list of value expressions assigned to it (Assign / AnnAssign / walrus / AugAssign value)
* ``expand(fn, e)``       copy-propagation: replace a local Name that has exactly one definition by that definition
                          (recursively, bounded); used only for *recognising* shapes, never for evaluation order
* ``reaching(fn, name)``  every expression that can flow into ``name`` through chains of plain copies (multi-definition)
* ``aliases(fn, name)``   names connected to ``name`` by plain copies (``a = b``), including the inliner's return variables
* ``canon(e)``            layout-independent text
"""
from __future__ import annotations

import ast
import copy
import re
from typing import Dict, List, Optional, Set

from . import astutil as A
from . import loader


def defs(fn: loader.Func) -> Dict[str, List[ast.AST]]:
    out: Dict[str, List[ast.AST]] = {}
    for s in A.stores(fn):
        if isinstance(s.target, ast.Name):
            n = s.node
            if isinstance(n, (ast.Assign, ast.AnnAssign, ast.NamedExpr)) and getattr(n, "value", None) is not None:
                if isinstance(n, ast.Assign) and isinstance(n.targets[0], (ast.Tuple, ast.List)):
                    out.setdefault(s.target.id, []).append(ast.Constant(value="<unpacked>"))
                else:
                    out.setdefault(s.target.id, []).append(n.value)
            elif isinstance(n, ast.AugAssign):
                out.setdefault(s.target.id, []).append(n)
            elif isinstance(n, (ast.For, ast.AsyncFor)):
                out.setdefault(s.target.id, []).append(ast.Constant(value="<loop>"))
    return out


def canon(e: Optional[ast.AST]) -> str:
    if e is None:
        return ""
    t = ast.unparse(e)
    return re.sub(r"\s+", " ", t).replace('"', "'").strip()


class _Expand(ast.NodeTransformer):
    def __init__(self, d: Dict[str, List[ast.AST]], params: Set[str], depth: int):
        self.d, self.params, self.depth = d, params, depth

    def visit_Name(self, node: ast.Name) -> ast.AST:
        if isinstance(node.ctx, ast.Load) and node.id in self.d and node.id not in self.params and self.depth > 0:
            vs = [v for v in self.d[node.id] if not (isinstance(v, ast.Constant) and v.value is None)]
            if len(vs) == 1 and not isinstance(vs[0], (ast.AugAssign,)) and not (isinstance(vs[0], ast.Constant) and isinstance(vs[0].value, str)
                                                                                  and vs[0].value.startswith("<")):
                if not any(isinstance(x, ast.Name) and x.id == node.id for x in ast.walk(vs[0])):
                    return _Expand(self.d, self.params, self.depth - 1).visit(copy.deepcopy(vs[0]))
        return node

    def visit_Lambda(self, node):
        return node


def expand(fn: loader.Func, e: ast.AST, depth: int = 4) -> ast.AST:
    return _Expand(defs(fn), set(fn.params), depth).visit(copy.deepcopy(e))


def reaching(fn: loader.Func, name: str, _seen: Optional[Set[str]] = None) -> List[ast.AST]:
    seen = _seen if _seen is not None else set()
    if name in seen:
        return []
    seen.add(name)
    out: List[ast.AST] = []
    for v in defs(fn).get(name, []):
        if isinstance(v, ast.Name):
            out.extend(reaching(fn, v.id, seen))
        elif isinstance(v, ast.IfExp):
            for br in (v.body, v.orelse):
                if isinstance(br, ast.Name):
                    out.extend(reaching(fn, br.id, seen))
                else:
                    out.append(br)
        else:
            out.append(v)
    return out


def aliases(fn: loader.Func, name: str) -> Set[str]:
    d = defs(fn)
    group = {name}
    changed = True
    while changed:
        changed = False
        for k, vs in d.items():
            for v in vs:
                if isinstance(v, ast.Name):
                    if v.id in group and k not in group:
                        group.add(k)
                        changed = True
                    if k in group and v.id not in group:
                        group.add(v.id)
                        changed = True
    return group


def guarded_values(fn: loader.Func, name: str):
    """Definitions of ``name`` with the branch condition they sit under: ``(test, polarity, value)``.

    Recognises ``if T: name = A  else: name = B`` (direct children of the If) and ``name = A if T else B``;
    the test is returned with local temporaries expanded.  Any other definition is returned with test None."""
    out = []
    for s in A.stores(fn):
        if not (isinstance(s.target, ast.Name) and s.target.id == name):
            continue
        n = s.node
        if not isinstance(n, (ast.Assign, ast.AnnAssign)) or getattr(n, "value", None) is None:
            out.append((None, None, None))
            continue
        par = getattr(n, "parent", None)
        if isinstance(n.value, ast.IfExp):
            t = expand(fn, n.value.test)
            out.append((t, True, n.value.body))
            out.append((t, False, n.value.orelse))
        elif isinstance(par, ast.If) and (n in par.body or n in par.orelse):
            out.append((expand(fn, par.test), n in par.body, n.value))
        else:
            out.append((None, None, n.value))
    return out
