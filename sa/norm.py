"""Normalisation helpers that make structural rules independent of temporaries and renamings.

* ``defs(fn)``            name -> list of value expressions assigned to it (Assign / AnnAssign / walrus / AugAssign value)
* ``expand(fn, e)``       copy-propagation: replace a local Name that has exactly one definition by that definition
                          (recursively, bounded); used only for *recognising* shapes, never for evaluation order
* ``reaching(fn, name)``  every expression that can flow into ``name`` through chains of plain copies (multi-definition)
* ``aliases(fn, name)``   names connected to ``name`` by plain copies (``a = b``), including the inliner's return variables
* ``canon(e)``            layout-independent text
"""
from __future__ import annotations

import ast
import copy
import re
from typing import Dict, List, Optional, Set

from . import astutil as A
from . import loader


def defs(fn: loader.Func) -> Dict[str, List[ast.AST]]:
    out: Dict[str, List[ast.AST]] = {}
    for s in A.stores(fn):
        if isinstance(s.target, ast.Name):
            n = s.node
            if isinstance(n, (ast.Assign, ast.AnnAssign, ast.NamedExpr)) and getattr(n, "value", None) is not None:
                if isinstance(n, ast.Assign) and isinstance(n.targets[0], (ast.Tuple, ast.List)):
                    out.setdefault(s.target.id, []).append(ast.Constant(value="<unpacked>"))
                else:
                    out.setdefault(s.target.id, []).append(n.value)
            elif isinstance(n, ast.AugAssign):
                out.setdefault(s.target.id, []).append(n)
            elif isinstance(n, (ast.For, ast.AsyncFor)):
                out.setdefault(s.target.id, []).append(ast.Constant(value="<loop>"))
    return out


def canon(e: Optional[ast.AST]) -> str:
    if e is None:
        return ""
    t = ast.unparse(e)
    return re.sub(r"\s+", " ", t).replace('"', "'").strip()


class _Expand(ast.NodeTransformer):
    def __init__(self, d: Dict[str, List[ast.AST]], params: Set[str], depth: int):
        self.d, self.params, self.depth = d, params, depth

    def visit_Name(self, node: ast.Name) -> ast.AST:
        if isinstance(node.ctx, ast.Load) and node.id in self.d and node.id not in self.params and self.depth > 0:
            vs = [v for v in self.d[node.id] if not (isinstance(v, ast.Constant) and v.value is None)]
            if len(vs) == 1 and not isinstance(vs[0], (ast.AugAssign,)) and not (isinstance(vs[0], ast.Constant) and isinstance(vs[0].value, str)
                                                                                  and vs[0].value.startswith("<")):
                if not any(isinstance(x, ast.Name) and x.id == node.id for x in ast.walk(vs[0])):
                    return _Expand(self.d, self.params, self.depth - 1).visit(copy.deepcopy(vs[0]))
        return node

    def visit_Lambda(self, node):
        return node


def expand(fn: loader.Func, e: ast.AST, depth: int = 4) -> ast.AST:
    return _Expand(defs(fn), set(fn.params), depth).visit(copy.deepcopy(e))


def reaching(fn: loader.Func, name: str, _seen: Optional[Set[str]] = None) -> List[ast.AST]:
    seen = _seen if _seen is not None else set()
    if name in seen:
        return []
    seen.add(name)
    out: List[ast.AST] = []
    for v in defs(fn).get(name, []):
        if isinstance(v, ast.Name):
            out.extend(reaching(fn, v.id, seen))
        elif isinstance(v, ast.IfExp):
            for br in (v.body, v.orelse):
                if isinstance(br, ast.Name):
                    out.extend(reaching(fn, br.id, seen))
                else:
                    out.append(br)
        else:
            out.append(v)
    return out


def aliases(fn: loader.Func, name: str) -> Set[str]:
    d = defs(fn)
    group = {name}
    changed = True
    while changed:
        changed = False
        for k, vs in d.items():
            for v in vs:
                if isinstance(v, ast.Name):
                    if v.id in group and k not in group:
                        group.add(k)
                        changed = True
                    if k in group and v.id not in group:
                        group.add(v.id)
                        changed = True
    return group


def guarded_values(fn: loader.Func, name: str):
    """Definitions of ``name`` with the branch condition they sit under: ``(test, polarity, value)``.

    Recognises ``if T: name = A  else: name = B`` (direct children of the If) and ``name = A if T else B``;
    the test is returned with local temporaries expanded.  Any other definition is returned with test None."""
    out = []
    for s in A.stores(fn):
        if not (isinstance(s.target, ast.Name) and s.target.id == name):
            continue
        n = s.node
        if not isinstance(n, (ast.Assign, ast.AnnAssign)) or getattr(n, "value", None) is None:
            out.append((None, None, None))
            continue
        par = getattr(n, "parent", None)
        if isinstance(n.value, ast.IfExp):
            t = expand(fn, n.value.test)
            out.append((t, True, n.value.body))
            out.append((t, False, n.value.orelse))
        elif isinstance(par, ast.If) and (n in par.body or n in par.orelse):
            out.append((expand(fn, par.test), n in par.body, n.value))
        else:
            out.append((None, None, n.value))
    return out


# -- derived mappings ------------------------------------------------------------------------------------------------------

class _Ren(ast.NodeTransformer):
    def __init__(self, ren):
        self.ren = ren

    def visit_Name(self, node):
        if node.id in self.ren:
            return copy.deepcopy(self.ren[node.id]) if isinstance(self.ren[node.id], ast.AST) else ast.copy_location(ast.Name(id=self.ren[node.id], ctx=node.ctx), node)
        return node


def _subst(e: ast.AST, ren) -> ast.AST:
    return _Ren(ren).visit(copy.deepcopy(e))


def derived_map(fn: loader.Func, name: str, depth: int = 0):
    """A local dict ``name`` built entry-by-entry from another mapping, in either of the two idioms

        name = {K: V for k, v in BASE.items() if F}                      (comprehension)
        name = {} ; for k, v in BASE.items(): [t = E ...] ; if F: name[K] = V      (loop)

    returned as ``(base, key, value, [filters])`` where key/value/filters are canonical texts over ``KEY_`` / ``VAL_`` (the base's key
    and value) with loop-local temporaries expanded; when BASE is itself such a derived local the two are composed.  None when the
    construction is anything else."""
    if depth > 3:
        return None
    K, V = ast.Name(id="KEY_", ctx=ast.Load()), ast.Name(id="VAL_", ctx=ast.Load())
    found = None
    ds = [d for d in defs(fn).get(name, []) if not (isinstance(d, ast.Dict) and not d.keys) and not (isinstance(d, ast.Call) and canon(d) in ("dict()", "list()"))
          and not (isinstance(d, ast.List) and not d.elts)]
    comp = [d for d in ds if isinstance(d, ast.DictComp)]
    if len(ds) == 1 and comp and len(comp[0].generators) == 1:
        g = comp[0].generators[0]
        if isinstance(g.target, ast.Tuple) and len(g.target.elts) == 2 and all(isinstance(e, ast.Name) for e in g.target.elts) \
                and isinstance(g.iter, ast.Call) and isinstance(g.iter.func, ast.Attribute) and g.iter.func.attr == "items":
            ren = {g.target.elts[0].id: K, g.target.elts[1].id: V}
            found = (g.iter.func.value, _subst(expand(fn, comp[0].key), ren), _subst(expand(fn, comp[0].value), ren),
                     [_subst(expand(fn, i), ren) for i in g.ifs])
    elif not ds:
        # loop idiom: the only stores into name[...] sit in one for-loop over BASE.items()
        sts = [s for s in A.stores(fn) if isinstance(s.target, ast.Subscript) and A.dotted(s.target.value) == name and isinstance(s.node, ast.Assign)]
        if not sts:
            # a list of (key, value) pairs filled with name.append((K, V)) is the same mapping as a dict filled with name[K] = V
            apps = [s for s in A.stores(fn, shallow=False) if s.kind == "mutcall" and A.dotted(s.target) == name and isinstance(s.node, ast.Call)
                    and isinstance(s.node.func, ast.Attribute) and s.node.func.attr == "append" and len(s.node.args) == 1
                    and isinstance(s.node.args[0], ast.Tuple) and len(s.node.args[0].elts) == 2]
            if len(apps) == 1:
                class _S:
                    pass
                st_ = _S()
                st_.stmt = apps[0].stmt
                st_.target = _S()
                st_.target.slice = apps[0].node.args[0].elts[0]
                st_.node = _S()
                st_.node.value = apps[0].node.args[0].elts[1]
                sts = [st_]
        if len(sts) == 1:
            st = sts[0]
            loop = next((a for a in A.ancestors(st.stmt) if isinstance(a, ast.For)), None)
            if loop is not None and isinstance(loop.target, ast.Tuple) and len(loop.target.elts) == 2 and all(isinstance(e, ast.Name) for e in loop.target.elts) \
                    and isinstance(loop.iter, ast.Call) and isinstance(loop.iter.func, ast.Attribute) and loop.iter.func.attr == "items" and not loop.orelse:
                ren = {loop.target.elts[0].id: K, loop.target.elts[1].id: V}
                filters = []
                cur = st.stmt
                ok = True
                for a in A.ancestors(st.stmt):
                    if a is loop:
                        break
                    if isinstance(a, ast.If):
                        t = expand(fn, a.test)
                        filters.append(t if cur in a.body or any(A.is_within(cur, b) for b in a.body) else ast.UnaryOp(op=ast.Not(), operand=t))
                    elif not isinstance(a, ast.For):
                        ok = False
                    cur = a
                # nothing in the loop may leave it early
                if any(isinstance(x, (ast.Break, ast.Continue, ast.Return)) for x in ast.walk(loop)):
                    ok = False
                if ok:
                    found = (loop.iter.func.value, _subst(expand(fn, st.target.slice), ren), _subst(expand(fn, st.node.value), ren),
                             [_subst(f, ren) for f in reversed(filters)])
    if found is None:
        return None
    base, key, value, filters = found
    base = expand(fn, base) if not isinstance(base, ast.Name) else base
    if isinstance(base, ast.Name) and base.id not in fn.params:
        inner = derived_map(fn, base.id, depth + 1)
        if inner is not None:
            ibase, ikey, ivalue, ifilters = inner
            if ikey != "KEY_":
                return None
            iv = ast.parse(ivalue, mode="eval").body if isinstance(ivalue, str) else ivalue
            ren = {"VAL_": iv}
            return (ibase, canon(_subst(key, ren)), canon(_subst(value, ren)), list(ifilters) + [canon(_subst(f, ren)) for f in filters])
    return (canon(base), canon(key), canon(value), [canon(f) for f in filters])


def through_properties(repo: loader.Repo, fn: loader.Func, e: ast.AST, depth: int = 3) -> ast.AST:
    """Replace ``self.P`` by what the property getter P of the same class returns when that getter is ``[assert ...;] return <expr>``
    (reading through a trivial accessor is reading the attribute)."""
    if fn.cls is None or depth <= 0:
        return e
    getters: Dict[str, ast.AST] = {}
    for m in fn.cls.node.body:
        if isinstance(m, ast.FunctionDef) and any(isinstance(d, ast.Name) and d.id == "property" for d in m.decorator_list):
            body = [s for s in m.body if not isinstance(s, ast.Assert) and not (isinstance(s, ast.Expr) and isinstance(s.value, ast.Constant))]
            if len(body) == 1 and isinstance(body[0], ast.Return) and body[0].value is not None:
                getters[m.name] = body[0].value

    class T(ast.NodeTransformer):
        def visit_Attribute(self, node: ast.Attribute):
            self.generic_visit(node)
            if isinstance(node.value, ast.Name) and node.value.id == "self" and node.attr in getters and isinstance(node.ctx, ast.Load):
                return copy.deepcopy(getters[node.attr])
            return node
    out = T().visit(copy.deepcopy(e))
    return out if canon(out) == canon(e) else through_properties(repo, fn, out, depth - 1)


def alpha(e: ast.AST) -> ast.AST:
    """comprehension-bound names renamed to _0, _1, ... in binding order (alpha-equivalence for shape comparison)"""
    e = copy.deepcopy(e)
    ren: Dict[str, str] = {}
    for n in ast.walk(e):
        if isinstance(n, ast.comprehension):
            for x in ast.walk(n.target):
                if isinstance(x, ast.Name) and x.id not in ren:
                    ren[x.id] = f"_{len(ren)}"
    for n in ast.walk(e):
        if isinstance(n, ast.Name) and n.id in ren:
            n.id = ren[n.id]
    return e


def split_arg(e: ast.AST, builtins=("format", "isinstance", "str", "int", "Decimal", "float", "repr", "dict", "list", "tuple", "sorted")):
    """(variable, transform) of an argument expression: ``f(x)`` -> ("x", "f($)"); a plain name or dotted name -> (name, "$");
    (None, text) when the expression has no single free variable."""
    d = A.dotted(e)
    if d is not None:
        return d, "$"
    a = alpha(e)
    free = sorted({n.id for n in ast.walk(a) if isinstance(n, ast.Name) and not (n.id.startswith("_") and n.id[1:].isdigit()) and n.id not in builtins})
    if len(free) != 1:
        return None, canon(a)
    var = free[0]
    for n in ast.walk(a):
        if isinstance(n, ast.Name) and n.id == var:
            n.id = "$"
    return var, canon(a)
