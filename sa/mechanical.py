"""Mechanical behaviour-preserving rewrites of the whole package: the checks must not depend on spelling.

Each mode rewrites every file under <root>/basana in place (run on a scratch copy).  All modes re-emit the files through ast.unparse, so
comments, layout and every line number change as well.  The pinned 226 tests pass on the result of every mode (confirmed by hand with
tools/baseline.py; DESIGN.md 11.5), and the thorough tier of every property requires all of them to be silent.

  reformat   nothing but the ast.unparse round trip
  rename     every plain local variable (not a parameter, global, handler name, import, nested-function parameter) gets a new name
             with probability p (seeded)
  reorder    the methods of every class are sorted by name, descending (classes with a method named like an imported module are left
             alone: there the order decides what an annotation refers to)
  mirror     `a < b` -> `b > a` for simple operands, and `if c: A else: B` -> `if not c: B else: A`
  params     the positional parameters of every private function or method (`_name`) that is never called with keyword arguments are
             renamed (`order` -> `p_order`)
  attrs      every private attribute stored on self (`self._x = ...`) whose name is not also a function, class-level or string-accessed
             name is renamed throughout the package (`._x` -> `._x_attr`)
  augexpand  `x op= e` -> `x = x op e` where the target is an immutable scalar (the pinned table sa/known_shapes.json says which)
"""
from __future__ import annotations

import ast
import copy
import glob
import json
import os
import random
from typing import Set

FuncT = (ast.FunctionDef, ast.AsyncFunctionDef)
MODES = ("reformat", "rename", "reorder", "mirror", "augexpand", "params", "attrs")


def _rename_function(fn: ast.AST, rnd: random.Random, prob: float) -> int:
    stores: Set[str] = set()
    bad: Set[str] = set()
    a = fn.args
    params = {x.arg for x in a.posonlyargs + a.args + a.kwonlyargs} | {x.arg for x in (a.vararg, a.kwarg) if x is not None}
    for n in ast.walk(fn):
        if isinstance(n, ast.Name) and isinstance(n.ctx, (ast.Store, ast.Del)):
            stores.add(n.id)
        elif isinstance(n, (ast.Global, ast.Nonlocal)):
            bad |= set(n.names)
        elif isinstance(n, ast.ExceptHandler) and n.name:
            bad.add(n.name)
        elif isinstance(n, ast.alias):
            bad.add((n.asname or n.name).split(".")[0])
        elif isinstance(n, FuncT + (ast.Lambda,)) and n is not fn:
            b = n.args
            bad |= {x.arg for x in b.posonlyargs + b.args + b.kwonlyargs} | {x.arg for x in (b.vararg, b.kwarg) if x is not None}
            if not isinstance(n, ast.Lambda):
                bad.add(n.name)
        elif isinstance(n, ast.ClassDef):
            bad.add(n.name)
        elif isinstance(n, (ast.MatchAs, ast.MatchStar)) and n.name:
            bad.add(n.name)
    ren = [x for x in sorted(stores - bad - params) if rnd.random() < prob]
    mp = {x: rnd.choice(["tmp_", "new_", "the_", "x"]) + x[::rnd.choice([1, -1])].strip("_") + rnd.choice(["", "2", "_val"]) for x in ren}
    used = {n.id for n in ast.walk(fn) if isinstance(n, ast.Name)}
    if len(set(mp.values())) < len(mp) or set(mp.values()) & (used | bad | params):
        mp = {x: x + "_v" for x in ren}
    for st in fn.body:          # annotations, defaults and decorators belong to the enclosing scope
        for n in ast.walk(st):
            if isinstance(n, ast.Name) and n.id in mp:
                n.id = mp[n.id]
    return len(mp)


def _outer_functions(node: ast.AST):
    for c in ast.iter_child_nodes(node):
        if isinstance(c, FuncT):
            yield c
        elif isinstance(c, (ast.ClassDef, ast.If, ast.Try)):
            yield from _outer_functions(c)


_FLIP = {ast.Lt: ast.Gt, ast.Gt: ast.Lt, ast.LtE: ast.GtE, ast.GtE: ast.LtE}


class _Mirror(ast.NodeTransformer):
    def visit_If(self, node: ast.If) -> ast.AST:
        self.generic_visit(node)
        if node.orelse and not (len(node.orelse) == 1 and isinstance(node.orelse[0], ast.If)):
            t = node.test
            t = t.operand if isinstance(t, ast.UnaryOp) and isinstance(t.op, ast.Not) else ast.UnaryOp(ast.Not(), t)
            return ast.If(t, node.orelse, node.body)
        return node

    def visit_Compare(self, node: ast.Compare) -> ast.AST:
        self.generic_visit(node)
        simple = (ast.Name, ast.Constant, ast.Attribute)
        if len(node.ops) == 1 and type(node.ops[0]) in _FLIP and isinstance(node.comparators[0], simple) and isinstance(node.left, simple):
            return ast.Compare(node.comparators[0], [_FLIP[type(node.ops[0])]()], [node.left])
        return node


class _AugExpand(ast.NodeTransformer):
    def __init__(self, safe: Set[str]):
        self.safe = safe

    def visit_AugAssign(self, node: ast.AugAssign) -> ast.AST:
        if ast.unparse(node) not in self.safe:
            return node
        left = copy.deepcopy(node.target)
        for x in ast.walk(left):
            if hasattr(x, "ctx"):
                x.ctx = ast.Load()
        return ast.Assign([node.target], ast.BinOp(left, node.op, node.value))


def _rename_params(trees) -> int:
    defs = {}
    for t in trees.values():
        for c in ast.walk(t):
            if isinstance(c, FuncT) and c.name.startswith("_") and not c.name.startswith("__"):
                defs.setdefault(c.name, []).append(c)
    kwuse = set()
    for t in trees.values():
        for c in ast.walk(t):
            if isinstance(c, ast.Call) and c.keywords:
                nm = c.func.attr if isinstance(c.func, ast.Attribute) else getattr(c.func, "id", None)
                if nm in defs:
                    kwuse.add(nm)
    count = 0
    for name, fl in defs.items():
        if name in kwuse:
            continue
        for fn in fl:
            ps = [x for x in fn.args.posonlyargs + fn.args.args if x.arg not in ("self", "cls")]
            used = {x.id for x in ast.walk(fn) if isinstance(x, ast.Name)}
            inner = {y.arg for x in ast.walk(fn) if isinstance(x, FuncT + (ast.Lambda,)) and x is not fn for y in x.args.args}
            mp = {}
            for p in ps:
                new = "p_" + p.arg
                if new in used or p.arg in inner:
                    continue
                mp[p.arg] = new
                p.arg = new
                count += 1
            for st in fn.body:
                for x in ast.walk(st):
                    if isinstance(x, ast.Name) and x.id in mp:
                        x.id = mp[x.id]
    return count


def _rename_attrs(trees, root: str) -> int:
    import re
    stored, taken, strings = set(), set(), set()
    tests_dir = os.path.join(root, "tests") if os.path.isdir(os.path.join(root, "tests")) else "/repo/tests"
    for tp in glob.glob(os.path.join(tests_dir, "**", "*.py"), recursive=True):   # the pinned tests read some private attributes
        with open(tp) as f:
            taken |= set(re.findall(r"\b_[A-Za-z0-9_]+\b", f.read()))
    for t in trees.values():
        for n in ast.walk(t):
            if isinstance(n, ast.Attribute):
                if (isinstance(n.ctx, ast.Store) and isinstance(n.value, ast.Name) and n.value.id == "self" and n.attr.startswith("_")
                        and not n.attr.startswith("__")):
                    stored.add(n.attr)
            elif isinstance(n, FuncT + (ast.ClassDef,)):
                taken.add(n.name)
            elif isinstance(n, ast.ClassDef):
                pass
            elif isinstance(n, ast.Constant) and isinstance(n.value, str):
                strings.add(n.value)
            elif isinstance(n, ast.keyword) and n.arg:
                taken.add(n.arg)
        for c in ast.walk(t):
            if isinstance(c, ast.ClassDef):
                for st in c.body:
                    for x in ast.walk(st) if isinstance(st, (ast.Assign, ast.AnnAssign)) else []:
                        if isinstance(x, ast.Name):
                            taken.add(x.id)
    mp = {a: a + "_attr" for a in stored - taken - strings}
    for t in trees.values():
        for n in ast.walk(t):
            if isinstance(n, ast.Attribute) and n.attr in mp:
                n.attr = mp[n.attr]
    return len(mp)


def rewrite(root: str, mode: str, seed: int = 1, prob: float = 0.6) -> int:
    assert mode in MODES, mode
    rnd = random.Random(seed)
    count = 0
    safe: Set[str] = set()
    if mode == "augexpand":
        with open(os.path.join(os.path.dirname(os.path.abspath(__file__)), "known_shapes.json")) as f:
            safe = {x for v in json.load(f).values() for x in v.get("augassign", [])}
    paths = sorted(glob.glob(os.path.join(root, "basana", "**", "*.py"), recursive=True))
    if mode in ("params", "attrs"):
        trees = {}
        for path in paths:
            with open(path) as f:
                trees[path] = ast.parse(f.read())
        count = _rename_params(trees) if mode == "params" else _rename_attrs(trees, root)
        for path, tree in trees.items():
            with open(path, "w") as f:
                f.write(ast.unparse(tree) + "\n")
        return count
    for path in paths:
        with open(path) as f:
            tree = ast.parse(f.read())
        if mode == "rename":
            for fn in _outer_functions(tree):
                count += _rename_function(fn, rnd, prob)
        elif mode == "reorder":
            top = {(a.asname or a.name).split(".")[0] for s in ast.walk(tree) if isinstance(s, (ast.Import, ast.ImportFrom)) for a in s.names}
            for c in ast.walk(tree):
                if isinstance(c, ast.ClassDef):
                    idx = [i for i, s in enumerate(c.body) if isinstance(s, FuncT)]
                    if {c.body[i].name for i in idx} & top:
                        continue
                    fs = sorted((c.body[i] for i in idx), key=lambda s: s.name, reverse=True)
                    for i, s in zip(idx, fs):
                        c.body[i] = s
                        count += 1
        elif mode == "mirror":
            tree = _Mirror().visit(tree)
            count += 1
        elif mode == "augexpand":
            tree = _AugExpand(safe).visit(tree)
            count += 1
        ast.fix_missing_locations(tree)
        with open(path, "w") as f:
            f.write(ast.unparse(tree) + "\n")
    return count
