"""Recover the pinned snapshot's local-variable names after a consistent renaming (alpha-conversion).

Several rules name a local of a pinned function by its identifier (``final_updates`` in ``_process_order``).  Renaming a local is
behaviour-preserving, so before the rules run every function that exists in the pinned snapshot (``sa/known_locals.json``) is
alpha-renamed back: a local whose name the snapshot does not know is matched to a snapshot local that disappeared, first by the shape
of its first definition (the defining expression with all locals blanked out), then by order of first definition when the counts
agree.  The renaming is applied consistently to the whole function and only when the target name occurs nowhere in it, so the analysed
function is alpha-equivalent to the one in the tree whatever the matching decides; a wrong match can only make a name-keyed rule look at
a different (still equivalent) spelling, never at different behaviour.
"""
from __future__ import annotations

import ast
import json
import os
from typing import Dict, Iterator, List, Optional, Set, Tuple

TABLE = os.path.join(os.path.dirname(os.path.abspath(__file__)), "known_locals.json")
FuncT = (ast.FunctionDef, ast.AsyncFunctionDef)


def _functions(tree: ast.Module, modname: str) -> Iterator[Tuple[str, ast.AST]]:
    def rec(node: ast.AST, prefix: str) -> Iterator[Tuple[str, ast.AST]]:
        for c in ast.iter_child_nodes(node):
            if isinstance(c, FuncT):
                yield f"{prefix}.{c.name}", c
            elif isinstance(c, ast.ClassDef):
                yield from rec(c, f"{prefix}.{c.name}")
            elif isinstance(c, (ast.If, ast.Try)):
                yield from rec(c, prefix)
    yield from rec(tree, modname)


def _preorder(node: ast.AST) -> Iterator[ast.AST]:
    yield node
    for c in ast.iter_child_nodes(node):
        yield from _preorder(c)


def _fixed_names(fn: ast.AST) -> Set[str]:
    """Names of the function that are not plain locals: parameters (own and nested), global/nonlocal, handler names, imports, defs."""
    out: Set[str] = set()
    for n in _preorder(fn):
        if isinstance(n, FuncT + (ast.Lambda,)):
            a = n.args
            out |= {x.arg for x in a.posonlyargs + a.args + a.kwonlyargs}
            out |= {x.arg for x in (a.vararg, a.kwarg) if x is not None}
            if not isinstance(n, ast.Lambda) and n is not fn:
                out.add(n.name)
        elif isinstance(n, (ast.Global, ast.Nonlocal)):
            out |= set(n.names)
        elif isinstance(n, ast.ExceptHandler) and n.name:
            out.add(n.name)
        elif isinstance(n, ast.alias):
            out.add((n.asname or n.name).split(".")[0])
        elif isinstance(n, ast.ClassDef):
            out.add(n.name)
        elif isinstance(n, (ast.MatchAs, ast.MatchStar)) and n.name:
            out.add(n.name)
    return out


class _Blank(ast.NodeTransformer):
    def __init__(self, names: Set[str]):
        self.names = names

    def visit_Name(self, node: ast.Name) -> ast.AST:
        return ast.Name("_", node.ctx) if node.id in self.names else node


def _text(node: Optional[ast.AST], locs: Set[str]) -> str:
    if node is None:
        return ""
    import copy
    return ast.unparse(_Blank(locs).visit(copy.deepcopy(node)))


def _target_path(tgt: ast.AST, name_node: ast.Name) -> Optional[str]:
    if tgt is name_node:
        return ""
    if isinstance(tgt, (ast.Tuple, ast.List)):
        for i, e in enumerate(tgt.elts):
            p = _target_path(e, name_node)
            if p is not None:
                return f".{i}{p}"
    if isinstance(tgt, ast.Starred):
        p = _target_path(tgt.value, name_node)
        return None if p is None else "*" + p
    return None


def local_defs(fn: ast.AST) -> List[Tuple[str, str]]:
    """(name, shape of first definition) of every plain local of ``fn`` in order of first definition."""
    fixed = _fixed_names(fn)
    stores = [n for st in fn.body for n in _preorder(st) if isinstance(n, ast.Name) and isinstance(n.ctx, ast.Store)]
    locs = {n.id for n in stores} - fixed
    parents: Dict[int, ast.AST] = {}
    for st in fn.body:
        for n in _preorder(st):
            for c in ast.iter_child_nodes(n):
                parents[id(c)] = n
    out: List[Tuple[str, str]] = []
    seen: Set[str] = set()
    for n in stores:
        if n.id not in locs or n.id in seen:
            continue
        seen.add(n.id)
        p: ast.AST = n
        while id(p) in parents and isinstance(parents[id(p)], (ast.Tuple, ast.List, ast.Starred)):
            p = parents[id(p)]
        top, holder = p, parents.get(id(p))
        path = _target_path(top, n) or ""
        if isinstance(holder, ast.Assign):
            sig = f"assign{path}:{_text(holder.value, locs)}"
        elif isinstance(holder, ast.AnnAssign):
            sig = f"assign{path}:{_text(holder.value, locs)}"
        elif isinstance(holder, ast.AugAssign):
            sig = f"aug{path}:{type(holder.op).__name__}:{_text(holder.value, locs)}"
        elif isinstance(holder, (ast.For, ast.AsyncFor)):
            sig = f"for{path}:{_text(holder.iter, locs)}"
        elif isinstance(holder, ast.comprehension):
            sig = f"comp{path}:{_text(holder.iter, locs)}"
        elif isinstance(holder, ast.withitem):
            sig = f"with{path}:{_text(holder.context_expr, locs)}"
        elif isinstance(holder, ast.NamedExpr):
            sig = f"walrus:{_text(holder.value, locs)}"
        else:
            sig = f"other:{type(holder).__name__}"
        out.append((n.id, sig))
    return out


def build_table(trees: List[Tuple[str, ast.Module]]) -> Dict[str, List[List[str]]]:
    table: Dict[str, List[List[str]]] = {}
    for modname, tree in trees:
        for q, fn in _functions(tree, modname):
            d = local_defs(fn)
            if d and q not in table:
                table[q] = [list(x) for x in d]
    return table


def load_table() -> Optional[Dict[str, List[List[str]]]]:
    if not os.path.exists(TABLE):
        return None
    with open(TABLE) as f:
        return json.load(f)


def _all_identifiers(fn: ast.AST) -> Set[str]:
    out = {n.id for n in _preorder(fn) if isinstance(n, ast.Name)}
    return out | _fixed_names(fn)


def recover(tree: ast.Module, modname: str, table: Dict[str, List[List[str]]]) -> List[str]:
    """Alpha-rename locals of pinned functions back to the pinned names; returns a log."""
    log: List[str] = []
    done: Set[str] = set()
    for q, fn in _functions(tree, modname):
        if q not in table or q in done:
            continue
        done.add(q)
        base = [tuple(x) for x in table[q]]
        cur = local_defs(fn)
        base_names, cur_names = {n for n, _ in base}, {n for n, _ in cur}
        used = _all_identifiers(fn)
        missing = [(n, s) for n, s in base if n not in cur_names and n not in used]
        extra = [(n, s) for n, s in cur if n not in base_names]
        if not missing or not extra:
            continue
        pairs: List[Tuple[str, str, str]] = []
        sigs = []
        for _, s in missing:
            if s not in sigs:
                sigs.append(s)
        for s in sigs:
            ms = [n for n, t in missing if t == s]
            es = [n for n, t in extra if t == s]
            if ms and len(ms) == len(es):
                pairs += [(e, m, "shape") for e, m in zip(es, ms)]
        taken_e, taken_m = {e for e, _, _ in pairs}, {m for _, m, _ in pairs}
        rest_m = [n for n, _ in missing if n not in taken_m]
        rest_e = [n for n, _ in extra if n not in taken_e]
        if rest_m and len(rest_m) == len(rest_e):
            pairs += [(e, m, "order") for e, m in zip(rest_e, rest_m)]
        if not pairs:
            continue
        mapping = {e: m for e, m, _ in pairs}
        for st in fn.body:
            for n in _preorder(st):
                if isinstance(n, ast.Name) and n.id in mapping:
                    n.id = mapping[n.id]
        for e, m, how in pairs:
            log.append(f"{q}: local {e} -> {m} ({how})")
    return log


# -- orientation of comparisons and of if/else ------------------------------------------------------------------
SHAPES = os.path.join(os.path.dirname(os.path.abspath(__file__)), "known_shapes.json")
_FLIP = {ast.Lt: ast.Gt, ast.Gt: ast.Lt, ast.LtE: ast.GtE, ast.GtE: ast.LtE, ast.Eq: ast.Eq, ast.NotEq: ast.NotEq, ast.Is: ast.Is,
         ast.IsNot: ast.IsNot}


def _flippable(c: ast.AST) -> bool:
    if not (isinstance(c, ast.Compare) and len(c.ops) == 1 and type(c.ops[0]) in _FLIP):
        return False
    return not any(isinstance(n, (ast.Await, ast.Yield, ast.YieldFrom, ast.NamedExpr)) for n in _preorder(c))


def _flipped_text(c: ast.Compare) -> str:
    return ast.unparse(ast.Compare(c.comparators[0], [_FLIP[type(c.ops[0])]()], [c.left]))


def _negated_text(t: ast.AST) -> str:
    if isinstance(t, ast.UnaryOp) and isinstance(t.op, ast.Not):
        return ast.unparse(t.operand)
    return ast.unparse(ast.UnaryOp(ast.Not(), t))


def _plain_else(n: ast.AST) -> bool:
    return isinstance(n, ast.If) and bool(n.orelse) and not (len(n.orelse) == 1 and isinstance(n.orelse[0], ast.If))


def build_shapes(trees: List[Tuple[str, ast.Module]]) -> Dict[str, Dict[str, List[str]]]:
    table: Dict[str, Dict[str, List[str]]] = {}
    for modname, tree in trees:
        for q, fn in _functions(tree, modname):
            if q in table:
                continue
            cmps = sorted({ast.unparse(n) for n in _preorder(fn) if _flippable(n)})
            ifs = sorted({ast.unparse(n.test) for n in _preorder(fn) if _plain_else(n)})
            table[q] = {"compare": cmps, "if_else": ifs, "params": [a.arg for a in fn.args.posonlyargs + fn.args.args],
                        "kwonly": [a.arg for a in fn.args.kwonlyargs]}
    return table


_IMMUTABLE = ("str", "decimal.Decimal", "int", "float", "bool", "datetime.datetime", "datetime.timedelta")


def _immutable_type(t: Optional[str]) -> bool:
    if not t:
        return False
    t = t.rstrip("?")
    return t in _IMMUTABLE or t.startswith("Literal[")


def build_augassign(root: str) -> Dict[str, List[str]]:
    """Pinned `x op= e` statements whose target (or operand) mypy types as an immutable scalar: only for those is `x = x op e` the same
    statement (a ValueMap or dict target is updated in place by `+=`, and rebinding it instead is a behaviour change)."""
    from . import astutil as A, loader, mypyfacts
    os.environ["SA_NO_INLINE"] = "1"
    repo = loader.Repo(root)
    del os.environ["SA_NO_INLINE"]
    facts = mypyfacts.load(root, repo.digest, use_cache=True)
    out: Dict[str, List[str]] = {}
    for m in repo.modules.values():
        for q, fn in _functions(m.tree, m.modname):
            for n in _preorder(fn):
                if isinstance(n, ast.AugAssign) and (_immutable_type(facts.types.get(A.fact_key(m, n.target)))
                                                      or _immutable_type(facts.types.get(A.fact_key(m, n.value)))):
                    out.setdefault(q, [])
                    if ast.unparse(n) not in out[q]:
                        out[q].append(ast.unparse(n))
    return out


def contract(tree: ast.Module, modname: str, table: Dict[str, Dict[str, List[str]]]) -> List[str]:
    """In pinned functions, `x = x op e` is turned back into the pinned `x op= e` where the pinned statement works on an immutable
    scalar (table built with mypy's types at pin time)."""
    log: List[str] = []
    done: Set[str] = set()
    for q, fn in _functions(tree, modname):
        pinned = set((table.get(q) or {}).get("augassign", []))
        if not pinned or q in done:
            continue
        done.add(q)
        for holder in list(_preorder(fn)):
            for field in ("body", "orelse", "finalbody"):
                stmts = getattr(holder, field, None)
                if not isinstance(stmts, list):
                    continue
                for i, st in enumerate(stmts):
                    if (isinstance(st, ast.Assign) and len(st.targets) == 1 and isinstance(st.value, ast.BinOp)
                            and isinstance(st.targets[0], (ast.Name, ast.Attribute, ast.Subscript))
                            and not any(isinstance(x, (ast.Call, ast.Await)) for x in _preorder(st.targets[0]))
                            and ast.unparse(st.targets[0]) == ast.unparse(st.value.left)):
                        new = ast.copy_location(ast.AugAssign(st.targets[0], st.value.op, st.value.right), st)
                        if ast.unparse(new) in pinned:
                            log.append(f"{q}: {ast.unparse(st)} -> {ast.unparse(new)}")
                            stmts[i] = new
    return log


def recover_params(tree: ast.Module, modname: str, table: Dict[str, Dict[str, List[str]]]) -> List[str]:
    """A pinned function whose parameters were renamed (same count, same positions) gets the pinned parameter names back inside its
    body.  Keyword arguments at call sites are left alone (no rule reads them for the functions concerned)."""
    log: List[str] = []
    done: Set[str] = set()
    for q, fn in _functions(tree, modname):
        ent = table.get(q)
        if not ent or q in done or "params" not in ent:
            continue
        done.add(q)
        mapping: Dict[str, str] = {}
        args_by_name: Dict[str, ast.arg] = {}
        for cur, pinned in ((fn.args.posonlyargs + fn.args.args, ent["params"]), (fn.args.kwonlyargs, ent.get("kwonly", []))):
            if len(cur) != len(pinned):
                continue
            for a, want in zip(cur, pinned):
                if a.arg != want:
                    mapping[a.arg] = want
                    args_by_name[a.arg] = a
        if not mapping:
            continue
        used = {n.id for st in fn.body for n in _preorder(st) if isinstance(n, ast.Name)}
        own = {a.arg for a in fn.args.posonlyargs + fn.args.args + fn.args.kwonlyargs} | {x.arg for x in (fn.args.vararg, fn.args.kwarg) if x}
        nested = set()
        for st in fn.body:
            for n in _preorder(st):
                if isinstance(n, FuncT + (ast.Lambda,)):
                    a = n.args
                    nested |= {x.arg for x in a.posonlyargs + a.args + a.kwonlyargs} | {x.arg for x in (a.vararg, a.kwarg) if x}
                elif isinstance(n, ast.ExceptHandler) and n.name:
                    nested.add(n.name)
        targets_free = (used | own | nested) - set(mapping)
        mapping = {old: new for old, new in mapping.items() if new not in targets_free and old not in nested}
        if len(set(mapping.values())) < len(mapping):
            continue
        for old, new in mapping.items():
            args_by_name[old].arg = new
            log.append(f"{q}: parameter {old} -> {new}")
        for st in fn.body:
            for n in _preorder(st):
                if isinstance(n, ast.Name) and n.id in mapping:
                    n.id = mapping[n.id]
    return log


# -- private attribute names ---------------------------------------------------------------------------------------
def _classes(tree: ast.Module, modname: str) -> Iterator[Tuple[str, ast.ClassDef]]:
    def rec(node: ast.AST, prefix: str) -> Iterator[Tuple[str, ast.ClassDef]]:
        for c in ast.iter_child_nodes(node):
            if isinstance(c, ast.ClassDef):
                yield f"{prefix}.{c.name}", c
                yield from rec(c, f"{prefix}.{c.name}")
            elif isinstance(c, (ast.If, ast.Try)):
                yield from rec(c, prefix)
    yield from rec(tree, modname)


class _BlankAttrs(ast.NodeTransformer):
    def visit_Attribute(self, node: ast.Attribute) -> ast.AST:
        self.generic_visit(node)
        if node.attr.startswith("_") and not node.attr.startswith("__") and isinstance(node.value, ast.Name) and node.value.id == "self":
            return ast.Attribute(node.value, "_", node.ctx)
        return node


def class_attrs(cls: ast.ClassDef) -> List[Tuple[str, str]]:
    """(private attribute, shape of its first `self.x = ...`) for the attributes a class stores on self; __init__ first, then by
    method name, so that reordering methods does not change the order."""
    import copy
    out: List[Tuple[str, str]] = []
    seen: Set[str] = set()
    methods = [m for m in cls.body if isinstance(m, FuncT)]
    methods.sort(key=lambda m: (m.name != "__init__", m.name))
    for m in methods:
        for n in _preorder(m):
            tgts: List[ast.AST] = []
            val: Optional[ast.AST] = None
            if isinstance(n, ast.Assign):
                tgts, val = n.targets, n.value
            elif isinstance(n, (ast.AnnAssign, ast.AugAssign)):
                tgts, val = [n.target], n.value
            for t in tgts:
                if (isinstance(t, ast.Attribute) and isinstance(t.value, ast.Name) and t.value.id == "self" and t.attr.startswith("_")
                        and not t.attr.startswith("__") and t.attr not in seen):
                    seen.add(t.attr)
                    txt = "" if val is None else ast.unparse(_BlankAttrs().visit(copy.deepcopy(val)))
                    out.append((t.attr, f"{m.name}:{type(n).__name__}:{txt}"))
    return out


def build_attrs(trees: List[Tuple[str, ast.Module]]) -> Dict[str, object]:
    classes: Dict[str, List[List[str]]] = {}
    tokens: Set[str] = set()
    for modname, tree in trees:
        for n in _preorder(tree):
            if isinstance(n, ast.Attribute):
                tokens.add(n.attr)
            elif isinstance(n, FuncT + (ast.ClassDef,)):
                tokens.add(n.name)
        for q, c in _classes(tree, modname):
            a = class_attrs(c)
            if a and q not in classes:
                classes[q] = [list(x) for x in a]
    return {"classes": classes, "tokens": sorted(tokens)}


def recover_attrs(trees: List[Tuple[str, ast.Module]], table: Dict[str, object]) -> List[str]:
    """A private attribute the pinned package never mentions, stored by a pinned class that lost a pinned private attribute, is renamed
    back to the pinned name everywhere in the package (a consistent renaming of one attribute token to a token that occurs nowhere:
    behaviour-preserving short of string-based attribute access, which the package does not use for private names)."""
    pinned_classes: Dict[str, List[List[str]]] = table.get("classes", {})  # type: ignore
    pinned_tokens = set(table.get("tokens", []))  # type: ignore
    cur_tokens: Set[str] = set()
    for _, tree in trees:
        for n in _preorder(tree):
            if isinstance(n, ast.Attribute):
                cur_tokens.add(n.attr)
            elif isinstance(n, FuncT + (ast.ClassDef,)):
                cur_tokens.add(n.name)
    proposals: Dict[str, Set[str]] = {}
    for modname, tree in trees:
        for q, c in _classes(tree, modname):
            if q not in pinned_classes:
                continue
            base = [tuple(x) for x in pinned_classes[q]]
            cur = class_attrs(c)
            base_names, cur_names = {n for n, _ in base}, {n for n, _ in cur}
            missing = [(n, s) for n, s in base if n not in cur_names and n not in cur_tokens]
            extra = [(n, s) for n, s in cur if n not in base_names and n not in pinned_tokens]
            if not missing or not extra:
                continue
            pairs: List[Tuple[str, str]] = []
            for s in dict.fromkeys(s for _, s in missing):
                ms = [n for n, t in missing if t == s]
                es = [n for n, t in extra if t == s]
                if len(ms) == len(es):
                    pairs += list(zip(es, ms))
            rest_m = [n for n, _ in missing if n not in {m for _, m in pairs}]
            rest_e = [n for n, _ in extra if n not in {e for e, _ in pairs}]
            if rest_m and len(rest_m) == len(rest_e):
                pairs += list(zip(rest_e, rest_m))
            for e, m in pairs:
                proposals.setdefault(e, set()).add(m)
    mapping = {e: next(iter(ms)) for e, ms in proposals.items() if len(ms) == 1}
    if len(set(mapping.values())) < len(mapping):
        return []
    log: List[str] = []
    if mapping:
        for _, tree in trees:
            for n in _preorder(tree):
                if isinstance(n, ast.Attribute) and n.attr in mapping:
                    n.attr = mapping[n.attr]
        log = [f"attribute .{e} -> .{m} (whole package)" for e, m in sorted(mapping.items())]
    return log


def load_shapes() -> Optional[Dict[str, Dict[str, List[str]]]]:
    if not os.path.exists(SHAPES):
        return None
    with open(SHAPES) as f:
        return json.load(f)


def reorient(tree: ast.Module, modname: str, table: Dict[str, Dict[str, List[str]]]) -> List[str]:
    """In pinned functions, turn `b > a` back into the pinned `a < b` and `if not c: B else: A` back into the pinned `if c: A else: B`
    (single-operator comparisons without await/yield/walrus in the operands; plain if/else, no elif).  Only spellings whose mirrored
    text is a pinned spelling of the same function and whose own text is not are touched."""
    log: List[str] = []
    done: Set[str] = set()
    for q, fn in _functions(tree, modname):
        if q not in table or q in done:
            continue
        done.add(q)
        cmps, ifs = set(table[q].get("compare", [])), set(table[q].get("if_else", []))
        for n in list(_preorder(fn)):
            if _flippable(n) and cmps and ast.unparse(n) not in cmps and _flipped_text(n) in cmps:
                was = ast.unparse(n)
                n.left, n.comparators, n.ops = n.comparators[0], [n.left], [_FLIP[type(n.ops[0])]()]
                log.append(f"{q}: comparison {was} -> {ast.unparse(n)}")
        for n in list(_preorder(fn)):
            if _plain_else(n) and ifs and ast.unparse(n.test) not in ifs and _negated_text(n.test) in ifs:
                was = ast.unparse(n.test)
                t = n.test
                n.test = t.operand if isinstance(t, ast.UnaryOp) and isinstance(t.op, ast.Not) else ast.copy_location(ast.UnaryOp(ast.Not(), t), t)
                n.body, n.orelse = n.orelse, n.body
                log.append(f"{q}: if {was} .. else -> if {ast.unparse(n.test)} .. else (branches swapped)")
    return log


if __name__ == "__main__":
    import sys
    root = sys.argv[1] if len(sys.argv) > 1 else "/repo"
    trees = []
    for dirpath, dirnames, filenames in os.walk(os.path.join(root, "basana")):
        dirnames[:] = sorted(d for d in dirnames if d != "__pycache__")
        for f in sorted(filenames):
            if f.endswith(".py"):
                p = os.path.join(dirpath, f)
                rel = os.path.relpath(p, root)
                m = rel[:-3].replace(os.sep, ".")
                if m.endswith(".__init__"):
                    m = m[: -len(".__init__")]
                trees.append((m, ast.parse(open(p).read())))
    t = build_table(trees)
    with open(TABLE, "w") as f:
        json.dump(t, f, indent=0, sort_keys=True)
    print(len(t), "functions,", sum(len(v) for v in t.values()), "locals")
    sh = build_shapes(trees)
    for q, lst in build_augassign(root).items():
        sh[q]["augassign"] = lst
    sh["@attrs"] = build_attrs(trees)  # type: ignore
    with open(SHAPES, "w") as f:
        json.dump(sh, f, indent=0, sort_keys=True)
    print(len(sh), "functions with comparisons / if-else")
