"""mypy bridge: type and callee facts for every expression of basana, computed by the repository's own mypy
(a dev dependency installed in /venv) used as a library.  Nothing is executed; mypy only type-checks.

Facts are plain dicts keyed by ``(relpath, lineno, col, end_lineno, end_col)`` so that rules working on the stdlib
``ast`` can join on the node span.  The result is cached under /verif/.cache keyed by the digest of the
analysed sources (the cache is only a speed-up: a miss recomputes, and thorough runs bypass it).
"""
from __future__ import annotations

import os
import pickle
import sys
import time
from typing import Any, Dict, List, Optional, Tuple

Key = Tuple[str, int, int, int, int]

CACHE_DIR = os.path.join(os.path.dirname(os.path.dirname(os.path.abspath(__file__))), ".cache")

# attributes of mypy nodes that point *out of* the syntax tree (following them leaks into imported modules)
_SKIP = {
    "node", "info", "type", "unanalyzed_type", "analyzed", "impl", "original_def", "var", "func_def", "defn",
    "names", "imports", "alias_deps", "plugin_deps", "ref_expr", "type_annotation", "unanalyzed_items",
    "type_guard", "type_is", "deprecated", "original_first_arg", "dataclass_transform_spec", "special_alias",
    "callee_type", "typeddict_type", "tvar_scope", "target", "alias_tvars",
}


_ATTR_CACHE: Dict[type, List[str]] = {}


class Facts:
    def __init__(self) -> None:
        self.types: Dict[Key, str] = {}          # expression span -> str(type)
        self.callees: Dict[Key, List[str]] = {}  # call span -> fully qualified callee names (may be several)
        self.recv: Dict[Key, str] = {}           # attribute-expression span -> class fullname of the receiver
        self.refs: Dict[Key, str] = {}           # name/member expression span -> fullname of what it refers to
        self.mro: Dict[str, List[str]] = {}      # class fullname -> mro fullnames
        self.defs: Dict[str, str] = {}           # method fullname "C.m" -> defining class fullname
        self.errors: List[str] = []
        self.stats: Dict[str, Any] = {}

    # -- helpers used by the rules ---------------------------------------------------------------------------
    def subclasses(self, cls: str) -> List[str]:
        return sorted(c for c, mro in self.mro.items() if cls in mro)

    def is_subclass(self, cls: str, base: str) -> bool:
        return base in self.mro.get(cls, [cls])


def _type_class_names(t: Any) -> List[str]:
    """Class fullnames a receiver of type ``t`` may have (unions are flattened, Optional's None dropped)."""
    from mypy import types as T
    t = T.get_proper_type(t)
    if isinstance(t, T.Instance):
        return [t.type.fullname]
    if isinstance(t, T.UnionType):
        out: List[str] = []
        for it in t.items:
            out.extend(_type_class_names(it))
        return out
    if isinstance(t, T.TypeVarType):
        return _type_class_names(t.upper_bound)
    if isinstance(t, T.TypeType):
        return _type_class_names(t.item)
    if isinstance(t, T.CallableType) and t.is_type_obj():
        return [t.type_object().fullname]
    if isinstance(t, T.TupleType):
        return _type_class_names(t.partial_fallback)
    return []


def _compute(repo_root: str) -> Facts:
    from mypy import build, nodes as N
    from mypy.find_sources import create_source_list
    from mypy.options import Options

    t0 = time.time()
    cwd = os.getcwd()
    os.chdir(repo_root)
    try:
        opts = Options()
        opts.preserve_asts = True
        opts.export_types = True
        opts.incremental = False
        opts.cache_dir = os.devnull
        opts.check_untyped_defs = True
        opts.ignore_missing_imports = True
        opts.python_version = sys.version_info[:2]
        sources = create_source_list(["basana"], opts)
        res = build.build(sources, opts)
    finally:
        os.chdir(cwd)

    facts = Facts()
    facts.errors = list(res.errors)
    typemap = res.types

    infos: Dict[str, Any] = {}
    for modname, tree in res.graph.items():
        if not (modname == "basana" or modname.startswith("basana.")):
            continue
        mf = tree.tree
        if mf is None:
            continue
        # class table
        stack = [(mf.names, modname)]
        seen_tables = set()
        while stack:
            table, prefix = stack.pop()
            if id(table) in seen_tables:
                continue
            seen_tables.add(id(table))
            for name, sym in table.items():
                nd = sym.node
                if isinstance(nd, N.TypeInfo) and nd.fullname.startswith(prefix + "."):
                    infos[nd.fullname] = nd
                    stack.append((nd.names, nd.fullname))

    for full, info in infos.items():
        facts.mro[full] = [b.fullname for b in info.mro]
        for name, sym in info.names.items():
            facts.defs[f"{full}.{name}"] = full

    def lookup_method(cls_full: str, name: str, info: Any) -> Optional[str]:
        for b in info.mro:
            if name in b.names:
                return f"{b.fullname}.{name}"
        return None

    n_expr = n_call = n_call_resolved = 0
    for modname, st in res.graph.items():
        if not (modname == "basana" or modname.startswith("basana.")):
            continue
        mf = st.tree
        if mf is None:
            continue
        rel = os.path.relpath(mf.path, repo_root) if os.path.isabs(mf.path) else mf.path
        seen = set()
        work: List[Any] = [mf]
        while work:
            node = work.pop()
            if id(node) in seen:
                continue
            seen.add(id(node))
            if isinstance(node, N.Expression):
                line = getattr(node, "line", -1)
                end_line = getattr(node, "end_line", None)
                if line > 0 and end_line is not None:
                    key = (rel, line, node.column, end_line, node.end_column)
                    t = typemap.get(node)
                    if t is not None:
                        n_expr += 1
                        facts.types.setdefault(key, str(t))
                    if isinstance(node, N.RefExpr) and node.fullname:
                        facts.refs.setdefault(key, node.fullname)
                    if isinstance(node, N.MemberExpr):
                        rt = typemap.get(node.expr)
                        if rt is not None:
                            names = _type_class_names(rt)
                            if names:
                                facts.recv.setdefault(key, names[0])
                    if isinstance(node, N.CallExpr):
                        n_call += 1
                        cal = node.callee
                        out: List[str] = []
                        if isinstance(cal, N.MemberExpr):
                            rt = typemap.get(cal.expr)
                            if rt is not None:
                                from mypy import types as T
                                prt = T.get_proper_type(rt)
                                for cname in _type_class_names(rt):
                                    inf = infos.get(cname)
                                    if inf is not None:
                                        m = lookup_method(cname, cal.name, inf)
                                        out.append(m or f"{cname}.{cal.name}")
                                    else:
                                        out.append(f"{cname}.{cal.name}")
                                if not out and isinstance(prt, T.AnyType):
                                    out = []
                            if not out and cal.fullname:
                                out.append(cal.fullname)
                        elif isinstance(cal, N.RefExpr) and cal.fullname:
                            out.append(cal.fullname)
                        elif isinstance(cal, N.SuperExpr):
                            inf = cal.info
                            if inf is not None:
                                for b in inf.mro[1:]:
                                    if cal.name in b.names:
                                        out.append(f"{b.fullname}.{cal.name}")
                                        break
                        if out:
                            n_call_resolved += 1
                            facts.callees[key] = out
            # children
            # mypy is compiled with mypyc: no __dict__/__slots__, so enumerate data attributes via dir(type)
            tp = type(node)
            attrs = _ATTR_CACHE.get(tp)
            if attrs is None:
                attrs = []
                for attr in dir(tp):
                    if attr.startswith("_") or attr in _SKIP:
                        continue
                    cv = getattr(tp, attr, None)
                    if callable(cv) or isinstance(cv, property):
                        continue
                    attrs.append(attr)
                _ATTR_CACHE[tp] = attrs
            for attr in attrs:
                try:
                    v = getattr(node, attr)
                except Exception:
                    continue
                _push(v, work, N)

    facts.stats = {
        "mypy_wall_s": round(time.time() - t0, 2), "typed_expressions": n_expr, "calls": n_call,
        "calls_resolved": n_call_resolved, "classes": len(facts.mro), "mypy_errors": len(facts.errors),
    }
    return facts


def _push(v: Any, work: List[Any], N: Any) -> None:
    if isinstance(v, (N.MypyFile, N.TypeInfo)):
        return
    if isinstance(v, N.Node):
        work.append(v)
    elif isinstance(v, (list, tuple)):
        for x in v:
            _push(x, work, N)
    elif isinstance(v, dict):
        for x in v.values():
            _push(x, work, N)


def load(repo_root: str, digest: str, use_cache: bool = True) -> Facts:
    path = os.path.join(CACHE_DIR, f"mypy-{digest[:32]}.pickle")
    if use_cache and os.path.exists(path):
        try:
            with open(path, "rb") as f:
                facts = pickle.load(f)
            facts.stats["cache"] = "hit"
            return facts
        except Exception:
            pass
    facts = _compute(repo_root)
    facts.stats["cache"] = "miss"
    try:
        os.makedirs(CACHE_DIR, exist_ok=True)
        tmp = f"{path}.{os.getpid()}.tmp"
        with open(tmp, "wb") as f:
            pickle.dump(facts, f)
        os.replace(tmp, path)
    except OSError:
        pass
    return facts
