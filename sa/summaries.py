"""Interprocedural summaries over the mypy-resolved call graph (DESIGN.md 3.3): may_raise and mutates.

may_raise(f): set of exception class short names that can escape f -- from explicit ``raise`` sites and callees,
minus what enclosing handlers catch (class hierarchy of basana's own exception classes respected, a bare ``raise``
re-adds what the handler caught).  ``assert`` is a stated belief, not a raise.  A frozen table of *environment-lookup*
raise sites is excluded, each with its reason (the properties quantify over exchanges whose symbols/pairs/prices are
configured).

mutates(f): f (transitively) writes state that outlives the call: a store / in-place mutator call whose target is
rooted at ``self`` or at a parameter (objects created inside f and not yet published are local).
"""
from __future__ import annotations

import ast
from typing import Any, Dict, List, Optional, Set, Tuple

from . import astutil as A
from . import loader
from .cfg import walk_shallow

ENV_LOOKUP = {
    "basana.backtesting.config.Config.get_pair_info": "pair precision is configured (premise of every backtesting property)",
    "basana.backtesting.config.Config.get_symbol_info": "symbol precision is configured (premise of every backtesting property)",
    "basana.backtesting.prices.Prices.get_price": "NoPrice: a bar of the pair has been seen (environment)",
    "basana.backtesting.prices.Prices.get_bid_ask": "NoPrice: a bar of the pair has been seen (environment)",
    # Prices.convert is NOT here: a missing conversion price is an input like any other (D12)
    "basana.backtesting.lending.margin.MarginLoans.get_conditions": "lending conditions are configured (environment)",
    "basana.core.dispatcher.BacktestingDispatcher.now": "at least one event was dispatched (requests come from handlers)",
    "basana.backtesting.liquidity.VolumeShareImpact.take_liquidity": "amount <= available liquidity is established by the order "
                                                                      "classes on every abstract outcome (C08.2 / C04.1)",
    "basana.backtesting.liquidity.VolumeShareImpact.calculate_price_impact": "amount <= available liquidity (C08.2 / C04.1)",
    "basana.backtesting.liquidity.VolumeShareImpact.calculate_amount": "not used by the exchange",
}

BASE_EXC = {"Exception", "BaseException"}


class Summaries:
    def __init__(self, ctx: Any):
        self.ctx = ctx
        self.repo: loader.Repo = ctx.repo
        self.ci = A.call_index(ctx)
        self.exc_parents: Dict[str, List[str]] = {}
        for q, mro in ctx.facts.mro.items():
            short = q.rsplit(".", 1)[-1]
            self.exc_parents.setdefault(short, [])
            for b in mro:
                self.exc_parents[short].append(b.rsplit(".", 1)[-1])
        self._may_raise: Dict[str, Set[str]] = {}
        self._mutates: Dict[str, bool] = {}
        self._fix()

    # -- exception class relation ---------------------------------------------------------------------------------
    def is_sub(self, exc: str, handler: str) -> bool:
        if handler in BASE_EXC:
            return True
        return handler in self.exc_parents.get(exc, [exc])

    def handler_names(self, h: ast.ExceptHandler) -> List[str]:
        if h.type is None:
            return ["BaseException"]
        elts = h.type.elts if isinstance(h.type, ast.Tuple) else [h.type]
        return [(A.dotted(e) or "?").split(".")[-1] for e in elts]

    # -- per-call raise set ---------------------------------------------------------------------------------------
    def call_raises(self, m: loader.Module, c: ast.Call) -> Set[str]:
        out: Set[str] = set()
        for callee in self.ci.callees(m, c):
            for t in self.ci.overrides_of(callee):
                if t in ENV_LOOKUP:
                    continue
                if t in self._may_raise:
                    out |= self._may_raise[t]
                init = f"{t}.__init__"
                if init in self._may_raise:
                    out |= self._may_raise[init]
        return out

    def _escaping(self, fn: loader.Func) -> Set[str]:
        """Exception names escaping ``fn`` given the current summaries of its callees."""
        def visit(stmts: List[ast.stmt], caught_ctx: List[str]) -> Set[str]:
            out: Set[str] = set()
            for s in stmts:
                out |= stmt(s, caught_ctx)
            return out

        def expr_raises(e: ast.AST) -> Set[str]:
            out: Set[str] = set()
            for n in walk_shallow(e):
                if isinstance(n, ast.Call):
                    out |= self.call_raises(fn.module, n)
                elif isinstance(n, ast.Attribute) and isinstance(n.ctx, ast.Load):
                    # property getters
                    rc = self.ctx.facts.recv.get(A.fact_key(fn.module, n))
                    if rc:
                        for cls in self.ctx.facts.mro.get(rc, [rc]):
                            q = f"{cls}.{n.attr}"
                            if q in self._may_raise and q in self.repo.funcs and \
                                    "property" in [d.split(".")[-1] for d in A.decorators(self.repo.funcs[q])]:
                                for t in self.ci.overrides_of(q):
                                    if t not in ENV_LOOKUP:
                                        out |= self._may_raise.get(t, set())
                                break
            return out

        def stmt(s: ast.stmt, caught_ctx: List[str]) -> Set[str]:
            if isinstance(s, (ast.FunctionDef, ast.AsyncFunctionDef, ast.ClassDef)):
                return set()
            if isinstance(s, ast.Raise):
                if s.exc is None:
                    return set(caught_ctx)
                f = s.exc.func if isinstance(s.exc, ast.Call) else s.exc
                nm = (A.dotted(f) or "Exception").split(".")[-1]
                return set() if nm == "NotImplementedError" else {nm}
            if isinstance(s, ast.Assert):
                return set()
            if isinstance(s, ast.Try):
                body = visit(s.body, caught_ctx)
                remaining = set(body)
                out: Set[str] = set()
                for h in s.handlers:
                    names = self.handler_names(h)
                    caught = {e for e in remaining if any(self.is_sub(e, hn) for hn in names)}
                    remaining -= caught
                    out |= visit(h.body, sorted(caught) or names)
                out |= remaining
                out |= visit(s.orelse, caught_ctx)
                out |= visit(s.finalbody, caught_ctx)
                return out
            out = set()
            if isinstance(s, (ast.If, ast.While)):
                out |= expr_raises(s.test)
                out |= visit(s.body, caught_ctx) | visit(s.orelse, caught_ctx)
                return out
            if isinstance(s, (ast.For, ast.AsyncFor)):
                out |= expr_raises(s.iter)
                out |= visit(s.body, caught_ctx) | visit(s.orelse, caught_ctx)
                return out
            if isinstance(s, (ast.With, ast.AsyncWith)):
                for i in s.items:
                    out |= expr_raises(i.context_expr)
                out |= visit(s.body, caught_ctx)
                return out
            return expr_raises(s)
        body = fn.node.body if not isinstance(fn.node, ast.Lambda) else [ast.Expr(value=fn.node.body)]
        return visit(body, [])

    def _direct_mutation(self, fn: loader.Func) -> bool:
        """A store / in-place mutator whose target is rooted at ``self.<attr>`` (state of a long-lived object), or at a
        local name that aliases such an expression.  Writes rooted at a bare parameter (``fees[symbol] = ...`` in a
        rounding helper, ``self[key] = ...`` in ValueMap) mutate an object the *caller* owns and are judged there."""
        if fn.name == "__init__":
            return False
        # only state the properties talk about: the account, orders, loans and their registries.  Caches and bookkeeping
        # of price feeds, configuration or strategies are not account state.
        if fn.cls is None or not self._is_state_class(fn.cls.qualname):
            return False
        aliases: Set[str] = set()
        for s in A.stores(fn):
            if isinstance(s.target, ast.Name) and isinstance(s.node, (ast.Assign, ast.NamedExpr)):
                v = s.node.value
                root = v
                while isinstance(root, (ast.Attribute, ast.Subscript, ast.Call)):
                    root = root.func if isinstance(root, ast.Call) else root.value
                if isinstance(root, ast.Name) and root.id == "self" and isinstance(v, (ast.Attribute, ast.Subscript, ast.Call)) \
                        and not (isinstance(v, ast.Call) and not isinstance(v.func, ast.Attribute)):
                    # x = self._d.get(k) / self._d[k] / self._x : x may alias persistent state
                    if isinstance(v, ast.Call) and isinstance(v.func, ast.Attribute) and v.func.attr not in ("get", "setdefault", "pop"):
                        continue
                    aliases.add(s.target.id)
        for s in A.stores(fn):
            t = s.target
            if isinstance(t, ast.Name):
                if s.kind == "augassign" and t.id in aliases:
                    return True
                continue
            depth = 0
            root = t
            while isinstance(root, (ast.Attribute, ast.Subscript)):
                if isinstance(root, ast.Attribute):
                    depth += 1
                root = root.value
            if isinstance(root, ast.Name) and root.id == "self" and depth >= 1:
                return True
            if isinstance(root, ast.Name) and root.id in aliases and s.kind in ("subscript", "mutcall", "delete", "augassign"):
                return True
        return False

    STATE_ROOTS = ("basana.backtesting.account_balances.AccountBalances", "basana.backtesting.orders.Order",
                   "basana.backtesting.lending.base.Loan", "basana.backtesting.order_mgr.OrderManager",
                   "basana.backtesting.loan_mgr.LoanManager", "basana.backtesting.helpers.ExchangeObjectContainer",
                   "basana.backtesting.liquidity.LiquidityStrategy", "basana.core.helpers.TaskPool", "basana.core.helpers.TaskGroup")

    def _is_state_class(self, q: str) -> bool:
        if not q.startswith("basana.backtesting.") and not q.startswith("basana.core.helpers."):
            return True     # outside the backtesting exchange the summaries are used for other purposes: keep them general
        mro = self.ctx.facts.mro.get(q, [q])
        return any(r in mro for r in self.STATE_ROOTS)

    def _fix(self) -> None:
        funcs = list(self.repo.funcs.values())
        for f in funcs:
            self._may_raise[f.qualname] = set()
            self._mutates[f.qualname] = self._direct_mutation(f)
        changed = True
        rounds = 0
        g = A.call_graph(self.ctx)
        while changed and rounds < 30:
            changed = False
            rounds += 1
            for f in funcs:
                r = self._escaping(f)
                if r != self._may_raise[f.qualname]:
                    self._may_raise[f.qualname] = r
                    changed = True
                if not self._mutates[f.qualname]:
                    for callee in g.get(f.qualname, ()):
                        if self._mutates.get(callee) and not callee.endswith(".__init__"):
                            self._mutates[f.qualname] = True
                            changed = True
                            break

    # -- public ----------------------------------------------------------------------------------------------------
    def may_raise(self, q: str) -> Set[str]:
        out: Set[str] = set()
        for t in self.ci.overrides_of(q):
            if t in ENV_LOOKUP:
                continue
            out |= self._may_raise.get(t, set())
        return out

    def mutates(self, q: str) -> bool:
        return any(self._mutates.get(t, False) for t in self.ci.overrides_of(q))

    def call_mutates(self, m: loader.Module, c: ast.Call) -> bool:
        for callee in self.ci.callees(m, c):
            for t in self.ci.overrides_of(callee):
                if self._mutates.get(t, False) and not t.endswith(".__init__"):
                    return True
        return False


def get(ctx: Any) -> Summaries:
    s = getattr(ctx, "_summaries", None)
    if s is None:
        s = Summaries(ctx)
        ctx._summaries = s
    return s
