"""Rule context, obligations, known findings, evidence and the output contract (DESIGN.md 3.5 / 3.6)."""
from __future__ import annotations

import ast
import dataclasses
import hashlib
import json
import os
import re
import time
from typing import Any, Callable, Dict, List, Optional

from . import loader

VERIF = os.path.dirname(os.path.dirname(os.path.abspath(__file__)))
KNOWN = os.path.join(VERIF, "known_findings.json")


class AnalysisError(Exception):
    """The analysis cannot decide (anchor vanished, unsupported construct, floor not met): exit 2."""


def norm(node_or_text: Any) -> str:
    """Normalised statement text used in finding keys: independent of line numbers, layout and comments."""
    if isinstance(node_or_text, ast.AST):
        text = ast.unparse(node_or_text)
    else:
        text = str(node_or_text)
    return re.sub(r"\s+", " ", text).strip()[:160]


@dataclasses.dataclass
class Ob:
    rule: str
    instance: str
    ok: bool
    where: str
    func: str
    msg: str
    key: str
    detail: Dict[str, Any] = dataclasses.field(default_factory=dict)

    def line(self) -> str:
        st = "ok  " if self.ok else "FAIL"
        return f"{st} {self.where} {self.func} {self.rule} [{self.instance}] {self.msg}"


class Ctx:
    def __init__(self, prop: str, repo: loader.Repo, tier: str = "quick", use_cache: bool = True):
        self.prop = prop
        self.repo = repo
        self.tier = tier
        self.obs: List[Ob] = []
        self.notes: List[str] = []
        self.analysed_funcs: set = set()
        self.counters: Dict[str, int] = {}
        self.samples: List[Any] = []
        self.assumptions: List[str] = []
        self.exhaustive = False
        self._facts = None
        self._use_cache = use_cache
        self._cfgs: Dict[str, Any] = {}
        self.rule_map: Dict[str, str] = {}     # a rule shared with another property reports under this property's own id

    # -- lazily computed fact bases ------------------------------------------------------------------------
    @property
    def facts(self):
        if self._facts is None:
            from . import mypyfacts
            self._facts = mypyfacts.load(self.repo.root, self.repo.digest, use_cache=self._use_cache)
            self.notes.append(f"mypy facts: {self._facts.stats}")
        return self._facts

    def cfg(self, fn: loader.Func, **kw):
        from . import cfg as _cfg
        if kw:
            return _cfg.CFG(fn.node, **kw)
        if fn.qualname not in self._cfgs:
            self._cfgs[fn.qualname] = _cfg.CFG(fn.node)
        return self._cfgs[fn.qualname]

    # -- recording ---------------------------------------------------------------------------------------------
    def func(self, qualname: str) -> loader.Func:
        fn = self.repo.func(qualname)
        self.analysed_funcs.add(qualname)
        return fn

    def _mk(self, ok: bool, rule: str, instance: str, fn: Optional[loader.Func], node: Optional[ast.AST],
            msg: str, key_text: Optional[str], detail: Optional[Dict[str, Any]]) -> Ob:
        rule = self.rule_map.get(rule, rule)
        where = fn.loc(node) if fn is not None else "-"
        fq = fn.qualname if fn is not None else "-"
        if fn is not None:
            self.analysed_funcs.add(fn.qualname)
        kt = key_text if key_text is not None else (norm(node) if node is not None else instance)
        key = f"{rule}|{fq}|{kt}"
        ob = Ob(rule, instance, ok, where, fq, msg, key, detail or {})
        self.obs.append(ob)
        return ob

    def ok(self, rule: str, instance: str, fn: Optional[loader.Func] = None, node: Optional[ast.AST] = None,
           msg: str = "", key_text: Optional[str] = None, detail: Optional[Dict[str, Any]] = None) -> Ob:
        return self._mk(True, rule, instance, fn, node, msg, key_text, detail)

    def bad(self, rule: str, instance: str, fn: Optional[loader.Func] = None, node: Optional[ast.AST] = None,
            msg: str = "", key_text: Optional[str] = None, detail: Optional[Dict[str, Any]] = None) -> Ob:
        return self._mk(False, rule, instance, fn, node, msg, key_text, detail)

    def check(self, cond: bool, rule: str, instance: str, fn: Optional[loader.Func] = None,
              node: Optional[ast.AST] = None, msg_ok: str = "", msg_bad: str = "",
              key_text: Optional[str] = None, detail: Optional[Dict[str, Any]] = None) -> bool:
        self._mk(bool(cond), rule, instance, fn, node, msg_ok if cond else msg_bad, key_text, detail)
        return bool(cond)

    def require(self, cond: Any, what: str) -> None:
        """An anchor or shape the rule needs in order to be evaluated at all; absence = analysis broken."""
        if not cond:
            raise AnalysisError(what)

    def floor(self, rule: str, what: str, count: int, minimum: int) -> None:
        rule = self.rule_map.get(rule, rule)
        self.counters[f"{rule}:{what}"] = count
        if count < minimum:
            raise AnalysisError(f"{rule}: only {count} instance(s) of '{what}' found, floor confirmed by hand "
                                f"is {minimum} (an anchor vanished: analysis broken, not a verdict)")

    def count(self, name: str, n: int = 1) -> None:
        self.counters[name] = self.counters.get(name, 0) + n

    def sample(self, s: Any) -> None:
        if len(self.samples) < 40:
            self.samples.append(s)

    def note(self, s: str) -> None:
        self.notes.append(s)

    def assume(self, s: str) -> None:
        if s not in self.assumptions:
            self.assumptions.append(s)


# -- known findings -------------------------------------------------------------------------------------------

def load_known() -> List[Dict[str, Any]]:
    if not os.path.exists(KNOWN):
        return []
    with open(KNOWN) as f:
        data = json.load(f)
    return data.get("findings", [])


def finding_matches(entry: Dict[str, Any], ob: Ob, prop: str) -> bool:
    if entry.get("property") != prop or entry.get("state") != "open":
        return False
    return entry.get("key") == ob.key


# -- evidence --------------------------------------------------------------------------------------------------

def write_evidence(ctx: Ctx, prop: str, tier: str, wall: float, violations: int, explanation: str,
                   trusted_base: List[str], extra: Optional[Dict[str, Any]] = None) -> str:
    obligations = len(ctx.obs)
    discharged = sum(1 for o in ctx.obs if o.ok)
    distinct = len({(o.rule, o.func, o.instance) for o in ctx.obs})
    samples: List[Any] = []
    for o in ctx.obs[:12]:
        samples.append({"rule": o.rule, "instance": o.instance, "where": o.where, "function": o.func,
                        "status": "discharged" if o.ok else "violated", "what": o.msg})
    samples.extend(ctx.samples[:28])
    cov: Dict[str, Any] = {
        "explanation": explanation,
        "obligations": obligations,
        "discharged": discharged,
        "evaluations": max(obligations + sum(v for k, v in ctx.counters.items() if k.startswith("eval:")), 1),
        "distinct_nontrivial": distinct,
        "rule": "one obligation per (rule, construct) instance enumerated from /repo's current source; an instance "
                "is non-trivial when the rule found at least one construct (call site, store, path, abstract state) "
                "to evaluate; distinct = distinct (rule id, function, instance) triples",
        "samples": samples,
        "exhaustive": bool(ctx.exhaustive),
        "exhaustive_scope": ("the finite abstract domains named in the explanation (weak orderings / threshold cells) are enumerated "
                             "completely; structural rules enumerate every matching construct of the current source; the behavioural "
                             "statement itself is not explored") if ctx.exhaustive else "every matching construct of the current source",
        "trusted_base": trusted_base,
        "checker_cmd": f"./check {prop} --tier {tier}",
        "functions_analysed": sorted(ctx.analysed_funcs),
        "counters": ctx.counters,
        "notes": ctx.notes[:60],
        "source_digest": ctx.repo.digest,
        "modules_parsed": len(ctx.repo.modules),
    }
    if extra:
        cov.update(extra)
    ev = {
        "property_id": prop,
        "tier": tier,
        "seed": int(os.environ.get("VERIF_SEED", "0") or 0),
        "level": "other",
        "coverage": cov,
        "assumptions": ctx.assumptions,
        "wall_s": round(wall, 3),
        "violations": violations,
    }
    os.makedirs(os.path.join(VERIF, "evidence"), exist_ok=True)
    path = os.path.join(VERIF, "evidence", f"{prop}.json")
    tmp = path + f".{os.getpid()}.tmp"
    with open(tmp, "w") as f:
        json.dump(ev, f, indent=1, default=str)
        f.write("\n")
    os.replace(tmp, path)
    return path


def write_replay(prop: str, ob: Ob) -> str:
    d = os.path.join(VERIF, "replays")
    os.makedirs(d, exist_ok=True)
    h = hashlib.sha1(ob.key.encode()).hexdigest()[:10]
    path = os.path.join(d, f"{prop}-{ob.rule}-{h}.json")
    with open(path, "w") as f:
        json.dump({"property": prop, "rule": ob.rule, "key": ob.key, "where": ob.where, "function": ob.func,
                   "instance": ob.instance, "what": ob.msg, "detail": ob.detail}, f, indent=1, default=str)
        f.write("\n")
    return path
