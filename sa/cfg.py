"""Statement-level control-flow graph for the statement kinds basana uses, with path queries.

Nodes are simple statements, branch tests (``if``/``while`` tests, ``for`` iterators), ``with`` headers and
exception-handler heads.  ``try/finally`` is modelled by building a separate copy of the ``finally`` body for
every continuation that can cross it (fall-through, return, break, continue, exception), so path queries stay
exact with respect to the syntax.  Edges carry a label:

    next | true | false | loop | exc | handler | reraise

``exc`` edges leave every statement that *may raise* (decided by the ``may_raise`` predicate the rule supplies;
the default is "contains a call, await, subscript, raise or delete") and lead to the innermost handler dispatch
node or to the function's RAISE exit.  Feasibility of a path is never considered: a path exists iff the syntax
allows it.
"""
from __future__ import annotations

import ast
from typing import Callable, Dict, Iterable, Iterator, List, Optional, Set, Tuple


class Unsupported(Exception):
    pass


class Node:
    __slots__ = ("id", "kind", "ast", "succ", "pred", "label")

    def __init__(self, nid: int, kind: str, node: Optional[ast.AST], label: str = ""):
        self.id = nid
        self.kind = kind      # entry exit raise stmt test for with handler dispatch join
        self.ast = node
        self.succ: List[Tuple["Node", str]] = []
        self.pred: List[Tuple["Node", str]] = []
        self.label = label

    @property
    def line(self) -> int:
        return getattr(self.ast, "lineno", 0) if self.ast is not None else 0

    def text(self) -> str:
        if self.ast is None:
            return f"<{self.kind}>"
        if self.kind in ("test",):
            return "test " + ast.unparse(self.ast)
        if self.kind == "for":
            return "for " + ast.unparse(self.ast.target) + " in " + ast.unparse(self.ast.iter)  # type: ignore
        if self.kind == "with":
            return "with " + ", ".join(ast.unparse(i) for i in self.ast.items)  # type: ignore
        if self.kind == "withexit":
            return "<exit of with " + ", ".join(ast.unparse(i) for i in self.ast.items) + ">"  # type: ignore
        if self.kind == "handler":
            t = self.ast.type  # type: ignore
            return "except " + (ast.unparse(t) if t is not None else "")
        if self.kind == "dispatch":
            return "<except-dispatch>"
        s = ast.unparse(self.ast)
        return s.split("\n")[0][:120]

    def __repr__(self) -> str:
        return f"N{self.id}:{self.kind}:{self.line}:{self.text()[:40]}"


def exprs_of(node: Node) -> List[ast.AST]:
    """The expressions evaluated *at* this node (not the nested statement bodies)."""
    a = node.ast
    if a is None:
        return []
    if node.kind == "test":
        return [a]
    if node.kind == "for":
        return [a.iter, a.target]  # type: ignore
    if node.kind == "with":
        out: List[ast.AST] = []
        for it in a.items:  # type: ignore
            out.append(it.context_expr)
            if it.optional_vars is not None:
                out.append(it.optional_vars)
        return out
    if node.kind == "handler":
        return [a.type] if a.type is not None else []  # type: ignore
    if node.kind == "stmt":
        if isinstance(a, (ast.FunctionDef, ast.AsyncFunctionDef, ast.ClassDef)):
            return list(a.decorator_list)
        return [a]
    return []


def walk_shallow(node: ast.AST) -> Iterator[ast.AST]:
    """ast.walk that does not descend into nested function/lambda/class bodies."""
    stack = [node]
    while stack:
        n = stack.pop()
        yield n
        for c in ast.iter_child_nodes(n):
            if isinstance(c, (ast.FunctionDef, ast.AsyncFunctionDef, ast.Lambda, ast.ClassDef)):
                continue
            stack.append(c)


def default_may_raise(e: ast.AST) -> bool:
    for n in walk_shallow(e):
        if isinstance(n, (ast.Call, ast.Await, ast.Raise, ast.Delete, ast.Yield, ast.YieldFrom)):
            return True
        if isinstance(n, ast.Subscript) and isinstance(n.ctx, ast.Load):
            return True
    return False


def contains_await(node: Node) -> bool:
    for e in exprs_of(node):
        for n in walk_shallow(e):
            if isinstance(n, (ast.Await,)):
                return True
    if node.kind == "for" and isinstance(node.ast, ast.AsyncFor):
        return True
    if node.kind in ("with", "withexit") and isinstance(node.ast, ast.AsyncWith):
        return True
    return False


class _Ctx:
    __slots__ = ("ret", "exc", "brk", "cont")

    def __init__(self, ret, exc, brk, cont):
        self.ret = ret      # callables returning the node to jump to (lazy, because of finally copies)
        self.exc = exc
        self.brk = brk
        self.cont = cont


class CFG:
    def __init__(self, func: ast.AST, may_raise: Callable[[ast.AST], bool] = default_may_raise,
                 swallowing_with: Optional[Callable[[ast.withitem], bool]] = None):
        self.func = func
        self.nodes: List[Node] = []
        self._may_raise = may_raise
        self._swallow = swallowing_with or (lambda item: False)
        self.entry = self._new("entry", None)
        self.exit = self._new("exit", None)        # normal return / fall off the end
        self.raise_exit = self._new("raise", None)  # exception escapes
        body = func.body if not isinstance(func, ast.Lambda) else [ast.Return(value=func.body)]
        ctx = _Ctx(lambda: self.exit, lambda: self.raise_exit, None, None)
        first = self._block(body, self.exit, ctx)
        self._edge(self.entry, first, "next")
        self._by_ast: Dict[int, List[Node]] = {}
        for n in self.nodes:
            if n.ast is not None:
                self._by_ast.setdefault(id(n.ast), []).append(n)

    # -- construction -----------------------------------------------------------------------------------------
    def _new(self, kind: str, node: Optional[ast.AST], label: str = "") -> Node:
        n = Node(len(self.nodes), kind, node, label)
        self.nodes.append(n)
        return n

    def _edge(self, a: Node, b: Node, label: str) -> None:
        for (x, l) in a.succ:
            if x is b and l == label:
                return
        a.succ.append((b, label))
        b.pred.append((a, label))

    def _block(self, stmts: List[ast.stmt], succ: Node, ctx: _Ctx) -> Node:
        for s in reversed(stmts):
            succ = self._stmt(s, succ, ctx)
        return succ

    def _simple(self, s: ast.AST, succ: Optional[Node], ctx: _Ctx, kind: str = "stmt") -> Node:
        n = self._new(kind, s)
        if succ is not None:
            self._edge(n, succ, "next")
        return n

    def _add_exc(self, n: Node, exprs: Iterable[ast.AST], ctx: _Ctx) -> None:
        if any(self._may_raise(e) for e in exprs):
            self._edge(n, ctx.exc(), "exc")

    def _stmt(self, s: ast.stmt, succ: Node, ctx: _Ctx) -> Node:
        if isinstance(s, (ast.Expr, ast.Assign, ast.AugAssign, ast.AnnAssign, ast.Pass, ast.Delete, ast.Import,
                          ast.ImportFrom, ast.Global, ast.Nonlocal)):
            n = self._simple(s, succ, ctx)
            self._add_exc(n, [s], ctx)
            return n
        if isinstance(s, ast.Assert):
            # asserts are stated beliefs: no exception edge (see DESIGN 3.3)
            return self._simple(s, succ, ctx)
        if isinstance(s, (ast.FunctionDef, ast.AsyncFunctionDef, ast.ClassDef)):
            return self._simple(s, succ, ctx)
        if isinstance(s, ast.Return):
            n = self._new("stmt", s)
            if s.value is not None:
                self._add_exc(n, [s.value], ctx)
            self._edge(n, ctx.ret(), "next")
            return n
        if isinstance(s, ast.Raise):
            n = self._new("stmt", s)
            self._edge(n, ctx.exc(), "exc")
            return n
        if isinstance(s, ast.Break):
            n = self._new("stmt", s)
            if ctx.brk is None:
                raise Unsupported("break outside loop")
            self._edge(n, ctx.brk(), "next")
            return n
        if isinstance(s, ast.Continue):
            n = self._new("stmt", s)
            if ctx.cont is None:
                raise Unsupported("continue outside loop")
            self._edge(n, ctx.cont(), "loop")
            return n
        if isinstance(s, ast.If):
            t = self._new("test", s.test)
            self._add_exc(t, [s.test], ctx)
            self._edge(t, self._block(s.body, succ, ctx), "true")
            self._edge(t, self._block(s.orelse, succ, ctx) if s.orelse else succ, "false")
            return t
        if isinstance(s, ast.While):
            t = self._new("test", s.test)
            self._add_exc(t, [s.test], ctx)
            after = self._block(s.orelse, succ, ctx) if s.orelse else succ
            lctx = _Ctx(ctx.ret, ctx.exc, lambda: succ, lambda: t)
            body = self._block(s.body, t, lctx)
            self._edge(t, body, "true")
            const_true = isinstance(s.test, ast.Constant) and bool(s.test.value) is True
            if not const_true:
                self._edge(t, after, "false")
            # mark back edges
            return t
        if isinstance(s, (ast.For, ast.AsyncFor)):
            t = self._new("for", s)
            self._add_exc(t, [s.iter], ctx)
            if isinstance(s, ast.AsyncFor):
                self._edge(t, ctx.exc(), "exc")
            after = self._block(s.orelse, succ, ctx) if s.orelse else succ
            lctx = _Ctx(ctx.ret, ctx.exc, lambda: succ, lambda: t)
            body = self._block(s.body, t, lctx)
            self._edge(t, body, "true")
            self._edge(t, after, "false")
            return t
        if isinstance(s, (ast.With, ast.AsyncWith)):
            w = self._new("with", s)
            self._add_exc(w, [i.context_expr for i in s.items], ctx)
            if isinstance(s, ast.AsyncWith):
                self._edge(w, ctx.exc(), "exc")
            if any(self._swallow(i) for i in s.items):
                # exceptions raised in the body may be swallowed by the context manager: continue after it
                join = self._new("join", None, "with-swallow")
                self._edge(join, succ, "next")
                self._edge(join, ctx.exc(), "reraise")
                bctx = _Ctx(ctx.ret, lambda: join, ctx.brk, ctx.cont)
            else:
                bctx = ctx
            wx = self._new("withexit", s)
            self._edge(wx, succ, "next")
            if isinstance(s, ast.AsyncWith):
                self._edge(wx, ctx.exc(), "exc")
            self._edge(w, self._block(s.body, wx, bctx), "next")
            return w
        if isinstance(s, ast.Try):
            return self._try(s, succ, ctx)
        raise Unsupported(f"statement kind {type(s).__name__} at line {getattr(s, 'lineno', '?')}")

    def _try(self, s: ast.Try, succ: Node, ctx: _Ctx) -> Node:
        if s.finalbody:
            cache: Dict[str, Node] = {}

            def through_finally(kind: str, target: Callable[[], Node]) -> Callable[[], Node]:
                def get() -> Node:
                    if kind not in cache:
                        cache[kind] = self._block(s.finalbody, target(), ctx)
                    return cache[kind]
                return get

            fin_next = through_finally("next", lambda: succ)()
            ictx = _Ctx(
                through_finally("ret", ctx.ret),
                through_finally("exc", ctx.exc),
                through_finally("brk", ctx.brk) if ctx.brk is not None else None,
                through_finally("cont", ctx.cont) if ctx.cont is not None else None,
            )
            after = fin_next
        else:
            ictx = ctx
            after = succ

        if s.handlers:
            dispatch = self._new("dispatch", s)
            catch_all = False
            for h in s.handlers:
                hn = self._new("handler", h)
                self._edge(dispatch, hn, "handler")
                # a bare ``raise`` inside the handler re-raises to the outer context (ictx)
                self._edge(hn, self._block(h.body, after, ictx), "next")
                if h.type is None or (isinstance(h.type, ast.Name) and h.type.id == "BaseException"):
                    catch_all = True
            if not catch_all:
                self._edge(dispatch, ictx.exc(), "reraise")
            bctx = _Ctx(ictx.ret, lambda: dispatch, ictx.brk, ictx.cont)
        else:
            bctx = ictx
        else_entry = self._block(s.orelse, after, ictx) if s.orelse else after
        return self._block(s.body, else_entry, bctx)

    # -- lookup -----------------------------------------------------------------------------------------------
    def nodes_for(self, a: ast.AST) -> List[Node]:
        """CFG nodes whose statement/test is (or contains, for expressions) the given ast node."""
        cur: Optional[ast.AST] = a
        while cur is not None:
            hit = self._by_ast.get(id(cur))
            if hit:
                # a statement inside ``finally`` has one copy per continuation
                # (for ``for``/``with``/``try`` headers make sure ``a`` is evaluated at the header, not in the body)
                good = []
                for n in hit:
                    if n.kind == "withexit":
                        continue
                    if n.kind in ("for", "with", "dispatch", "handler") and cur is not a:
                        if not any(a is x or _contains(x, a) for x in exprs_of(n)):
                            continue
                    good.append(n)
                if good:
                    return good
            cur = getattr(cur, "parent", None)
            if isinstance(cur, (ast.FunctionDef, ast.AsyncFunctionDef, ast.Lambda)) and cur is not self.func:
                # nested function body: not part of this CFG, but the def statement is
                continue
        return []

    def rpo(self) -> Dict["Node", int]:
        """Reverse post-order index of every node reachable from entry (a topological order ignoring back edges)."""
        seen: Set[Node] = set()
        post: List[Node] = []
        stack: List[Tuple[Node, int]] = [(self.entry, 0)]
        seen.add(self.entry)
        while stack:
            n, i = stack.pop()
            if i < len(n.succ):
                stack.append((n, i + 1))
                m = n.succ[i][0]
                if m not in seen:
                    seen.add(m)
                    stack.append((m, 0))
            else:
                post.append(n)
        return {n: k for k, n in enumerate(reversed(post))}

    def where(self, pred: Callable[[Node], bool]) -> List[Node]:
        return [n for n in self.nodes if pred(n)]

    # -- path queries -----------------------------------------------------------------------------------------
    def reach(self, sources: Iterable[Node], stop: Callable[[Node], bool] = lambda n: False,
              labels: Optional[Set[str]] = None, include_sources: bool = False) -> Set[Node]:
        """Nodes reachable from ``sources`` along edges whose label is in ``labels`` (None = all), never
        continuing *through* a node for which ``stop`` holds (stop nodes themselves are not returned)."""
        seen: Set[Node] = set()
        work = []
        for s in sources:
            if include_sources:
                if not stop(s) and s not in seen:
                    seen.add(s)
                    work.append(s)
            else:
                work.append(s)
        first = not include_sources
        srcset = set(work)
        while work:
            n = work.pop()
            for (m, l) in n.succ:
                if labels is not None and l not in labels:
                    continue
                if m in seen or stop(m):
                    continue
                seen.add(m)
                work.append(m)
        return seen

    def path_conditions(self, src: Node, dst: Node) -> List[Tuple[str, bool, Node]]:
        """Branch conditions that hold on *every* path from ``src`` to ``dst`` (exception edges ignored): ``(term text, value, test
        node)``.  ``not X`` is reported as ``(X, False)``; a conjunction that must be true / a disjunction that must be false is split
        into its terms.  Independent of whether the code says ``if c: stmt`` or ``if not c: continue; stmt``."""
        out: List[Tuple[str, bool, Node]] = []

        def reachable_without(t: Node, lab: str) -> bool:
            seen, st = {src}, [src]
            while st:
                n = st.pop()
                if n is dst and n is not src:
                    return True
                for (m, l) in n.succ:
                    if l == "exc" or m in seen or (n is t and l == lab):
                        continue
                    seen.add(m)
                    st.append(m)
            return dst in seen and dst is not src
        for t in self.nodes:
            if t.kind != "test" or t.ast is None:
                continue
            labs = {l for (_, l) in t.succ}
            if not {"true", "false"} <= labs:
                continue
            need = None
            if not reachable_without(t, "true"):
                need = True
            elif not reachable_without(t, "false"):
                need = False
            if need is None:
                continue

            def split(e: ast.AST, val: bool) -> None:
                if isinstance(e, ast.UnaryOp) and isinstance(e.op, ast.Not):
                    split(e.operand, not val)
                elif isinstance(e, ast.BoolOp) and ((isinstance(e.op, ast.And) and val) or (isinstance(e.op, ast.Or) and not val)):
                    for v in e.values:
                        split(v, val)
                else:
                    out.append((ast.unparse(e), val, t))
            split(t.ast, need)
        return out

    def path_avoiding(self, src: Node, dst: Callable[[Node], bool], avoid: Callable[[Node], bool],
                      labels: Optional[Set[str]] = None) -> Optional[List[Node]]:
        """Shortest path from a successor of ``src`` to a node satisfying ``dst`` that never visits a node
        satisfying ``avoid`` (BFS).  ``None`` if there is none."""
        from collections import deque
        prev: Dict[Node, Optional[Node]] = {}
        dq = deque()
        for (m, l) in src.succ:
            if labels is not None and l not in labels:
                continue
            if m not in prev and not avoid(m):
                prev[m] = None
                dq.append(m)
        while dq:
            n = dq.popleft()
            if dst(n):
                path = [n]
                while prev[path[-1]] is not None:
                    path.append(prev[path[-1]])  # type: ignore
                return [src] + list(reversed(path))
            for (m, l) in n.succ:
                if labels is not None and l not in labels:
                    continue
                if m in prev or avoid(m):
                    continue
                prev[m] = n
                dq.append(m)
        return None

    def dominated_by(self, target: Node, guard: Callable[[Node], bool],
                     labels: Optional[Set[str]] = None) -> Optional[List[Node]]:
        """None if every path entry -> target passes a ``guard`` node; else a counter-example path."""
        if guard(target):
            return None
        return self.path_avoiding(self.entry, lambda n: n is target, guard, labels)

    def always_followed_by(self, src: Node, must: Callable[[Node], bool], exits: Optional[Set[Node]] = None,
                           labels: Optional[Set[str]] = None) -> Optional[List[Node]]:
        """None if every path from ``src`` to a normal exit passes a ``must`` node; else a counter-example."""
        ex = exits if exits is not None else {self.exit}
        return self.path_avoiding(src, lambda n: n in ex, must, labels)


NORMAL = {"next", "true", "false", "loop", "handler"}          # edges of normal control flow incl. handled excs
NO_EXC = {"next", "true", "false", "loop"}                     # strictly exception-free paths
ALL = None


def _contains(root: ast.AST, target: ast.AST) -> bool:
    for n in ast.walk(root):
        if n is target:
            return True
    return False


def fmt_path(path: List[Node]) -> List[str]:
    return [f"L{n.line}: {n.text()}" if n.ast is not None else f"<{n.kind}>" for n in path]
