"""Checker self-validation (thorough tier): every rule must fire on a scratch copy with one instance broken, and
stay silent on a behaviour-preserving twin.  A failure here means the *checker* is broken (exit 2), never that
basana violates a property.  Scratch copies live in a mkdtemp() directory outside /repo and /verif and are removed.

A variant is ``(name, relpath, old, new, expect)``: the text ``old`` (which must occur exactly once in the file,
otherwise the variant is reported as 'inapplicable' -- e.g. because /repo was edited -- and skipped) is replaced by
``new``; ``expect`` is the rule id that must report a *new* violation, or None when the edit preserves behaviour and
every rule must stay silent.
"""
from __future__ import annotations

import importlib
import multiprocessing as mp
import os
import shutil
import tempfile
import ast
from typing import Any, Dict, List, Optional, Tuple


class Result:
    def __init__(self) -> None:
        self.total = 0
        self.fired = 0
        self.silent = 0
        self.inapplicable: List[str] = []
        self.failed: List[str] = []
        self.details: List[Dict[str, Any]] = []

    def summary(self) -> Dict[str, Any]:
        return {"variants": self.total, "mutants_detected": self.fired, "twins_silent": self.silent,
                "inapplicable": self.inapplicable, "failed": self.failed, "details": self.details[:80]}

    def line(self) -> str:
        return (f"{self.total} variants: {self.fired} mutants detected, {self.silent} twins silent, "
                f"{len(self.inapplicable)} inapplicable, {len(self.failed)} FAILED")


def refactor_twins(prop: str, root: str) -> List[Tuple]:
    """The refactoring corpus (/verif/twins/*/patch.diff: behaviour-preserving rewrites produced by independent sub-agents, each
    confirmed against the 226 tests): every twin that touches a file this property's rules read must leave them silent."""
    import glob
    import re
    from . import cli, core, loader
    from .core import VERIF
    try:
        ctx = cli.run_rules(prop, root, "quick", use_cache=True)
    except (core.AnalysisError, loader.AnchorMissing):
        return []
    files = {ctx.repo.funcs[q].module.relpath for q in ctx.analysed_funcs if q in ctx.repo.funcs}
    out = []
    for d in sorted(glob.glob(os.path.join(VERIF, "twins", "*", "patch.diff"))):
        touched = set(re.findall(r"^\+\+\+ b/(\S+)", open(d).read(), re.M))
        if touched & files:
            nm = os.path.basename(os.path.dirname(d))
            out.append((f"refactoring {nm} (independent sub-agent, behaviour-preserving)", "@patch", os.path.relpath(d, VERIF), None, None))
    return out


def mechanical_variants() -> List[Tuple]:
    """Whole-package behaviour-preserving rewrites (sa/mechanical.py): every check must be silent on each."""
    from . import mechanical
    out = [(f"mechanical rewrite of the whole package: {m}", "@mech", m, 1, None) for m in mechanical.MODES if m != "rename"]
    out += [(f"mechanical rewrite of the whole package: rename locals (seed {sd}, p={p})", "@mech", "rename", (sd, p), None)
            for sd, p in ((1, 1.0), (2, 0.5), (3, 0.5))]
    out.append(("mechanical rewrite of the whole package: mirror + augexpand + reorder + params + attrs + rename", "@mech", "all", (4, 0.7), None))
    return out


def _one_mech(prop, root, name, mode, arg, base_keys) -> Dict[str, Any]:
    from . import mechanical
    tmp = tempfile.mkdtemp(prefix="basana-sa-variant-")
    try:
        shutil.copytree(os.path.join(root, "basana"), os.path.join(tmp, "basana"), ignore=shutil.ignore_patterns("__pycache__"))
        if mode == "all":
            for m in ("mirror", "augexpand", "reorder", "params", "attrs"):
                mechanical.rewrite(tmp, m)
            mechanical.rewrite(tmp, "rename", arg[0], arg[1])
        elif mode == "rename":
            mechanical.rewrite(tmp, "rename", arg[0], arg[1])
        else:
            mechanical.rewrite(tmp, mode)
        keys, err = _keys(prop, tmp, use_cache=False)
    finally:
        shutil.rmtree(tmp, ignore_errors=True)
    if err:
        return {"name": name, "status": "failed", "why": f"behaviour-preserving rewrite made the analysis fail: {err}"}
    new_keys = keys - base_keys
    if new_keys:
        return {"name": name, "status": "failed",
                "why": f"behaviour-preserving rewrite raised {sorted(r for r, _ in new_keys)}: {sorted(k for _, k in new_keys)[0][:120]}"}
    return {"name": name, "status": "silent"}


def seeded_variants(prop: str, already: List[Tuple]) -> List[Tuple]:
    """Seeded changes written against this property (seeded/<prop>-n) that the hand-written variant list does not mention yet:
    each must keep firing the rule recorded for it in its meta.json (`tools/seed.py detect`)."""
    import glob
    import json
    from .core import VERIF
    named = {v[2] for v in already if v[1] == "@patch"}
    out = []
    for d in sorted(glob.glob(os.path.join(VERIF, "seeded", f"{prop}-*"))):
        rel = os.path.relpath(os.path.join(d, "patch.diff"), VERIF)
        mp = os.path.join(d, "meta.json")
        if rel in named or not os.path.exists(mp):
            continue
        rules = json.load(open(mp)).get("detected_by", {}).get(prop, {}).get("rules", [])
        if rules:
            out.append((f"seeded {os.path.basename(d)} (independent sub-agent)", "@patch", rel, None, rules[0]))
    return out


def _keys(prop: str, root: str, use_cache: bool) -> Tuple[set, Optional[str]]:
    from . import cli, core, loader
    try:
        ctx = cli.run_rules(prop, root, "quick", use_cache=use_cache)
    except (core.AnalysisError, loader.AnchorMissing) as e:
        return set(), f"ANALYSIS-ERROR {e}"
    return {(o.rule, o.key) for o in ctx.obs if not o.ok}, None


def _one(args) -> Dict[str, Any]:
    prop, root, variant, base_keys = args
    name, relpath, old, new, expect = variant
    if relpath == "@patch":
        return _one_patch(prop, root, name, old, expect, base_keys)
    if relpath == "@mech":
        return _one_mech(prop, root, name, old, new, base_keys)
    src_path = os.path.join(root, relpath)
    try:
        with open(src_path) as f:
            src = f.read()
    except OSError:
        return {"name": name, "status": "inapplicable", "why": f"{relpath} missing"}
    olds = list(old) if isinstance(old, (list, tuple)) else [old]
    news = list(new) if isinstance(new, (list, tuple)) else [new]
    mutated = src
    for o_, n_ in zip(olds, news):
        if mutated.count(o_) != 1:
            return {"name": name, "status": "inapplicable",
                    "why": f"anchor text occurs {mutated.count(o_)} times in {relpath}"}
        mutated = mutated.replace(o_, n_)
    try:
        ast.parse(mutated)
    except SyntaxError as e:
        return {"name": name, "status": "failed", "why": f"variant does not parse: {e}"}
    tmp = tempfile.mkdtemp(prefix="basana-sa-variant-")
    try:
        shutil.copytree(os.path.join(root, "basana"), os.path.join(tmp, "basana"),
                        ignore=shutil.ignore_patterns("__pycache__"))
        with open(os.path.join(tmp, relpath), "w") as f:
            f.write(mutated)
        keys, err = _keys(prop, tmp, use_cache=False)
    except Exception as e:  # pragma: no cover
        return {"name": name, "status": "failed", "why": f"internal error {type(e).__name__}: {e}"}
    finally:
        shutil.rmtree(tmp, ignore_errors=True)
    new_keys = keys - base_keys
    if expect is None:
        if err:
            return {"name": name, "status": "failed", "why": f"twin made the analysis fail: {err}"}
        if new_keys:
            return {"name": name, "status": "failed",
                    "why": f"behaviour-preserving twin raised {sorted(r for r, _ in new_keys)}"}
        return {"name": name, "status": "silent"}
    if err:
        return {"name": name, "status": "failed", "why": f"mutant made the analysis fail instead of firing: {err}"}
    hit = [k for k in new_keys if k[0] == expect or k[0].startswith(expect + ".")]
    if hit:
        return {"name": name, "status": "fired", "rule": expect, "key": hit[0][1][:140]}
    return {"name": name, "status": "failed",
            "why": f"mutant not detected by {expect} (new violations: {sorted(r for r, _ in new_keys)})"}


def _one_patch(prop, root, name, patch_rel, expect, base_keys) -> Dict[str, Any]:
    """Variant given as a unified diff (a seeded change kept under /verif/seeded)."""
    import subprocess
    from .core import VERIF
    patch = os.path.join(VERIF, patch_rel)
    tmp = tempfile.mkdtemp(prefix="basana-sa-variant-")
    try:
        shutil.copytree(os.path.join(root, "basana"), os.path.join(tmp, "basana"),
                        ignore=shutil.ignore_patterns("__pycache__"))
        p = subprocess.run(["git", "apply", "--include=basana/*", patch], cwd=tmp, stdout=subprocess.PIPE,
                           stderr=subprocess.STDOUT, text=True)
        if p.returncode != 0:
            return {"name": name, "status": "inapplicable", "why": "patch does not apply: " + p.stdout.strip()[-120:]}
        keys, err = _keys(prop, tmp, use_cache=False)
    finally:
        shutil.rmtree(tmp, ignore_errors=True)
    new_keys = keys - base_keys
    if expect is None:
        if err:
            return {"name": name, "status": "failed", "why": f"behaviour-preserving refactoring made the analysis fail: {err}"}
        if new_keys:
            return {"name": name, "status": "failed",
                    "why": f"behaviour-preserving refactoring raised {sorted(r for r, _ in new_keys)}: {sorted(k for _, k in new_keys)[0][:120]}"}
        return {"name": name, "status": "silent"}
    if err:
        return {"name": name, "status": "failed", "why": f"seeded change made the analysis fail instead of firing: {err}"}
    hit = [k for k in new_keys if k[0] == expect or k[0].startswith(expect + ".")]
    if hit:
        return {"name": name, "status": "fired", "rule": expect, "key": hit[0][1][:140]}
    return {"name": name, "status": "failed", "why": f"seeded change not detected by {expect} "
                                                      f"(new violations: {sorted(r for r, _ in new_keys)})"}


def variants_for(prop: str) -> List[Tuple]:
    try:
        mod = importlib.import_module(f"sa.rules.{prop.lower()}")
    except ModuleNotFoundError:
        return []
    try:
        vmod = importlib.import_module(f"sa.variants.{prop.lower()}")
        return list(getattr(vmod, "VARIANTS", []))
    except ModuleNotFoundError:
        return list(getattr(mod, "VARIANTS", []))


def run_for(prop: str, root: str, jobs: int = 16) -> Result:
    res = Result()
    vs = variants_for(prop)
    vs = vs + seeded_variants(prop, vs) + refactor_twins(prop, root) + mechanical_variants()
    res.total = len(vs)
    if not vs:
        return res
    base_keys, err = _keys(prop, root, use_cache=True)
    work = [(prop, root, v, base_keys) for v in vs]
    with mp.get_context("fork").Pool(min(jobs, len(work))) as pool:
        outs = pool.map(_one, work, chunksize=1)
    for o in outs:
        st = o["status"]
        if st == "fired":
            res.fired += 1
        elif st == "silent":
            res.silent += 1
        elif st == "inapplicable":
            res.inapplicable.append(f"{o['name']}: {o['why']}")
        else:
            res.failed.append(f"{o['name']}: {o['why']}")
        res.details.append(o)
    return res
